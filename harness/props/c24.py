"""C24 — Pooled connections carry no state from a previous checkout.

Model:    lean/SaVerif/Model/Txn.lean (Connection.close / _ConnectionFairy._reset /
          _finalize_fairy / _ConnectionRecord.checkin+get_connection, reset_on_return,
          isolation-level characteristic reset, GC finalisation, invalidation)
Theorems: lean/SaVerif/Props/C24.lean  (checkin_clean: invariant over ALL histories)
Tie:      multi-checkout histories on a real QueuePool over a SQLite file DB: each
          session begins / executes / commits / rolls back / opens savepoints / hits injected
          COMMIT or ROLLBACK failures / switches to AUTOCOMMIT, and ends by close(), by
          garbage collection, by invalidation or by an exception; the next checkout is
          observed (rows the DBAPI connection sees vs rows committed, autocommit flag,
          identity of the DBAPI connection, pool queue).  Every op's record is compared with
          the Lean model; the direct oracle states the property at every checkout.
          The oracle alone is also run on NullPool / StaticPool / SingletonThreadPool /
          AssertionPool.
"""
PID = "C24"
LEVEL = "proof"
LEAN = ["SaVerif.Props.C24"]
META = {
    "text": "Lean theorem checkin_clean: for EVERY operation sequence (any interleaving of begin/begin_nested/statements/commit/rollback/handle ops/context managers/execution_options calls in any number and order - AUTOCOMMIT, READ UNCOMMITTED, logging_token, both in one call, unrelated options - engine-level options/invalidate/armed DBAPI faults at cursor, execute, commit and rollback, also during the reset itself/close/garbage collection/new checkouts/extra pooled connections) every DBAPI connection idle in the pool has no uncommitted work, no savepoints, the default isolation level and no pending reset callbacks, whenever reset_on_return is rollback or commit; handed_out_clean: therefore every checkout sees exactly the committed rows in the default isolation level. Proved by an inductive invariant (well-formed handle table + clean pool + 'a non-default isolation level is always accompanied by a queued reset callback') over the transcribed Connection/pool model incl. the _ConnectionRecord.finalize_callback queue; the model is tied to engine/base.py + engine/default.py + pool/base.py by a per-step differential run of multi-checkout histories on a real QueuePool over SQLite, and the property itself is checked at every checkout by a direct oracle on all five pool classes, including a BaseException (KeyboardInterrupt) raised by the DBAPI during reset-on-return.",
    "note": "create_engine(skip_autocommit_rollback=True) is a dimension of model, generator and correspondence (the dialect skips ROLLBACK - in Connection._rollback_impl and in the pool reset - exactly when the DBAPI connection itself reports autocommit, whatever isolation_level option the Connection object has recorded: rollback_not_skipped_when_transactional, reset_not_skipped_when_transactional); checkin_clean / handed_out_clean are stated for engines WITHOUT that option: with it they fail for a SAVEPOINT opened under driver-level AUTOCOMMIT (skip_autocommit_savepoint_counterexample = known finding skip-autocommit-rollback:savepoint-open-at-close, F24, generated and replayed on the real code; checkin_clean_skip_partial: with the option a check-in is clean whenever a DBAPI connection in driver-level autocommit has no transaction opened by SQL). Savepoints under driver-level AUTOCOMMIT are part of model and tie: the SAVEPOINT opens a transaction that lasts until the outermost savepoint is released or COMMIT/ROLLBACK (SQLite; legacy pysqlite commit()/rollback() emulated by the DBAPI proxy). After fix 387ee97 (Connection.close skip_reset only while the transaction is active) the invariant needs no 'no failed commit before close' guard; prefix_close_counterexample keeps the pre-fix close() as a definition and proves it breaks the invariant (F7, fixed). Modelled-not-verified: the DBAPI driver (sqlite3 in autocommit=False mode behind the harness proxy; AUTOCOMMIT switch mapped onto sqlite3's autocommit attribute), weakref/GC timing (gc.collect() in the harness), only the single-threaded use of QueuePool (queue discipline FIFO); other pool classes are checked by the oracle only (not by the Lean model); the BaseException-during-reset histories are modelled (fault kind kbi, incl. fix 49615f9: the invalidated record is checked in before the exception propagates). PostgreSQL/MariaDB not executed.",
    "technique": "Lean 4 inductive invariant over all histories of a hand-transcribed model + per-step differential correspondence on a real pool over SQLite",
    "design_ref": "DESIGN.md §3 C24",
}

RESETS = ["rollback", "commit", "none"]


KEY_F24 = "skip-autocommit-rollback:savepoint-open-at-close"


def oracle(ops, records, reset, engine_opts="none", skip_ac=False):
    """The property itself: at every checkout (the initial one and every `N`) the DBAPI
    connection handed out sees exactly the committed rows and is not in AUTOCOMMIT —
    unless reset_on_return is disabled.  -> (key, step, why) or None"""
    from harness import lib_txn

    trig = f24_trigger(ops, records) if skip_ac else None
    for i, (tok, rec) in enumerate(zip(ops, records)):
        o = lib_txn.parse_record(rec)
        if o["res"].startswith("EXC:") or o["res"].startswith("OBSERVE-ERROR"):
            # (once F24 has left a transaction open on a pooled connection, switching that
            # connection to AUTOCOMMIT at the next connect can fail inside the driver)
            key = KEY_F24 if trig is not None and i >= trig else "c24-oracle"
            return (key, i, "step %d (%s) let an internal error escape: %s" % (i, tok, o["res"]))
        if reset == "none":
            continue
        if "LOCKED" in o["committed"] or "LOCKED" in o["working"]:
            return (classify(ops[: i + 1], records[: i + 1], skip_ac), i, "step %d (%s): the database file is locked by a pooled DBAPI connection that still has a transaction open" % (i, tok))
        if tok != "N":
            continue
        if o["res"] != "ok":
            continue
        if o["working"] == "x":
            continue
        if o["working"] != o["committed"]:
            return (classify(ops[: i + 1], records[: i + 1], skip_ac), i, "checkout at step %d hands out a DBAPI connection that sees rows %s while %s are committed (uncommitted work of an earlier user)" % (i, o["working"], o["committed"]))
        flags = o["rid"].lstrip("0123456789")
        want_auto = "auto" in engine_opts  # engine-wide AUTOCOMMIT is re-applied to every new Connection
        if ("a" in flags) != want_auto:
            return (classify(ops[: i + 1], records[: i + 1], skip_ac), i, "checkout at step %d hands out a DBAPI connection with autocommit=%s, engine default %s (isolation level left by an earlier user)" % (i, "a" in flags, want_auto))
        if "u" in flags:
            return (classify(ops[: i + 1], records[: i + 1], skip_ac), i, "checkout at step %d hands out a DBAPI connection still in READ UNCOMMITTED" % i)
    return None


def f24_trigger(ops, records):
    """first step at which a Connection is let go (close / GC / dropped) while its DBAPI
    connection, in driver-level autocommit, has a transaction open (opened by a SAVEPOINT):
    with skip_autocommit_rollback=True nobody rolls that transaction back"""
    from harness import lib_txn

    prev = None
    for i, (t, r) in enumerate(zip(ops, records)):
        o = lib_txn.parse_record(r)
        if prev is not None and t in ("X", "G", "N") and prev["rid"] != "x":
            if "t" in prev["rid"].lstrip("0123456789"):
                return i
        prev = o
    return None


def classify(ops, records=None, skip_ac=False):
    """specific key for a violating history: the (fixed) F7 shape is "in the session before
    the offending checkout a COMMIT failed with a non-disconnect error and the Connection was
    then close()d with the inactive transaction still attached"; F24 is "the engine has
    skip_autocommit_rollback=True and in that session a SAVEPOINT was opened while the DBAPI
    connection was in driver-level autocommit" (the rollbacks of close() and of the pool are
    then skipped although the SAVEPOINT has opened a transaction) """
    sess = ops[:-1] if ops and ops[-1] == "N" else ops
    start = 0
    if "N" in sess:
        start = len(sess) - sess[::-1].index("N")
        sess = sess[start:]
    if skip_ac and records is not None and f24_trigger(ops, records) is not None:
        return KEY_F24
    if "Fce" in sess and "X" in sess and not any(t in ("G", "I", "A", "U", "LA") or t.endswith("k") for t in sess):
        i = sess.index("Fce")
        rest = sess[i + 1:]
        if any(x == "C" or x[0] in "co" for x in rest) and rest[-1] == "X":
            return "failed-commit-then-close"
    return "c24-oracle"


# ---------------------------------------------------------------- generator
def gen_sessions(rng, world, nsess, reset="rollback", queue=True, chars=False, kbi=False):
    k = 1
    for s in range(nsess):
        auto = "auto" in world.engine_opts
        if chars and rng.random() < 0.45:
            # several execution_options() calls in varying order
            for _ in range(rng.randint(1, 3)):
                t = rng.choice(["A", "U", "L", "O", "LA", "L", "A"])
                auto = auto or t in ("A", "LA", "U")
                yield t
        elif rng.random() < 0.12:
            auto = True
            yield "A"
        if queue and reset != "none" and rng.random() < 0.15:
            yield "W%d" % rng.randint(1, 2)
        nops = rng.randint(1, 6)
        for _ in range(nops):
            r = rng.random()
            nh = len(world.handles)
            if chars and rng.random() < 0.10:
                # execution_options() in the middle of the session: inside a transaction the
                # transactional characteristics are refused, the others are not
                # (no local reference to the Connection may survive the yield: `N` relies on
                # the garbage collector finding it unreferenced)
                in_txn = world.conn is not None and not world.conn.closed and world.conn.in_transaction()
                t = rng.choice(["L", "O"] if world.plan.armed else ["A", "U", "L", "O", "LA", "L", "I", "I"])
                if t in ("A", "U", "LA") and not in_txn:
                    auto = True
                yield t
                if t == "I" and rng.random() < 0.6:
                    # explicit invalidation in mid-session: the Connection reconnects transparently
                    # (after rollback() if a transaction was in progress) and goes on with a NEW
                    # DBAPI connection on which the recorded options were not re-applied
                    if in_txn:
                        yield "R"
                    yield "i%d" % k
                    k += 1
                continue
            if r < 0.10:
                yield "b"
            elif r < 0.20 and (not auto or rng.random() < 0.6):
                # (under driver-level AUTOCOMMIT the SAVEPOINT itself opens a transaction)
                yield "n"
            elif r < 0.50:
                if rng.random() < 0.1 and k > 1:
                    yield "i%d" % rng.randrange(1, k)
                else:
                    yield "i%d" % k
                    k += 1
            elif r < 0.55 and k > 1:
                yield "d%d" % rng.randrange(1, k)
            elif r < 0.58:
                yield "q"
            elif r < 0.68:
                yield "C"
            elif r < 0.74:
                yield "R"
            elif r < 0.86:
                # an injected failure of COMMIT / ROLLBACK (non-disconnect or disconnect),
                # immediately followed by an op that reaches it
                p = rng.choice("ccr")
                kind = rng.choice("eeed")
                yield "F" + p + kind
                if p == "c":
                    yield rng.choice(["C", "C", "c0"] if nh else ["C"])
                else:
                    yield rng.choice(["R", "R", "X", "r0"] if nh else ["R", "X"])
                if world.plan.armed and rng.random() < 0.7:
                    yield "D"
            elif r < 0.90 and not auto:
                p = rng.choice("xxu")
                yield "F" + p + ("d" if p == "u" else rng.choice("ed"))
                yield "i%d" % k
                k += 1
                if world.plan.armed:
                    # a cursor()/execute() fault that did not fire must not linger: the
                    # isolation-level reset at check-in also runs a statement
                    yield "D"
            elif nh and not auto:
                yield rng.choice("crxeof") + str(rng.randrange(nh))
            elif nh:
                yield rng.choice("crx") + str(rng.randrange(nh))
            else:
                yield "q"
        if kbi and rng.random() < 0.35:
            # a BaseException (KeyboardInterrupt / CancelledError) raised by the DBAPI while
            # the pool resets the connection
            yield "F" + ("c" if reset == "commit" else "r") + "k"
        # how the user lets go of the connection
        r = rng.random()
        if r < 0.45:
            yield "X"
        elif r < 0.65:
            yield "G"
        elif r < 0.72:
            yield "I"
            yield rng.choice(["X", "G"])
        elif r < 0.80 and len(world.handles):
            # exception inside `with conn.begin():` then close
            yield "f0"
            yield "X"
        # else: nothing — the reference is simply dropped (N collects it)
        if any(k == "k" for _, k in world.plan.armed):
            yield "D"  # an interrupt that was armed but never reached must not fire in a later session
        yield "N"
    yield "q"


def run_history(rng, nsess, reset, poolclass="QueuePool", engine_opts="none", chars=False, kbi=False, skip_ac=False):
    from harness import lib_txn

    w = lib_txn.World(reset, "c24", poolclass, engine_opts=engine_opts, skip_ac=skip_ac)
    ops, recs = [], []
    try:
        for tok in gen_sessions(rng, w, nsess, reset, queue=(poolclass == "QueuePool"), chars=chars, kbi=kbi):
            if w.gone and tok not in ("N", "D") and not tok.startswith("F"):
                continue
            if recs and recs[-1].startswith("KBI") and tok not in ("N", "D"):
                # after an interrupt the program does not go on using the connection
                continue
            ops.append(tok)
            recs.append(w.step(tok))
    finally:
        w.dispose()
    return ops, recs


def replay_ops(ops, reset, poolclass="QueuePool", engine_opts="none", skip_ac=False):
    from harness import lib_txn

    return lib_txn.run_ops(ops, reset, "c24r", poolclass, engine_opts=engine_opts, skip_ac=skip_ac)


def modelled(ops, engine_opts):
    """histories the Lean model covers (the rest is checked by the oracle only)"""
    return True


FIXED_ISO = [
    # AUTOCOMMIT option, invalidation, transparent reconnect, uncommitted work at close / GC
    ("A;q;R;I;i1;X;N;q;i2;C;q", "rollback"),
    ("A;q;R;I;i1;G;N;q", "rollback"),
    ("A;i1;I;i2;X;N;q", "rollback"),
    ("LA;q;R;Fxd;q;i1;X;N;q", "rollback"),
    # AUTOCOMMIT / READ UNCOMMITTED refused inside a transaction (the option dict is updated anyway)
    ("i1;A;X;N;q;i2;C;q", "rollback"),
    ("i1;LA;G;N;q", "rollback"),
    ("b;i1;U;X;N;q", "rollback"),
    ("i1;A;R;i2;X;N;q", "rollback"),
    # genuine AUTOCOMMIT: rollbacks may be skipped, also an armed ROLLBACK failure is not reached
    ("A;i1;R;X;N;q", "rollback"),
    ("A;i1;Fre;R;D;X;N;q", "rollback"),
    ("A;i1;Fre;X;D;N;q", "rollback"),
    ("A;i1;G;N;q", "rollback"),
    ("A;i1;X;N;i2;R;q", "commit"),
    # savepoints under driver-level AUTOCOMMIT (the SAVEPOINT opens a transaction): released,
    # rolled back, committed by the root, left open at close (F24 with skip_autocommit_rollback)
    ("A;n;i1;c1;q;n;i2;r2;q;n;i3;C;q;X;N;q", "rollback"),
    ("A;n;i1;n;i2;r2;i3;R;q;X;N;q", "rollback"),
    ("A;n;i1;X;N;q;i2;C;q", "rollback"),
    ("A;n;i1;G;N;q", "rollback"),
]

FIXED = [
    ("i1;X;N;q", "rollback"),
    ("i1;G;N;q", "rollback"),
    ("i1;N;q", "rollback"),
    ("i1;Fce;C;X;N;q", "rollback"),  # F7 shape (fixed by 387ee97)
    ("b;i1;Fce;c0;X;N;q", "rollback"),
    ("i1;Fce;C;G;N;q", "rollback"),
    ("i1;Fre;R;X;N;q", "rollback"),
    ("i1;Fre;X;N;q", "rollback"),
    ("A;i1;X;N;q;i2;R;q", "rollback"),
    ("A;i1;G;N;q", "commit"),
    ("i1;n;i2;X;N;q", "commit"),
    ("i1;n;i2;G;N;q", "commit"),
    ("i1;G;N;q", "none"),
    ("W2;i1;Fxd;i2;R;i3;C;X;N;q", "rollback"),
    ("i1;I;X;N;q", "rollback"),
    ("b;e0;i1;f0;X;N;q", "rollback"),
]

OTHER_POOLS = ["NullPool", "StaticPool", "SingletonThreadPool", "AssertionPool"]


def run(ctx, deep=False):
    from harness import lib_txn

    ctx.rule = (
        "multi-checkout histories (1-4 sessions; per session up to 6 ops among begin/begin_nested/INSERT/DELETE/SELECT/commit/rollback/"
        "handle ops/AUTOCOMMIT/injected COMMIT, ROLLBACK, execute and cursor failures/extra pooled connections, ended by close, GC, "
        "invalidate, exception or dropping the reference; execution_options and invalidate()+transparent reconnect also in mid-session) x reset_on_return in {rollback, commit, None} x skip_autocommit_rollback in {off, on} on QueuePool: every op's record "
        "compared with the Lean model, oracle at every checkout; plus oracle-only runs on NullPool/StaticPool/SingletonThreadPool/AssertionPool; "
        "non-trivial = the history leaves a transaction open, fails a COMMIT/ROLLBACK, switches AUTOCOMMIT or is garbage collected"
    )
    ctx.trusted.append("sqlite3 (autocommit=False) behind harness/lib_txn.py's DBAPI proxy; AUTOCOMMIT mapped onto sqlite3's autocommit attribute")
    ctx.trusted.append("gc.collect() as the model of garbage collection of an unclosed Connection")
    big = ctx.tier == "thorough" or deep
    cases, impl_out, reqs = [], [], []

    def check(ops, recs, reset, poolclass="QueuePool", engine_opts="none", skip_ac=False):
        case = {"ops": ops, "reset": reset, "pool": poolclass, "engine_opts": engine_opts, "skip_ac": skip_ac}
        ctx.count("skip_autocommit_rollback=%s" % skip_ac)
        nontrivial = any(t in ("G", "A", "I") or t.startswith("F") for t in ops) or "N" in ops
        ctx.case(reset + ":" + poolclass + ":" + ";".join(ops), nontrivial=nontrivial)
        ctx.count("reset=" + reset)
        ctx.count("pool=" + poolclass)
        for t in ops:
            ctx.count("op=" + (t if t[0] in "FWAGNXI" else t[0]))
        ctx.count("engine_opts=" + engine_opts)
        bad = oracle(ops, recs, reset, engine_opts, skip_ac)
        if bad:
            ctx.violation(bad[0], {"ops": ops[: bad[1] + 1], "reset": reset, "pool": poolclass, "engine_opts": engine_opts, "skip_ac": skip_ac}, bad[2])
        trig = f24_trigger(ops, recs) if skip_ac else None
        if trig is not None:
            # beyond the known defect F24 a pooled connection keeps somebody's transaction open
            # (other connections then meet SQLite's file lock, which the model does not have):
            # compare with the model up to that step only
            ops, recs = ops[: trig + 1], recs[: trig + 1]
            case = {"ops": ops, "reset": reset, "pool": poolclass, "engine_opts": engine_opts, "skip_ac": skip_ac}
        if poolclass == "QueuePool" and modelled(ops, engine_opts):
            cases.append(case)
            impl_out.append("|".join(recs) if recs else "-")
            reqs.append(lib_txn.driver_line(ops, reset, engine_opts=engine_opts, skip_ac=skip_ac))

    for s, reset in FIXED:
        ops = s.split(";")
        check(ops, replay_ops(ops, reset), reset)
    # what the Connection object has recorded as its isolation level vs the state of the DBAPI
    # connection it currently holds, with and without create_engine(skip_autocommit_rollback=True)
    for s, reset in FIXED_ISO:
        ops = s.split(";")
        for sk in (False, True):
            check(ops, replay_ops(ops, reset, skip_ac=sk), reset, skip_ac=sk)
    n = 6000 if big else 400
    for i in range(n):
        reset = ctx.rng.choice(["rollback", "rollback", "commit", "none"])
        sk = ctx.rng.random() < 0.2
        ops, recs = run_history(ctx.rng, ctx.rng.randint(1, 4), reset, skip_ac=sk)
        check(ops, recs, reset, skip_ac=sk)
        if i % 300 == 0:
            ctx.sample({"reset": reset, "ops": ";".join(ops), "last": recs[-1]})
    n2 = 1200 if big else 100
    for i in range(n2):
        reset = ctx.rng.choice(["rollback", "commit"])
        pc = ctx.rng.choice(OTHER_POOLS)
        ops, recs = run_history(ctx.rng, ctx.rng.randint(1, 4), reset, pc)
        check(ops, recs, reset, pc)
    # connection characteristics (several execution_options calls, engine- and connection-level)
    # and BaseException during reset-on-return, on every pool class: oracle only
    n3 = 2400 if big else 180
    for i in range(n3):
        reset = ctx.rng.choice(["rollback", "rollback", "commit"])
        pc = ctx.rng.choice(["QueuePool", "QueuePool"] + OTHER_POOLS)
        eo = ctx.rng.choice(["none", "none", "token", "auto", "token+auto"])
        sk = ctx.rng.random() < 0.4
        ops, recs = run_history(ctx.rng, ctx.rng.randint(1, 4), reset, pc, eo, chars=True, kbi=ctx.rng.random() < 0.4, skip_ac=sk)
        check(ops, recs, reset, pc, eo, sk)
        if i % 150 == 0:
            ctx.sample({"reset": reset, "pool": pc, "engine_opts": eo, "ops": ";".join(ops), "last": recs[-1]})
    if ctx.driver_ok():
        ctx.correspond("corr/c24:pool-reset-vs-Model.Txn", cases, impl_out, ctx.driver(reqs))


def search(ctx, broken):
    for d in ctx.disagreements:
        c = d["case"]
        recs = replay_ops(c["ops"], c["reset"], c.get("pool", "QueuePool"), c.get("engine_opts", "none"), c.get("skip_ac", False))
        bad = oracle(c["ops"], recs, c["reset"], c.get("engine_opts", "none"), c.get("skip_ac", False))
        if bad:
            ctx.violation(bad[0], {"ops": c["ops"][: bad[1] + 1], "reset": c["reset"], "pool": c.get("pool", "QueuePool"), "engine_opts": c.get("engine_opts", "none"), "skip_ac": c.get("skip_ac", False)}, bad[2])
    sub = type(ctx)(ctx.pid, "thorough", ctx.seed + 1, ctx.level)
    run(sub, deep=True)
    ctx.violations.extend(sub.violations)


def replay(ctx, obj):
    c = obj["case"]
    eo = c.get("engine_opts", "none")
    recs = replay_ops(c["ops"], c["reset"], c.get("pool", "QueuePool"), eo, c.get("skip_ac", False))
    bad = oracle(c["ops"], recs, c["reset"], eo, c.get("skip_ac", False))
    print("replay C24 reset=%s pool=%s engine_opts=%s skip_autocommit_rollback=%s ops=%s" % (c["reset"], c.get("pool", "QueuePool"), eo, c.get("skip_ac", False), ";".join(c["ops"])))
    for t, r in zip(c["ops"], recs):
        print("  %-5s %s" % (t, r))
    print("oracle:", bad)
    return bad is not None
