"""C18 — LIMIT/OFFSET and their dialect emulations return exactly the requested slice.

Model:    lean/SaVerif/Model/Limit.lean (list semantics of every rendering form)
Theorems: lean/SaVerif/Props/C18.lean
Gen:      lean/SaVerif/Gen/LimitForms.lean (which form each dialect configuration renders)

Ordered queries (plain, join, subquery, DISTINCT, GROUP BY, label references) over random
data get limit / offset / fetch values (0, beyond the end, SQL expressions).  SQLite executes
them natively.  For MSSQL (pre-2012 and 2012+), Oracle (pre-12c and 12c+), MySQL and
PostgreSQL the statement is compiled with the real dialect; the MSSQL ROW_NUMBER() wrapper
runs on SQLite as rendered; the other renderings are mapped to SQLite syntax by a small
rewriter that implements the documented meaning of each form (TOP n, OFFSET/FETCH,
LIMIT o, l, LIMIT ALL, ROWNUM <= k / ROWNUM AS ora_rn) and executed.  Rows are compared with
the slice of the unlimited ordered result.
"""
import re

PID = "C18"
LEVEL = "proof"
LEAN = ["SaVerif.Props.C18"]
META = {
    "text": "Lean theorems, for every result list and every offset/limit: LIMIT..OFFSET (incl. SQLite's LIMIT -1 and PostgreSQL's LIMIT ALL), MySQL's LIMIT o,l (and o,2^64-1), OFFSET..FETCH FIRST, TOP, the Oracle ROWNUM wrappers (limit only / offset only / both with max_row = limit+offset) all equal (rows.drop off).take lim; the MSSQL ROW_NUMBER() wrapper equals the slice when the derived table keeps numbering order and is a permutation of the slice for EVERY arrangement of the derived table (row_number_wrapper_is_slice_perm; the in-order statement has a proved counterexample: finding F13, the outer query carries no ORDER BY); WITH TIES extends the slice only by rows tying with its last row; PERCENT row count bounds; the regenerated table of which form each dialect configuration renders only contains applicable forms (decide). Tied to the code by executing, on SQLite, the native rendering and the (re-rendered) MSSQL / Oracle / MySQL / PostgreSQL renderings of generated ordered queries and comparing with the slice of the unlimited ordered result.",
    "note": "MSSQL / Oracle / MySQL / PostgreSQL syntax never runs on its own server: the ROW_NUMBER() wrapper executes on SQLite verbatim, the other forms through a rewriter that is part of the trusted base (TOP n -> LIMIT n, OFFSET o ROWS FETCH FIRST l ROWS ONLY -> LIMIT l OFFSET o, LIMIT ALL -> LIMIT -1, ROWNUM <= k -> LIMIT k, ROWNUM AS ora_rn -> row_number() OVER ()). WITH TIES and PERCENT: the rendered clause is parsed back (count, offset, PERCENT, WITH TIES), removed, the remaining ordered query runs on SQLite and the clause's documented meaning is applied by a small evaluator (trusted) to the result; compared with the case's own numbers and with the Lean withTies / percentCount. F13 is model-level: SQLite keeps the derived table's order, so the wrapper's rows are compared as a multiset and the order is only counted.",
    "technique": "Lean 4 proofs by induction over the result list for each rendering form + execution of the rendered / re-rendered SQL on SQLite",
    "design_ref": "DESIGN.md §3 C18",
}

FORMS = ("none", "limitOffset", "mysqlLimit", "offsetFetch", "top", "rowNumber", "rownum", "error")


def dialect_configs():
    from sqlalchemy.dialects import mssql, mysql, oracle, postgresql, sqlite

    d = mssql.dialect()
    d._supports_offset_fetch = False
    yield "mssql2008", d
    d = mssql.dialect()
    d._supports_offset_fetch = True
    yield "mssql2012", d
    d = oracle.dialect()
    d._supports_offset_fetch = False
    yield "oracle11", d
    d = oracle.dialect()
    d._supports_offset_fetch = True
    yield "oracle12", d
    yield "mysql", mysql.dialect()
    yield "postgresql", postgresql.dialect()
    yield "sqlite", sqlite.dialect()


def classify_sql(sql):
    """rendering form of a compiled statement"""
    s = " ".join(sql.split())
    if "ROW_NUMBER() OVER" in s and "mssql_rn" in s:
        return "rowNumber"
    if "ROWNUM" in s:
        return "rownum"
    if re.search(r"SELECT (DISTINCT )?TOP ", s):
        return "top"
    if " ROWS" in s and (re.search(r"OFFSET .* ROWS", s) or "FETCH FIRST" in s):
        return "offsetFetch"
    m = re.search(r" LIMIT (.*)$", s)
    if m:
        if " OFFSET " not in m.group(1) and "," in _strip_parens(m.group(1)):
            return "mysqlLimit"
        return "limitOffset"
    return "none"


def _strip_parens(s):
    out, depth = "", 0
    for ch in s:
        if ch == "(":
            depth += 1
        elif ch == ")":
            depth -= 1
        elif depth == 0:
            out += ch
    return out


def apply_limits(stmt, shape):
    """shape = (hasLimit, hasOffset, isFetch, simple)"""
    from sqlalchemy import literal

    has_l, has_o, is_f, simple = shape
    lv = 3 if simple else (literal(1) + 2)
    ov = 2 if simple else (literal(1) + 1)
    if has_l:
        stmt = stmt.fetch(lv) if is_f else stmt.limit(lv)
    if has_o:
        stmt = stmt.offset(ov)
    return stmt


def gen(ctx):
    """probe every dialect configuration with every limit/offset/fetch combination"""
    from sqlalchemy import Column, Integer, MetaData, Table, select

    m = MetaData()
    t = Table("t", m, Column("id", Integer, primary_key=True), Column("v", Integer))
    base = select(t.c.id, t.c.v).order_by(t.c.v.desc(), t.c.id)
    rows = []
    for name, d in dialect_configs():
        for has_l in (False, True):
            for has_o in (False, True):
                for is_f in (False, True):
                    if is_f and not has_l:
                        continue
                    for simple in (True, False):
                        stmt = apply_limits(base, (has_l, has_o, is_f, simple))
                        try:
                            form = classify_sql(str(stmt.compile(dialect=d, compile_kwargs={"literal_binds": True})))
                        except Exception:  # noqa: BLE001 - CompileError is a legitimate answer
                            form = "error"
                        rows.append(
                            '  { dialect := "%s", hasLimit := %s, hasOffset := %s, isFetch := %s, simple := %s, form := .%s }'
                            % (name, str(has_l).lower(), str(has_o).lower(), str(is_f).lower(), str(simple).lower(), form)
                        )
    src = (
        "import SaVerif.Model.Limit\nnamespace SaVerif.Gen.LimitForms\nopen SaVerif.Limit\n\n"
        "/-- rendered form per (dialect configuration, limit?, offset?, fetch?, simple integers?) -/\n"
        "def rows : List FormRow := [\n%s\n]\n\nend SaVerif.Gen.LimitForms\n" % ",\n".join(rows)
    )
    ctx.write_gen("LimitForms", src)


# ---------------------------------------------------------------------------- data and queries
QUERIES = ("plain", "join", "subquery", "distinct", "groupby", "label", "where", "desc2")


def make_db(rng):
    import sqlalchemy as sa
    from sqlalchemy import Column, Integer, MetaData, String, Table

    eng = sa.create_engine("sqlite://")
    m = MetaData()
    t = Table("t", m, Column("id", Integer, primary_key=True), Column("g", Integer), Column("v", Integer), Column("w", Integer))
    u = Table("u", m, Column("g", Integer, primary_key=True), Column("name", String(10)))
    m.create_all(eng)
    n = rng.choice([0, 1, 2, 5, 8, 12, 17])
    with eng.begin() as c:
        if n:
            c.execute(t.insert(), [{"id": i + 1, "g": rng.randrange(4), "v": rng.choice([1, 2, 2, 3, 5, 8]), "w": rng.choice([None, 0, 4])} for i in range(n)])
        c.execute(u.insert(), [{"g": g, "name": rng.choice(["ann", "bob", "cy", "dee"]) + str(g)} for g in range(4) if rng.random() < 0.85])
    return eng, t, u


def make_query(kind, t, u, rng):
    """an ordered query whose ORDER BY is total (ends in a unique column)"""
    from sqlalchemy import func, select

    if kind == "plain":
        return select(t.c.id, t.c.v).order_by(t.c.v.desc(), t.c.id)
    if kind == "join":
        return select(t.c.id, u.c.name).join(u, t.c.g == u.c.g).order_by(u.c.name, t.c.id.desc())
    if kind == "subquery":
        sub = select(t).where(t.c.v > rng.choice([0, 1, 2])).subquery()
        return select(sub.c.id, sub.c.w).order_by(sub.c.v, sub.c.id)
    if kind == "distinct":
        return select(t.c.g, t.c.v).distinct().order_by(t.c.g, t.c.v.desc())
    if kind == "groupby":
        return select(t.c.g, func.count().label("n")).group_by(t.c.g).order_by(func.count().desc(), t.c.g)
    if kind == "label":
        return select(t.c.id, (t.c.v * 2).label("dv")).order_by("dv", t.c.id)
    if kind == "where":
        return select(t.c.id).where(t.c.w.is_not(None)).order_by(t.c.id.desc())
    if kind == "desc2":
        return select(t.c.v, t.c.id, t.c.g).order_by(t.c.g.desc(), t.c.v, t.c.id.desc())
    raise AssertionError(kind)


def gen_case(rng, tier):
    vals = [0, 1, 2, 3, 5, 9, 20]
    has_l = rng.random() < 0.75
    has_o = rng.random() < 0.6
    return {
        "query": rng.choice(QUERIES),
        "limit": rng.choice(vals) if has_l else None,
        "offset": rng.choice(vals) if has_o else None,
        "fetch": rng.random() < 0.3,
        "simple": rng.random() < 0.7,
        "via_slice": rng.random() < 0.15,
        "seed": rng.randrange(1 << 30),
    }


def limited(stmt, case):
    from sqlalchemy import literal

    lim, off = case["limit"], case["offset"]

    def val(n):
        if case["simple"]:
            return n
        # a SQL expression evaluating to n
        return literal(n) + 0 if n < 2 else literal(n - 1) + 1

    if case.get("via_slice") and lim is not None and off is not None and case["simple"] and not case["fetch"]:
        return stmt.slice(off, off + lim)
    if lim is not None:
        stmt = stmt.fetch(val(lim)) if case["fetch"] else stmt.limit(val(lim))
    if off is not None:
        stmt = stmt.offset(val(off))
    return stmt


# ---------------------------------------------------------------------------- rewriter (trusted)
def to_sqlite(sql, form):
    """map a rendering to SQLite syntax by the documented meaning of its form"""
    s = " ".join(sql.split())
    if form == "rowNumber":
        return s  # ROW_NUMBER() OVER (...) runs on SQLite as rendered
    if form == "top":
        m = re.search(r"^SELECT (DISTINCT )?TOP (\S+) ", s)
        n = m.group(2)
        s = re.sub(r"^SELECT (DISTINCT )?TOP \S+ ", lambda mm: "SELECT " + (mm.group(1) or ""), s)
        return s + " LIMIT " + n
    if form == "offsetFetch":
        m = re.search(r"(?: OFFSET (.+?) ROWS)?(?: FETCH FIRST (.+?) ROWS ONLY)?$", s)
        off, lim = m.group(1), m.group(2)
        s = s[: m.start()]
        return s + " LIMIT %s OFFSET %s" % (lim if lim is not None else "-1", off if off is not None else "0")
    if form == "limitOffset":
        return s.replace(" LIMIT ALL", " LIMIT -1")
    if form == "mysqlLimit":
        return s.replace("18446744073709551615", "9223372036854775807")
    if form == "rownum":
        s = s.replace("ROWNUM AS ora_rn", "row_number() OVER () AS ora_rn")
        # `WHERE ROWNUM <= k` closes a query block: it becomes that block's LIMIT k
        s = re.sub(r" WHERE ROWNUM <= ([^()]+?)\)", r" LIMIT \1)", s)
        s = re.sub(r" WHERE ROWNUM <= ([^()]+?)$", r" LIMIT \1", s)
        return s
    return s


# ---------------------------------------------------------------------------- one case
def run_case(case):
    import random

    import sqlalchemy as sa

    rng = random.Random(case["seed"])
    eng, t, u = make_db(rng)
    base = make_query(case["query"], t, u, rng)
    stmt = limited(base, case)
    obs = {"case": case, "results": {}, "forms": {}, "errors": {}}
    with eng.connect() as c:
        full = [tuple(r) for r in c.execute(base)]
        obs["full"] = full
        for name, d in dialect_configs():
            try:
                sql = str(stmt.compile(dialect=d, compile_kwargs={"literal_binds": True}))
                form = classify_sql(sql)
                if name == "sqlite" and form != "offsetFetch":
                    # (SQLite has no FETCH FIRST: fetch() on it is rendered generically and
                    # goes through the rewriter like the other dialects' renderings)
                    rows = [tuple(r) for r in c.execute(stmt)]
                else:
                    rows = [tuple(r) for r in c.exec_driver_sql(to_sqlite(sql, form))]
                obs["forms"][name] = form
                obs["results"][name] = rows
                obs.setdefault("sql", {})[name] = " ".join(sql.split())
            except sa.exc.CompileError as e:
                obs["forms"][name] = "error"
                obs["errors"][name] = "CompileError: " + str(e)[:120]
            except Exception as e:  # noqa: BLE001
                obs["forms"][name] = obs["forms"].get(name, "crash")
                obs["errors"][name] = "%s: %s" % (type(e).__name__, str(e)[:200])
    eng.dispose()
    return obs


def expected_slice(case, full):
    off = case["offset"] or 0
    lim = case["limit"]
    return full[off:] if lim is None else full[off : off + lim]


def oracle(obs):
    """-> list of (key, detail)"""
    case, full = obs["case"], obs["full"]
    if len(set(full)) != len(full):
        return []  # rows not distinguishable: nothing to say (never generated)
    want = expected_slice(case, full)
    out = []
    for name, form in obs["forms"].items():
        if name in obs["errors"]:
            err = obs["errors"][name]
            if err.startswith("CompileError") and name.startswith("mssql") and "order_by" not in err:
                continue  # PERCENT / WITH TIES restrictions: a loud refusal
            out.append(("c18-%s-exception" % name, "%s | %s" % (err, obs.get("sql", {}).get(name, ""))))
            continue
        got = obs["results"][name]
        if form == "rowNumber":
            # F13: no ORDER BY on the wrapper -> the order of the slice is unspecified
            if sorted(got, key=repr) != sorted(want, key=repr):
                out.append(("c18-%s-rows" % name, "rows %s, slice %s | %s" % (got, want, obs["sql"][name])))
        elif got != want:
            out.append(("c18-%s-rows" % name, "rows %s, slice %s | %s" % (got, want, obs["sql"][name])))
    return out


F_DISTINCT = "mssql-rownumber-wrapper-with-distinct"
F_LABEL = "mssql-rownumber-wrapper-textual-label-order-by"


def classify(case, obs, key):
    """known findings, keyed by the input"""
    if key.startswith("c18-mssql2008-") and obs["forms"].get("mssql2008") in ("rowNumber", "error", "crash"):
        needs_wrapper = case["offset"] is not None or (case["limit"] is not None and (not case["simple"] or case["fetch"]))
        if needs_wrapper and case["query"] == "distinct" and key == "c18-mssql2008-rows":
            return F_DISTINCT
        if needs_wrapper and case["query"] == "label" and key == "c18-mssql2008-exception" and "textual label" in obs["errors"].get("mssql2008", ""):
            return F_LABEL
    return None


def one(ctx, case, names, cases, impl_out, reqs):
    try:
        obs = run_case(case)
    except Exception as e:  # noqa: BLE001
        import traceback

        ctx.case(("crash", case["seed"]))
        ctx.violation("c18-crash:" + type(e).__name__, case, "".join(traceback.format_exception_only(type(e), e))[:400])
        return
    n = len(obs["full"])
    ctx.case({k: case[k] for k in case}, nontrivial=(case["limit"] is not None or case["offset"] is not None) and n > 0)
    ctx.count("query=" + case["query"])
    ctx.count("rows=%s" % (n if n < 6 else "6+"))
    ctx.count("limit=%s offset=%s" % ("-" if case["limit"] is None else "0" if case["limit"] == 0 else ">n" if case["limit"] > n else "in", "-" if case["offset"] is None else "0" if case["offset"] == 0 else ">n" if case["offset"] > n else "in"))
    for name, form in obs["forms"].items():
        ctx.count("form:%s=%s" % (name, form))
    for key, detail in oracle(obs):
        ctx.violation(classify(case, obs, key) or key, case, detail)
    pos = {r: i for i, r in enumerate(obs["full"])}
    # (Select.slice(0, n) leaves the offset unset)
    sliced = case.get("via_slice") and case["limit"] is not None and case["offset"] is not None and case["simple"] and not case["fetch"]
    o = "N" if case["offset"] is None or (sliced and case["offset"] == 0) else str(case["offset"])
    lm = "N" if case["limit"] is None else str(case["limit"])
    for name, form in obs["forms"].items():
        # which form: against the regenerated table
        shape = (case["limit"] is not None, case["offset"] is not None, bool(case["fetch"] and case["limit"] is not None), case["simple"])
        if not case.get("via_slice") and form != "crash" and not (form == "error" and name in obs["errors"] and not obs["errors"][name].startswith("CompileError")):
            names.append("form")
            cases.append(case)
            impl_out.append("ok " + form)
            reqs.append("limit lookup %s %d %d %d %d" % ((name,) + tuple(int(b) for b in shape)))
        if name in obs["errors"] or form in ("error", "crash"):
            continue
        got = obs["results"][name]
        if any(r not in pos for r in got) or len(set(got)) != len(got):
            continue  # the oracle has reported it
        if name == "mssql2008" and form == "rowNumber" and case["query"] == "distinct":
            continue  # known finding: DISTINCT is applied after ROW_NUMBER()
        idx = [pos[r] for r in got]
        if form == "rowNumber":
            idx = sorted(idx)
            if [pos[r] for r in got] == idx:
                ctx.count("F13:order-kept-by-sqlite")
            else:
                ctx.count("F13:order-not-kept")
        names.append("rows")
        cases.append(case)
        impl_out.append("ok " + (",".join(str(i) for i in idx) or "-"))
        reqs.append("limit form %s %s %s %d" % (form, o, lm, n))
    if n > 3 and (case["limit"] or case["offset"]):
        ctx.sample({"case": {k: case[k] for k in ("query", "limit", "offset", "fetch", "simple")}, "mssql2008": obs.get("sql", {}).get("mssql2008"), "oracle11": obs.get("sql", {}).get("oracle11"), "rows": n})


def check_ties_percent(ctx, names, cases, impl_out, reqs):
    """WITH TIES / PERCENT: rendered strings per dialect (no execution possible)"""
    from sqlalchemy import Column, Integer, MetaData, Table, select

    m = MetaData()
    t = Table("t", m, Column("id", Integer, primary_key=True), Column("v", Integer))
    base = select(t.c.id).order_by(t.c.v)
    expect = {
        ("postgresql", "ties"): r"FETCH FIRST \(?3\)? ROWS WITH TIES$",
        ("postgresql", "percent"): r"FETCH FIRST \(?3\)? PERCENT ROWS ONLY$",
        ("oracle12", "ties"): r"FETCH FIRST 3 ROWS WITH TIES$",
        ("oracle12", "percent"): r"FETCH FIRST 3 PERCENT ROWS ONLY$",
        ("mssql2012", "ties"): r"^SELECT TOP 3 WITH TIES ",
        ("mssql2012", "percent"): r"^SELECT TOP 3 PERCENT ",
        ("mssql2008", "ties"): r"^SELECT TOP 3 WITH TIES ",
        ("mssql2008", "percent"): r"^SELECT TOP 3 PERCENT ",
    }
    for name, d in dialect_configs():
        for kind in ("ties", "percent"):
            if (name, kind) not in expect:
                continue
            stmt = base.fetch(3, with_ties=(kind == "ties"), percent=(kind == "percent"))
            sql = " ".join(str(stmt.compile(dialect=d, compile_kwargs={"literal_binds": True})).split())
            ctx.case(("render", name, kind))
            if not re.search(expect[(name, kind)], sql):
                ctx.violation("c18-%s-%s-render" % (name, kind), {"render": [name, kind]}, sql)
        # PERCENT / WITH TIES with an OFFSET cannot be expressed with TOP: must be refused
        if name.startswith("mssql"):
            try:
                sql = str(base.fetch(3, with_ties=True).offset(2).compile(dialect=d))
                ctx.violation("c18-%s-ties-offset-accepted" % name, {"render": [name, "ties+offset"]}, sql)
            except Exception:  # noqa: BLE001
                pass




# ---------------------------------------------------------------------------- WITH TIES / PERCENT, evaluated
TOP_RE = re.compile(r"^SELECT TOP (\S+)( PERCENT)?( WITH TIES)? ")
FETCH_RE = re.compile(r"(?: OFFSET \(?([^() ]+)\)? ROWS)? FETCH FIRST \(?([^() ]+)\)?( PERCENT)? ROWS (ONLY|WITH TIES)$")


def eval_ties_percent(rows, n, off, percent, ties):
    """meaning of FETCH FIRST n [PERCENT] ROWS {ONLY | WITH TIES} after OFFSET off over the
    fully ordered rows (id, sort key)"""
    count = -(-len(rows) * n // 100) if percent else n
    part = rows[off : off + count]
    if ties and part:
        last = part[-1][1]
        for r in rows[off + count :]:
            if r[1] != last:
                break
            part.append(r)
    return part


def check_ties_percent_exec(ctx, names, cases, impl_out, reqs, n):
    """the statement is rendered for each dialect, the row-limiting clause is parsed back
    (number, offset, PERCENT, WITH TIES) and removed, the remaining query runs on SQLite and
    the clause's documented meaning is applied to the ordered result"""
    import random as _r

    from sqlalchemy import select

    for _ in range(n):
        case = {
            "tiescase": True,
            "n": ctx.rng.choice([0, 1, 2, 3, 5, 30, 50, 100]),
            "offset": ctx.rng.choice([None, None, 0, 1, 2]),
            "ties": ctx.rng.random() < 0.6,
            "percent": ctx.rng.random() < 0.4,
            "desc": ctx.rng.random() < 0.5,
            "seed": ctx.rng.randrange(1 << 30),
        }
        if case["percent"]:
            case["offset"] = None  # PERCENT of the total together with OFFSET is dialect specific
        bad = run_ties_case(case, ctx, names, cases, impl_out, reqs)
        ctx.case(("ties", tuple(sorted((k, str(v)) for k, v in case.items()))), nontrivial=case["ties"] or case["percent"])
        for key, detail in bad:
            ctx.violation(key, case, detail)


def run_ties_case(case, ctx=None, names=None, cases=None, impl_out=None, reqs=None):
    import random as _r

    from sqlalchemy import select

    rng = _r.Random(case["seed"])
    eng, t, u = make_db(rng)
    out = []
    try:
        key = t.c.v.desc() if case["desc"] else t.c.v
        base = select(t.c.id, t.c.v).order_by(key)
        stmt = base.fetch(case["n"], with_ties=case["ties"], percent=case["percent"])
        if case["offset"] is not None:
            stmt = stmt.offset(case["offset"])
        with eng.connect() as c:
            full = [tuple(r) for r in c.execute(base)]
            keys = [r[1] for r in full]
            want = eval_ties_percent(list(full), case["n"], case["offset"] or 0, case["percent"], case["ties"])
            for name, d in dialect_configs():
                try:
                    sql = " ".join(str(stmt.compile(dialect=d, compile_kwargs={"literal_binds": True})).split())
                except Exception as e:  # noqa: BLE001
                    if name.startswith("mssql") and case["offset"] is not None and (case["ties"] or case["percent"]):
                        continue  # TOP cannot express an OFFSET: refused loudly
                    if name == "mssql2008" and case["offset"] is not None:
                        continue
                    out.append(("c18-%s-ties-compile" % name, "%s: %s" % (type(e).__name__, str(e)[:150])))
                    continue
                mt = TOP_RE.search(sql)
                if mt:
                    n_, off_, pct_, ties_ = mt.group(1), "0", bool(mt.group(2)), bool(mt.group(3))
                    rest = TOP_RE.sub("SELECT ", sql)
                else:
                    mf = FETCH_RE.search(sql)
                    if not mf:
                        if name == "mssql2008" and not (case["ties"] or case["percent"]):
                            continue  # plain fetch on the ROW_NUMBER path: covered by the main run
                        out.append(("c18-%s-ties-render" % name, "no row limiting clause recognised in %s" % sql))
                        continue
                    off_, n_, pct_, ties_ = mf.group(1) or "0", mf.group(2), bool(mf.group(3)), mf.group(4) == "WITH TIES"
                    rest = sql[: mf.start()]
                try:
                    n_i, off_i = int(n_), int(off_)
                    rows = [tuple(r) for r in c.exec_driver_sql(rest)]
                except Exception as e:  # noqa: BLE001
                    out.append(("c18-%s-ties-exec" % name, "%s: %s | %s" % (type(e).__name__, str(e)[:150], sql)))
                    continue
                got = eval_ties_percent(rows, n_i, off_i, pct_, ties_)
                if ctx is not None:
                    ctx.count("ties:%s" % name)
                # rows tie on the key, so compare the keys position by position
                if [r[1] for r in got] != [r[1] for r in want]:
                    out.append(("c18-%s-ties-rows" % name, "keys %s, expected %s | %s" % ([r[1] for r in got], [r[1] for r in want], sql)))
                elif names is not None:
                    pos_keys = ",".join(str(k if not case["desc"] else -k) for k in keys) or "-"
                    if not case["percent"]:
                        names.append("with-ties" if case["ties"] else "fetch-only")
                        cases.append(case)
                        impl_out.append("ok %d" % len(got))
                        reqs.append("limit tiescount %d %d %d %s" % (off_i, n_i, 1 if ties_ else 0, pos_keys))
                    else:
                        names.append("percent")
                        cases.append(case)
                        impl_out.append("ok %d" % (len(got) if not ties_ else -(-len(rows) * n_i // 100)))
                        reqs.append("limit percent %d %d" % (len(rows), n_i))
    finally:
        eng.dispose()
    return out

# ---------------------------------------------------------------------------- slice() / __getitem__ after OFFSET
def check_slices(ctx, names, cases, impl_out, reqs, n):
    """`stmt.offset(k).slice(a, b)`, `Query.offset(k)[a:b]`, `[a]`, `[a:]`, `[:b]`: the rows
    are rows[k:][a:b] of the ordered result (Python list slicing is the oracle)"""
    import random as _r

    from sqlalchemy import literal, select
    from sqlalchemy.orm import Session, registry

    for _ in range(n):
        case = {
            "slicecase": True,
            "pre_offset": ctx.rng.choice([None, 0, 1, 2, 3, 5]),
            "simple": ctx.rng.random() < 0.7,
            "start": ctx.rng.choice([0, 0, 0, 1, 2, 4]),
            "len": ctx.rng.choice([None, 0, 1, 2, 3, 6]),
            "api": ctx.rng.choice(["core.slice", "query.slice", "query[a:b]", "query[a]", "query[a:]", "query[:b]"]),
            "seed": ctx.rng.randrange(1 << 30),
        }
        bad = run_slice_case(case)
        ctx.case(("slice", tuple(sorted((k, str(v)) for k, v in case.items()))), nontrivial=case["pre_offset"] not in (None, 0))
        ctx.count("slice-api=" + case["api"])
        ctx.count("slice-start0-after-offset=%s" % (case["start"] == 0 and bool(case["pre_offset"])))
        if bad is None:
            continue
        if bad[0] == "skip":
            continue
        if bad[0] == "ok":
            _, k, a, stop, nrows, idx = bad
            names.append("slice-after-offset")
            cases.append(case)
            impl_out.append("ok " + (",".join(str(i) for i in idx) or "-"))
            reqs.append("limit sliceafter %d %d %s %d" % (k, a, "N" if stop is None else str(stop), nrows))
        else:
            ctx.violation(bad[0], case, bad[1])


def run_slice_case(case):
    import random as _r

    from sqlalchemy import literal
    from sqlalchemy import select
    from sqlalchemy.orm import Session, registry

    rng = _r.Random(case["seed"])
    eng, t, u = make_db(rng)
    k = case["pre_offset"]
    a = case["start"]
    stop = None if case["len"] is None else a + case["len"]
    api = case["api"]
    if api in ("core.slice", "query.slice", "query[a:b]") and stop is None:
        stop = a + 2
    if api == "query[:b]":
        a = 0
        if stop is None:
            stop = 3
    if api == "query[a:]":
        stop = None
    if api == "query[a]":
        stop = a + 1

    def offval(n):
        if case["simple"]:
            return n
        return literal(n) + 0 if n < 2 else literal(n - 1) + 1

    reg = registry()

    class T:
        pass

    reg.map_imperatively(T, t)
    try:
        with Session(eng) as s:
            full = [r[0] for r in s.execute(select(t.c.id).order_by(t.c.v.desc(), t.c.id))]
            want = full[(k or 0):][a:stop]
            try:
                if api == "core.slice":
                    stmt = select(t.c.id).order_by(t.c.v.desc(), t.c.id)
                    if k is not None:
                        stmt = stmt.offset(offval(k))
                    got = [r[0] for r in s.execute(stmt.slice(a, stop))]
                else:
                    q = s.query(T).order_by(t.c.v.desc(), t.c.id)
                    if k is not None:
                        q = q.offset(offval(k))
                    if api == "query.slice":
                        got = [o.id for o in q.slice(a, stop)]
                    elif api == "query[a:b]":
                        got = [o.id for o in q[a:stop]]
                    elif api == "query[a:]":
                        got = [o.id for o in q[a:]]
                    elif api == "query[:b]":
                        got = [o.id for o in q[:stop]]
                    else:
                        try:
                            got = [q[a].id]
                        except IndexError:
                            got = []
            except Exception as e:  # noqa: BLE001
                return ("c18-slice-exception", "%s: %s" % (type(e).__name__, str(e)[:200]))
            if got != want:
                return ("c18-slice-after-offset", "%s with prior offset %s, slice [%s:%s] returned ids %s, rows[k:][a:b] is %s" % (api, k, a, stop, got, want))
            pos = {v: i for i, v in enumerate(full)}
            return ("ok", k or 0, a, stop, len(full), [pos[x] for x in got])
    finally:
        reg.dispose()
        eng.dispose()


def unparen_members(sql):
    """SQLite does not accept parenthesised compound members: `(X) UNION ALL Y` becomes
    `SELECT * FROM (X) UNION ALL Y` (same rows)"""
    s = " ".join(sql.split())
    out, i, depth, start_member = "", 0, 0, True
    while i < len(s):
        ch = s[i]
        if depth == 0 and start_member and ch == "(":
            # find the matching parenthesis
            d, j = 0, i
            while True:
                if s[j] == "(":
                    d += 1
                elif s[j] == ")":
                    d -= 1
                    if d == 0:
                        break
                j += 1
            out += "SELECT * FROM " + s[i : j + 1]
            i = j + 1
            start_member = False
            continue
        if ch == "(":
            depth += 1
        elif ch == ")":
            depth -= 1
        out += ch
        if depth == 0 and out.endswith(" UNION ALL "):
            start_member = True
        elif ch != " ":
            start_member = False if not out.endswith(" UNION ALL ") else start_member
        i += 1
    return out


# ---------------------------------------------------------------------------- limited SELECT embedded in UNION / INSERT..FROM SELECT
def check_embedded(ctx, n):
    """a limited SELECT as member of a UNION ALL or as the source of INSERT .. FROM SELECT,
    rendered for the emulating configurations (MSSQL without OFFSET/FETCH, Oracle without it)
    and executed on SQLite"""
    import random as _r

    import sqlalchemy as sa
    from sqlalchemy import Column, Integer, MetaData, Table, insert, select, union_all

    for _ in range(n):
        case = {
            "embedded": ctx.rng.choice(["union_first", "union_second", "insert_from_select"]),
            "limit": ctx.rng.choice([None, 1, 2, 3, 5]),
            "offset": ctx.rng.choice([1, 2, 3]),
            "simple": ctx.rng.random() < 0.7,
            "seed": ctx.rng.randrange(1 << 30),
        }
        rng = _r.Random(case["seed"])
        eng, t, u = make_db(rng)
        base = select(t.c.id).order_by(t.c.v.desc(), t.c.id)
        lim_case = {"limit": case["limit"], "offset": case["offset"], "fetch": False, "simple": case["simple"]}
        member = limited(base, lim_case)
        other = select(t.c.id + 1000)
        m2 = MetaData()
        t2 = Table("t2", m2, Column("id", Integer))
        with eng.connect() as c:
            m2.create_all(c)
            full = [r[0] for r in c.execute(base)]
            want_member = full[case["offset"] :] if case["limit"] is None else full[case["offset"] : case["offset"] + case["limit"]]
            if case["embedded"] == "union_first":
                stmt = union_all(member, other)
                want = want_member + [i + 1000 for i in full]
            elif case["embedded"] == "union_second":
                stmt = union_all(other, member)
                want = [i + 1000 for i in full] + want_member
            else:
                stmt = insert(t2).from_select(["id"], member)
                want = want_member
            ctx.case(("embedded", tuple(sorted((k, str(v)) for k, v in case.items()))), nontrivial=bool(full))
            for name, d in dialect_configs():
                if name not in ("mssql2008", "oracle11"):
                    continue
                ctx.count("embedded:%s:%s" % (name, case["embedded"]))
                try:
                    sql = str(stmt.compile(dialect=d, compile_kwargs={"literal_binds": True}))
                    form = "rowNumber" if name == "mssql2008" else "rownum"
                    run_sql = unparen_members(to_sqlite(sql, form))
                    if case["embedded"] == "insert_from_select":
                        c.exec_driver_sql("DELETE FROM t2")
                        c.exec_driver_sql(run_sql)
                        got = [r[0] for r in c.exec_driver_sql("SELECT id FROM t2")]
                    else:
                        got = [r[0] for r in c.exec_driver_sql(run_sql)]
                except Exception as e:  # noqa: BLE001
                    ctx.violation("c18-%s-embedded-exception" % name, case, "%s: %s" % (type(e).__name__, str(e)[:300]))
                    continue
                if sorted(got) != sorted(want):
                    ctx.violation("c18-%s-embedded-%s" % (name, case["embedded"].split("_")[0]), case, "rows %s, expected %s | %s" % (sorted(got), sorted(want), " ".join(sql.split())[:400]))
        eng.dispose()


def run(ctx):
    ctx.rule = (
        "random: 8 ordered query shapes (plain, join, subquery, DISTINCT, GROUP BY, label reference, WHERE, multi-key) over 0-17 random rows x "
        "limit/offset in {none, 0, 1, 2, 3, 5, 9, 20} x limit()/fetch()/slice() x plain integers / SQL expressions, each rendered for 7 dialect "
        "configurations and executed on SQLite (natively, verbatim, or through the form rewriter); plus offset(k) followed by Select.slice / Query.slice / "
        "Query.__getitem__ (start 0 and >0, integer and SQL-expression offsets) against Python list slicing, and limited SELECTs embedded as UNION ALL "
        "members / INSERT..FROM SELECT sources for the two emulating configurations; non-trivial = a limit or offset on a non-empty result"
    )
    ctx.trusted.append("the SQL rewriter of harness/props/c18.py (meaning of TOP / OFFSET-FETCH / LIMIT ALL / LIMIT o,l / ROWNUM)")
    ctx.trusted.append("SQLite 3 window functions and LIMIT as the executing backend")
    names, cases, impl_out, reqs = [], [], [], []
    n = 450 if ctx.tier == "quick" else 6000
    for _ in range(n):
        one(ctx, gen_case(ctx.rng, ctx.tier), names, cases, impl_out, reqs)
    check_ties_percent(ctx, names, cases, impl_out, reqs)
    check_ties_percent_exec(ctx, names, cases, impl_out, reqs, 120 if ctx.tier == "quick" else 1500)
    check_slices(ctx, names, cases, impl_out, reqs, 250 if ctx.tier == "quick" else 3000)
    check_embedded(ctx, 80 if ctx.tier == "quick" else 800)
    if ctx.driver_ok():
        model = ctx.driver(reqs)
        for nm in sorted(set(names)):
            idx = [i for i, x in enumerate(names) if x == nm]
            ctx.correspond("corr/c18:%s" % nm, [cases[i] for i in idx], [impl_out[i] for i in idx], [model[i] for i in idx])


def search(ctx, broken):
    sub = type(ctx)(ctx.pid, "thorough", ctx.seed + 1, ctx.level)
    for _ in range(4000):
        one(sub, gen_case(sub.rng, "thorough"), [], [], [], [])
    ctx.violations.extend(sub.violations)


def replay(ctx, obj):
    case = obj["case"]
    if case.get("tiescase"):
        bad = run_ties_case(case)
        print("replay C18 ties/percent case %s -> %s" % (case, bad))
        return bool(bad)
    if case.get("slicecase"):
        bad = run_slice_case(case)
        print("replay C18 slice case %s -> %s" % (case, bad))
        return bad is not None and bad[0] not in ("ok", "skip")
    if "embedded" in case:
        sub = type(ctx)(ctx.pid, "quick", ctx.seed, ctx.level)
        check_embedded(sub, 80)
        print("replay C18 embedded checks -> %s" % [v["key"] for v in sub.violations][:5])
        return bool(sub.violations)
    if "render" in case:
        sub = type(ctx)(ctx.pid, "quick", ctx.seed, ctx.level)
        check_ties_percent(sub, [], [], [], [])
        print("replay C18 render checks -> %s" % [v["key"] for v in sub.violations])
        return bool(sub.violations)
    try:
        obs = run_case(case)
    except Exception as e:  # noqa: BLE001
        print("replay C18 case=%s crashes: %r" % (case, e))
        return True
    bad = oracle(obs)
    print("replay C18 case=%s\n  full=%s\n  oracle: %s" % (case, obs["full"], bad))
    return bool(bad)
