"""C16 — schema_translate_map renders the mapped schemas regardless of cache state.

Model      lean/SaVerif/Model/SchemaTr.lean (symbol_getter, _render_schema_translates,
           the regex as a scanner, the compiled cache keyed on bool(map))
Theorems   lean/SaVerif/Props/C16.lean
run():
  * scanner vs CPython re (live pattern text read from compiler.py by ast)
  * generated Core statements and DDL over tables in symbolic schemas (None, a, b, c, Up)
    executed on SQLite with nine attached databases as schemas, through ONE engine
    cache, for random histories of (statement, map)
      direct oracle   SQL at the cursor and rows / per-schema table contents /
                      sqlite_master contents equal those of the same construct
                      built over tables that carry the translated schema names;
                      warm (shared cache) == cold (compiled_cache=None)
      correspondence  symbolic / direct compilation and every history's final SQL
                      strings or error kinds vs the Lean model
"""
import ast
import json
import os
import re

PID = "C16"
LEVEL = "proof"
LEAN = ["SaVerif.Props.C16"]
META = {
    "text": "Lean theorems for ALL statements (any number of text segments and schema references, any schema names) and ALL maps: scanning the symbolic compilation recovers exactly the schema tokens (schema_scan_round_trip); substituting a map into the symbolic compilation equals the direct compilation of the statement whose tables carry the translated names (translate_eq_direct) under the NoSchemaToken guard; for ANY history of (statement, map) executions through the shared compiled cache whose non-empty maps agree on the presence of the None key, every execution renders what a cold compilation with its own map renders (cache_independent_of_map, induction over the history with a cache invariant). The two hypotheses are necessary: proved counterexamples F12 (literal containing __[SCHEMA_x]) and F11 (None key appearing/disappearing on a warm cache), replayed on the real code. Model tied to compiler.py by differential runs (scanner vs re; symbolic/direct compilation and history outputs vs real SQL at the cursor on SQLite).",
    "note": "Trusted: Lean kernel; CPython re; identifier quoting quote_schema (C06) is a parameter of the model and the real function is substituted by the harness; SQLite ATTACH databases stand for schemas; LRU eviction not modelled (an evicted entry is a cold compile). Known findings: F11 maps differing in presence of None on a shared cache raise; F12 literal text containing a schema token is rewritten; table whose schema is literally '_none' collides with the None marker.",
    "technique": "Lean 4 induction over segment lists (scanner round trip) and over execution histories (cache invariant) + differential correspondence + direct-construct oracle on SQLite with attached databases",
    "design_ref": "DESIGN.md §3 C16",
}

KEY_F11 = "maps-differ-in-presence-of-none-key"
KEY_F12 = "schema-token-in-literal-text"
KEY_NONEALIAS = "schema-literally-named-_none"

DBS = ["main", "s1", "s2", "s3", "a", "b", "c", "Up", "order"]
SYMBOLIC = [None, "a", "b", "c", "Up"]
TARGETS = ["s1", "s2", "s3", "main", None, "Up", "order", "a", "b"]


def E(s):
    from harness import vlib

    return vlib.enc_str(s)


def D(tok):
    from harness import vlib

    return vlib.dec_str(tok)


# --------------------------------------------------------------------------- environment
class Env:
    def __init__(self):
        import sqlalchemy as sa
        from sqlalchemy.pool import StaticPool

        self.sa = sa
        self.engine = sa.create_engine("sqlite://", poolclass=StaticPool)
        self.log = []

        @sa.event.listens_for(self.engine, "connect")
        def _att(dbapi, rec):
            for i, s in enumerate(DBS):
                if s != "main":
                    dbapi.execute('ATTACH DATABASE \':memory:\' AS "%s"' % s)
            for i, s in enumerate(DBS):
                dbapi.execute('CREATE TABLE "%s".t (id INTEGER PRIMARY KEY, x INTEGER)' % s)
                dbapi.execute('CREATE TABLE "%s".u (id INTEGER PRIMARY KEY, tid INTEGER)' % s)
                for k in range(1, 5):
                    dbapi.execute('INSERT INTO "%s".t VALUES (%d, %d)' % (s, k, (i + 1) * 100 + k * (i + 2)))
                    dbapi.execute('INSERT INTO "%s".u VALUES (%d, %d)' % (s, k, (k + i) % 4 + 1))
            dbapi.commit()

        @sa.event.listens_for(self.engine, "before_cursor_execute")
        def _b(conn, cursor, statement, parameters, context, executemany):
            self.log.append((statement, parameters))

        self.conn = None
        self.prep = self.engine.dialect.identifier_preparer
        self._tables = {}

    def table(self, name, schema):
        """Table `name` in `schema` (one MetaData per schema string so equal names coexist)"""
        sa = self.sa
        key = (name, schema)
        if key not in self._tables:
            md = sa.MetaData()
            if name == "t":
                tb = sa.Table("t", md, sa.Column("id", sa.Integer, primary_key=True), sa.Column("x", sa.Integer), schema=schema)
            elif name == "u":
                tb = sa.Table("u", md, sa.Column("id", sa.Integer, primary_key=True), sa.Column("tid", sa.Integer), schema=schema)
            else:
                tb = sa.Table(name, md, sa.Column("id", sa.Integer, primary_key=True), sa.Column("k", sa.Integer, index=False), schema=schema)
            self._tables[key] = tb
        return self._tables[key]

    def snapshot(self):
        out = []
        c = self.conn
        for s in DBS:
            names = [r[0] for r in c.exec_driver_sql('select name from "%s".sqlite_master order by name' % s).fetchall()]
            out.append((s, tuple(names)))
            for tn in names:
                if tn in ("t", "u", "w"):
                    out.append((s, tn, tuple(tuple(r) for r in c.exec_driver_sql('select * from "%s"."%s" order by 1' % (s, tn)).fetchall())))
        return out


# --------------------------------------------------------------------------- statements
def gen_spec(rng):
    S = lambda: rng.choice(SYMBOLIC)  # noqa
    k = rng.choice(["select", "select", "join", "subq", "union", "insert", "insert_select", "update", "delete", "ddl_create", "ddl_index", "ddl_drop", "ddl_ctas", "ddl_ctas", "ddl_view", "create_all", "insertmany_sub", "insertmany_sub", "insertmany_plain"])
    sp = {"kind": k, "s1": S(), "s2": S(), "v": rng.randint(100, 900), "w": rng.randint(1, 4)}
    if k.startswith("insertmany"):
        n = rng.randint(2, 5)
        base = 70 + rng.randint(0, 20)
        sp["rows"] = [{"pid": base + i, "px": rng.randint(1, 99)} for i in range(n)]
        sp["returning"] = rng.random() < 0.8
        sp["page"] = rng.choice([None, None, 1, 2])
    return sp


def build(env, sp, tr):
    """statement over tables whose schema is tr(symbolic schema)"""
    sa = env.sa
    t1, t2 = env.table("t", tr(sp["s1"])), env.table("t", tr(sp["s2"]))
    u2 = env.table("u", tr(sp["s2"]))
    k, v, w = sp["kind"], sp["v"], sp["w"]
    if k == "select":
        return sa.select(t1.c.id, t1.c.x).where(t1.c.x > v).order_by(t1.c.id)
    if k == "join":
        return sa.select(t1.c.id, t1.c.x, u2.c.id).select_from(t1.join(u2, u2.c.tid == t1.c.id)).where(t1.c.x > v).order_by(t1.c.id, u2.c.id)
    if k == "subq":
        t2a = t2.alias("tz")
        return sa.select(t1.c.id, t1.c.x).where(t1.c.id.in_(sa.select(t2a.c.id).where(t2a.c.x > v))).order_by(t1.c.id)
    if k == "union":
        return sa.union_all(sa.select(t1.c.id, t1.c.x).where(t1.c.id <= w), sa.select(u2.c.id, u2.c.tid).where(u2.c.id >= w)).order_by(sa.text("1"), sa.text("2"))
    if k == "insert":
        return t1.insert().values(id=50 + w, x=v)
    if k == "insertmany_sub":
        # executemany on the insertmanyvalues path; the VALUES row holds a scalar subquery on a
        # table of (possibly another) translated schema
        t2b = t2.alias("tsub")
        st = t1.insert().values(id=sa.bindparam("pid"), x=sa.select(sa.func.max(t2b.c.x)).scalar_subquery() + sa.bindparam("px"))
        return st.returning(t1.c.id, t1.c.x) if sp.get("returning") else st
    if k == "insertmany_plain":
        st = t1.insert().values(id=sa.bindparam("pid"), x=sa.bindparam("px"))
        return st.returning(t1.c.id, t1.c.x) if sp.get("returning") else st
    if k == "insert_select":
        return t1.insert().from_select(["id", "x"], sa.select(u2.c.id + 60, u2.c.tid + v).where(u2.c.id <= w))
    if k == "update":
        return t1.update().values(x=t1.c.x + v).where(t1.c.id.in_(sa.select(u2.c.tid).where(u2.c.id <= w)))
    if k == "delete":
        return t1.delete().where(t1.c.id.in_(sa.select(u2.c.tid).where(u2.c.id <= w)))
    if k in ("ddl_ctas", "ddl_view"):
        # DDL with an embedded SELECT: target in s1, source tables in s2 (and s1)
        inner = sa.select(t2.c.id, t2.c.x).where(t2.c.x > v)
        if w % 2:
            u1 = env.table("u", tr(sp["s1"]))
            inner = sa.select(t2.c.id, u1.c.tid.label("x")).select_from(t2.join(u1, u1.c.id == t2.c.id)).where(t2.c.x > v)
        cls = sa.schema.CreateTableAs if k == "ddl_ctas" else sa.schema.CreateView
        return cls(inner, "w", schema=tr(sp["s1"]))
    wt = env.table("w", tr(sp["s1"]))
    if k == "ddl_create":
        return sa.schema.CreateTable(wt)
    if k == "ddl_index":
        return sa.schema.CreateIndex(_index(sa, t1, w))
    if k == "ddl_drop":
        return sa.schema.DropTable(t1)
    if k == "create_all":
        return ("create_all", wt)
    raise ValueError(k)


_IDX = {}


def _index(sa, tb, w):
    key = (id(tb), w)
    if key not in _IDX:
        _IDX[key] = sa.Index("ix_c16_%d" % w, tb.c.x)
    return _IDX[key]


def translate(m):
    """the property's reading of a map: schema -> schema of the equivalent construct"""

    def tr(s):
        if m and s in m:
            r = m[s]
            return "main" if r is None else r
        return s

    return tr


def run_step(env, stmt, m, cold=False, params=None, page=None):
    """execute inside BEGIN..ROLLBACK on a fresh Connection (same DBAPI connection,
    same engine cache); -> dict(status, sql, rows, snap)"""
    opts = {}
    if m is not None:
        opts["schema_translate_map"] = dict(m)
    if cold:
        opts["compiled_cache"] = None
    if page:
        opts["insertmanyvalues_page_size"] = page
    out = {}
    with env.engine.connect() as c:
        env.conn = c
        c.exec_driver_sql("BEGIN")
        del env.log[:]
        try:
            cc = c.execution_options(**opts) if opts else c
            if isinstance(stmt, tuple):
                stmt[1].metadata.create_all(cc, tables=[stmt[1]])
                out["rows"] = None
            else:
                r = cc.execute(stmt, params) if params is not None else cc.execute(stmt)
                out["rows"] = sorted(tuple(x) for x in r.fetchall()) if (r.returns_rows and params is not None) else ([tuple(x) for x in r.fetchall()] if r.returns_rows else None)
            out["sql"] = [s for s, _ in env.log]
            out["snap"] = env.snapshot()
            out["status"] = "ok"
        except Exception as ex:
            out["status"] = "err " + type(ex).__name__
            out["msg"] = str(ex).split("\n")[0][:200]
            out["sql"] = [s for s, _ in env.log]
        finally:
            c.rollback()
    del env.log[:]
    return out


def norm_sql(s):
    return re.sub(r'\bmain\.', "", s)


def norm_list(sqls):
    """introspection PRAGMAs of checkfirst are not part of the property"""
    return [norm_sql(s) for s in sqls if not s.lstrip().upper().startswith("PRAGMA")]


def classify(sp_list, hist, failure):
    nonempty = [m for _, m in hist if m]
    pres = {(None in m) for m in nonempty}
    if len(pres) > 1 and ("InvalidRequestError" in failure or "warm" in failure):
        return KEY_F11
    return "c16:" + failure[:60]


# --------------------------------------------------------------------------- model side
TOKEN_RE = re.compile(r"__\[SCHEMA_([^\]]+)\]\.")


def segs_of(symbolic):
    """segments from a symbolic compilation made with a map that has the None key"""
    out, pos = [], 0
    for m in TOKEN_RE.finditer(symbolic):
        if m.start() > pos:
            out.append("T" + E(symbolic[pos : m.start()]))
        name = m.group(1)
        out.append("R%s/1" % ("N" if name == "_none" else E(name)))
        pos = m.end()
    if pos < len(symbolic):
        out.append("T" + E(symbolic[pos:]))
    return ",".join(out) or "-"


def unmark(env, s):
    return re.sub("\x01(.*?)\x02", lambda m: env.prep.quote_schema(m.group(1)), s, flags=re.S)


def map_field(m):
    if not m:
        return "-"
    return ",".join("%s>%s" % ("N" if k is None else E(k), "N" if v is None else E(v)) for k, v in m.items())


ERRMAP = [
    ("now has `None` present", "err none-now-present"),
    ("now no longer has it present", "err none-no-longer-present"),
    ("no default schema name", "err no-default-schema"),
    ("Square bracket", "err square-bracket"),
]


def compile_sym(env, stmt, m):
    if isinstance(stmt, tuple):
        stmt = env.sa.schema.CreateTable(stmt[1])
    return str(stmt.compile(dialect=env.engine.dialect, schema_translate_map=m)) if m is not None else str(stmt.compile(dialect=env.engine.dialect))


def pattern_source():
    """the regex literal inside IdentifierPreparer._render_schema_translates (by ast)"""
    from harness import vlib

    fn = os.path.join(vlib.REPO, "lib", "sqlalchemy", "sql", "compiler.py")
    tree = ast.parse(open(fn).read())
    for node in ast.walk(tree):
        if isinstance(node, ast.FunctionDef) and node.name == "_render_schema_translates":
            for sub in ast.walk(node):
                if isinstance(sub, ast.Call) and getattr(sub.func, "attr", "") == "sub" and sub.args and isinstance(sub.args[0], ast.Constant):
                    return sub.args[0].value
    return None


def gen(ctx):
    pat = pattern_source() or ""
    from sqlalchemy.sql import compiler as C

    def lstr(s):
        return '"' + s.replace("\\", "\\\\").replace('"', '\\"') + '"'

    src = "namespace SaVerif.Gen.SchemaTables\n\n/-- regex literal in IdentifierPreparer._render_schema_translates -/\ndef pattern : String := %s\n\n" % lstr(pat)
    # the symbol format string of symbol_getter
    sym = None
    fn = os.path.join(__import__("harness.vlib", fromlist=["REPO"]).REPO, "lib", "sqlalchemy", "sql", "compiler.py")
    m = re.search(r'"(__\[SCHEMA_%s\])"\s*%\s*\(name or "(\w+)"\)', open(fn).read())
    src += "/-- symbol_getter: format string and the stand-in for None -/\ndef symbolFormat : String := %s\ndef noneName : String := %s\n\nend SaVerif.Gen.SchemaTables\n" % (
        lstr(m.group(1) if m else ""),
        lstr(m.group(2) if m else ""),
    )
    ctx.write_gen("SchemaTables", src)


SCAN_FRAGS = ["__[SCHEMA_", "__[", "_", "[", "]", "SCHEMA_", "a", "b.c", " ", "\n", "__[SCHEMA_a]", "__[SCHEMA__none]", "__[SCHEMA_]", ".", "]]", "__[SCHEMA", "x y"]


def scanner_corr(ctx, n):
    pat = re.compile(pattern_source())
    cases, req, exp = [], [], []
    for _ in range(n):
        s = "".join(ctx.rng.choice(SCAN_FRAGS) for _ in range(ctx.rng.randint(0, 9)))
        out, pos = [], 0
        for m in pat.finditer(s):
            if m.start() > pos:
                out.append(E(s[pos : m.start()]))
            out.append("S(%s)" % E(m.group(2)))
            pos = m.end()
        if pos < len(s):
            out.append(E(s[pos:]))
        cases.append({"scan": s})
        req.append("schematr scan " + E(s))
        exp.append(",".join(out) or "-")
    ctx.count("scanner-strings", n)
    if ctx.driver_ok():
        ctx.correspond("corr/c16:schema-regex-vs-re", cases, exp, ctx.driver(req))


# --------------------------------------------------------------------------- histories
def gen_map(rng, with_none):
    if rng.random() < 0.12:
        return None if rng.random() < 0.5 else {}
    keys = [k for k in SYMBOLIC if k is not None and rng.random() < 0.6]
    m = {}
    for k in keys:
        r = rng.random()
        m[k] = k if r < 0.15 else rng.choice(TARGETS)
    if with_none:
        m[None] = rng.choice(TARGETS)
    if not m:
        m["zz_unused"] = "s1"
    return m


def check_history(ctx, env, specs, hist, corr, record=True):
    """hist: list of (spec index, map) executed against the shared engine cache"""
    nviol = 0
    case = {"specs": specs, "history": [[i, None if m is None else [[k, v] for k, v in m.items()]] for i, m in hist]}
    env.engine.clear_compiled_cache()
    stmts = [build(env, sp, lambda s: s) for sp in specs]
    finals = []
    for i, m in hist:
        sp = specs[i]
        prm = [dict(r) for r in sp["rows"]] if "rows" in sp else None
        warm = run_step(env, stmts[i], m, params=prm, page=sp.get("page"))
        cold = run_step(env, stmts[i], m, cold=True, params=prm, page=sp.get("page"))
        direct_stmt = build(env, sp, translate(m))
        ref = run_step(env, direct_stmt, None, cold=True, params=prm, page=sp.get("page"))
        finals.append(warm)

        def viol(failure, detail):
            nonlocal nviol
            nviol += 1
            ctx.violation(classify(specs, hist, failure), case, detail)

        if ref["status"] != "ok":
            # the direct construct itself is not executable (e.g. CREATE of an existing table): compare outcomes only
            if warm["status"].split()[0] != ref["status"].split()[0] and warm["status"] != ref["status"]:
                viol("outcome-differs", "translated %s (%s) vs direct %s (%s)" % (warm["status"], warm.get("msg"), ref["status"], ref.get("msg")))
            elif norm_list(warm["sql"]) != norm_list(ref["sql"]):
                # both were rejected by the database, but not the same statement was sent
                viol("sql-differs", "map %r: SQL %r vs direct construct %r (both rejected by SQLite)" % (m, warm["sql"], ref["sql"]))
            if record:
                ctx.count("direct-raises")
            continue
        if warm["status"] != "ok":
            viol("warm-raises:" + warm["status"], "step %s map %r: shared-cache execution raises %s; direct construct runs" % (sp, m, warm.get("msg")))
            continue
        if cold["status"] != "ok":
            viol("cold-raises:" + cold["status"], "step %s map %r: cold execution raises %s" % (sp, m, cold.get("msg")))
            continue
        if norm_list(warm["sql"]) != norm_list(ref["sql"]):
            viol("sql-differs", "map %r: SQL %r vs direct construct %r" % (m, warm["sql"], ref["sql"]))
        elif warm["rows"] != ref["rows"] or warm["snap"] != ref["snap"]:
            viol("effect-differs", "map %r: rows/objects differ from direct construct; sql %r" % (m, warm["sql"]))
        elif norm_list(warm["sql"]) != norm_list(cold["sql"]) or warm["rows"] != cold["rows"] or warm["snap"] != cold["snap"]:
            viol("warm-differs-from-cold", "map %r: warm %r vs cold %r" % (m, warm["sql"], cold["sql"]))
    # ---- correspondence with the model
    if corr is not None:
        try:
            sym = [compile_sym(env, st, {None: "zq", "zz": "zq"}) for st in stmts]
        except Exception:
            sym = None
        if sym is not None and all(not isinstance(st, tuple) for st in stmts) and not any("rows" in sp for sp in specs):
            stmt_fields = [segs_of(s) for s in sym]
            for st, sf in zip(stmts, stmt_fields):
                for mode, mm in (("direct", None), ("sym0", {"zz": "zq"})):
                    corr["cases"].append({"specs": specs, "mode": mode})
                    corr["impl"].append("ok " + E(compile_sym(env, st, mm)))
                    corr["req"].append("schematr compile %s %s" % (mode, sf))
                    corr["post"].append("one")
            impl = []
            for (i, m), w in zip(hist, finals):
                if w["status"] == "ok" and len(w["sql"]) == 1:
                    impl.append("ok " + E(w["sql"][0]))
                elif w["status"] == "ok":
                    impl.append("multi")
                else:
                    e = [v for k, v in ERRMAP if k in (w.get("msg") or "")]
                    if e:
                        impl.append(e[0])
                    elif len(w["sql"]) == 1:
                        impl.append("ok " + E(w["sql"][0]))  # sent, then rejected by the database
                    else:
                        impl.append(w["status"])
            if "multi" not in impl:
                # DDL is compiled afresh on every execution (never cached): give each DDL step its own statement id
                fields = list(stmt_fields)
                steps = []
                # structurally equal statements share ONE compiled-cache entry: same model id
                canon = {}
                sid_of = []
                for j, st_ in enumerate(stmts):
                    try:
                        kk = st_._generate_cache_key().key
                    except Exception:
                        kk = ("nokey", j)
                    sid_of.append(canon.setdefault(kk, j))
                for i, m in hist:
                    i = sid_of[i] if not specs[i]["kind"].startswith("ddl") else i
                    if specs[i]["kind"].startswith("ddl"):
                        fields.append(stmt_fields[i])
                        steps.append("%d@%s" % (len(fields) - 1, map_field(m)))
                    else:
                        steps.append("%d@%s" % (i, map_field(m)))
                corr["cases"].append(case)
                corr["impl"].append(";".join(impl))
                corr["req"].append("schematr history %s %s %s" % (E("main"), ";".join(fields), ";".join(steps)))
                corr["post"].append("many")
    if record:
        ctx.case(json.dumps(case, sort_keys=True, default=str), nontrivial=any(m for _, m in hist))
        ctx.count("history-len=%d" % len(hist))
        for i, m in hist:
            ctx.count("kind=" + specs[i]["kind"])
            ctx.count("map=" + ("falsy" if not m else ("with-None" if None in m else "no-None")))
    return nviol


def adversarial(ctx, env):
    sa = env.sa
    # F12: a literal that looks like a schema token
    t = env.table("t", "a")
    st = sa.select(t.c.id, sa.literal("__[SCHEMA_a]", literal_execute=True).label("l")).where(t.c.id == 1)
    m = {"a": "s2"}
    case = {"adversarial": "f12"}
    r = run_step(env, st, m)
    ctx.count("adversarial")
    if r["status"] != "ok" or r["rows"] != [(1, "__[SCHEMA_a]")]:
        ctx.violation(KEY_F12, case, "literal '__[SCHEMA_a]' under map %r -> %s %s ; sql %s" % (m, r["status"], r.get("rows"), r["sql"]))
    # table whose schema is literally "_none"
    tn = env.table("t", "_none")
    st2 = sa.select(tn.c.id)
    try:
        s = str(st2.compile(dialect=env.engine.dialect, schema_translate_map={None: "s1"}))
        fin = env.prep._with_schema_translate({None: "s1"})._render_schema_translates(s, {None: "s1"})
        ctx.count("adversarial")
        if "_none" not in fin:
            ctx.violation(KEY_NONEALIAS, {"adversarial": "none-alias"}, "Table(schema='_none') with map {None:'s1'} renders %r" % fin)
    except Exception as ex:
        ctx.count("adversarial-error:" + type(ex).__name__)


def run(ctx, deep=False):
    ctx.rule = (
        "histories (length 1..8) over pools of 1..3 generated statements (select/join/subquery/union/insert/insert-from-select/update/delete, "
        "CreateTable/CreateIndex/DropTable/create_all, CreateTableAs / CreateView with an embedded SELECT over other translated schemas) whose tables live in symbolic schemas {None,a,b,c,Up}; maps to {s1,s2,s3,main,None,Up,order,identity}, "
        "None keys, empty/None maps; 85% of histories keep the presence of the None key constant, 15% vary it; a case = one history; non-trivial = at least one non-empty map"
    )
    ctx.trusted += [
        "CPython re (scanner model differential-tested each run)",
        "quote_schema / identifier quoting (property C06): parameter of the model, real function substituted by the harness",
        "SQLite ATTACH databases stand for schemas",
    ]
    thorough = ctx.tier == "thorough" or deep
    scanner_corr(ctx, 30000 if thorough else 5000)
    env = Env()
    corr = {"cases": [], "impl": [], "req": [], "post": []} if ctx.driver_ok() else None
    n = 3000 if thorough else 220
    for h in range(n):
        specs = [gen_spec(ctx.rng) for _ in range(ctx.rng.randint(1, 3))]
        consistent = ctx.rng.random() < 0.85
        wn = ctx.rng.random() < 0.5
        hist = []
        for _ in range(ctx.rng.randint(1, 8)):
            hist.append((ctx.rng.randrange(len(specs)), gen_map(ctx.rng, wn if consistent else ctx.rng.random() < 0.5)))
        check_history(ctx, env, specs, hist, corr)
        if h < 3:
            ctx.sample({"specs": specs, "history": [[i, str(m)] for i, m in hist]})
    adversarial(ctx, env)
    # the known F11 shape, always exercised
    check_history(ctx, env, [{"kind": "select", "s1": None, "s2": "a", "v": 100, "w": 1}], [(0, {"a": "s1"}), (0, {None: "s2", "a": "s1"})], None, record=False)
    if corr is not None and corr["req"]:
        out = ctx.driver(corr["req"])
        out = [";".join(("ok " + E(unmark(env, D(p[3:]))) if p.startswith("ok s:") else p) for p in o.split(";")) for o in out]
        ctx.correspond("corr/c16:compiler-vs-Model.SchemaTr", corr["cases"], corr["impl"], out)
        ctx.count("model-lines", len(out))
    ctx.exhaustive = False


def search(ctx, broken):
    from harness import vlib

    env = Env()
    for d in ctx.disagreements:
        c = d.get("case") or {}
        if "history" in c:
            hist = [(i, None if m is None else {(None if k is None else k): v for k, v in m}) for i, m in c["history"]]
            check_history(ctx, env, c["specs"], hist, None, record=False)
    if ctx.violations:
        return
    sub = vlib.Ctx(ctx.pid, "thorough", ctx.seed + 1, ctx.level)
    for h in range(800):
        specs = [gen_spec(sub.rng) for _ in range(sub.rng.randint(1, 3))]
        wn = sub.rng.random() < 0.5
        hist = [(sub.rng.randrange(len(specs)), gen_map(sub.rng, wn)) for _ in range(sub.rng.randint(1, 8))]
        if check_history(sub, env, specs, hist, None, record=False):
            break
    ctx.violations.extend(sub.violations)


def replay(ctx, obj):
    env = Env()
    c = obj["case"]
    if "adversarial" in c:
        adversarial(ctx, env)
        bad = bool(ctx.violations)
    else:
        hist = [(i, None if m is None else {k: v for k, v in m}) for i, m in c["history"]]
        bad = check_history(ctx, env, c["specs"], hist, None, record=False) > 0
    for v in ctx.violations:
        print("replay C16: %s — %s" % (v["key"], v["detail"][:500]))
    if not bad:
        print("replay C16: no violation")
    return bad
