"""C49 — Mutable column values propagate in-place changes to the database.

Model       lean/SaVerif/Model/Mutable.lean   (ext/mutable.py tracking + committed_state /
                                               flush decision of orm/attributes.py, state.py,
                                               persistence.py, for one scalar column attribute)
Table       lean/SaVerif/Gen/MutableTable.lean (regenerated here: every in-place mutator of
                                               dict/list/set, overridden?, calls changed()?)
Theorems    lean/SaVerif/Props/C49.lean
Check       real mapped classes on in-memory SQLite (PickleType / JSON columns), adaptive
            operation sequences; direct oracle (stored == in-memory after flush, parent marked
            modified after a content-changing call, pickle / commit+reload round trips);
            correspondence of (state.dict, committed_state, _parents, row) with the model after
            every operation.
"""
import gc
import itertools
import json
import os
import pickle

PID = "C49"
LEVEL = "proof"
LEAN = ["SaVerif.Props.C49"]
META = {
    "text": "Lean theorems over ALL operation sequences (any builtin semantics: the result content of every call is a universally quantified input) of the transcribed tracking machine: an invariant (clean attribute mirrors the row; committed_state original mirrors the row; current value is linked to its parent) is preserved by every guarded step, hence after flush the stored value equals the in-memory value, after commit+reload the loaded value equals it, and a content-changing tracked call marks every holder modified. The guard on mutator calls is discharged for the real classes by `decide` over the regenerated method table (every in-place mutator of dict/list/set is overridden and calls changed()). Necessity of each guard is proved by counterexample theorems, replayed on the real code.",
    "note": "Model = hand transcription of one scalar column attribute (MutableDict/List/Set); tied to the code by per-step correspondence on state.dict / committed_state / _parents / row for adaptive sequences incl. flush, commit, rollback, expire, refresh, pickle, expunge+get, shared values and stale references. MutableComposite and Session.merge are covered by the direct oracle only (not in the model). Builtin list/dict/set semantics are not modelled: the content after each call is an input. Guards forced by the proof that are real behaviours of the code (reported as known findings, not as theorems about a fixed tree): a builtin call that raises after a partial mutation skips changed(); changed() aborts at the first expired holder; committed_state keeps a live reference so mutating a replaced value can suppress the UPDATE.",
    "technique": "Lean 4 invariant proof over a transcribed state machine + decide over a regenerated method table + per-step differential correspondence with the real ORM on SQLite",
    "design_ref": "DESIGN.md §3 C49",
}

KINDS = ("list", "dict", "set")
NKEYS = 6

# ---------------------------------------------------------------------------------------
# translator: method table
# ---------------------------------------------------------------------------------------
_PROBES = [
    (), (0,), (1,), (2,), (7,), (0, 7), (7, 8), ([7, 8],), ({7: 8},), ({7},), ({1},), ([1],),
    (slice(0, 1), [9]), (slice(0, 1),), ([(7, 8)],),
]
_SKIP = {"__init__", "__new__", "__class__", "__init_subclass__", "__subclasshook__"}


def _samples(kind):
    return {"list": [3, 1, 2], "dict": {1: 2, 3: 4}, "set": {1, 2, 3}}[kind]


def _base(kind):
    return {"list": list, "dict": dict, "set": set}[kind]


def _static_tracked():
    """{(kind, method): bool} by ast over ext/mutable.py: the method body has an
    unconditional top-level `self.changed()` or an unconditional top-level call of another
    method of self that is itself tracked."""
    import ast
    from sqlalchemy.ext import mutable as M

    tree = ast.parse(open(M.__file__).read())
    out = {}
    for kind, cname in (("list", "MutableList"), ("dict", "MutableDict"), ("set", "MutableSet")):
        cls = next(n for n in tree.body if isinstance(n, ast.ClassDef) and n.name == cname)
        defs = {}

        def collect(body):
            for n in body:
                if isinstance(n, ast.FunctionDef):
                    defs[n.name] = n
                elif isinstance(n, ast.If):
                    # `if TYPE_CHECKING: <stubs> else: <real defs>`
                    t = n.test
                    if isinstance(t, ast.Name) and t.id == "TYPE_CHECKING":
                        collect(n.orelse)
                    else:
                        collect(n.body)
                        collect(n.orelse)

        collect(cls.body)
        memo = {}

        def self_calls(stmt):
            """names of self.<m>(...) calls appearing in a simple top-level statement"""
            if not isinstance(stmt, (ast.Expr, ast.Assign, ast.AnnAssign, ast.AugAssign)):
                return []
            res = []
            for c in ast.walk(stmt):
                if (
                    isinstance(c, ast.Call)
                    and isinstance(c.func, ast.Attribute)
                    and isinstance(c.func.value, ast.Name)
                    and c.func.value.id == "self"
                ):
                    res.append(c.func.attr)
            return res

        def tracked(name, stack=()):
            if name in memo:
                return memo[name]
            if name not in defs or name in stack:
                return False
            ok = False
            for stmt in defs[name].body:
                if isinstance(stmt, ast.Return):
                    break  # anything after an unconditional return is dead
                for callee in self_calls(stmt):
                    if callee == "changed" or tracked(callee, stack + (name,)):
                        ok = True
                if ok:
                    break
            memo[name] = ok
            return ok

        for name in defs:
            out[(kind, name)] = tracked(name)
    return out


def method_table():
    """rows (kind, method, mutates, overridden, tracked) computed from the working tree"""
    from sqlalchemy.ext import mutable as M

    static = _static_tracked()
    rows = []
    for kind, mcls in (("dict", M.MutableDict), ("list", M.MutableList), ("set", M.MutableSet)):
        base = _base(kind)
        counter = [0]

        class Probe(mcls):  # noqa
            def changed(self):
                counter[0] += 1

        for name in sorted(dir(base)):
            if name in _SKIP or not callable(getattr(base, name)):
                continue
            mutates = False
            for args in _PROBES:
                x = base(_samples(kind))
                before = repr(x)
                try:
                    getattr(x, name)(*args)
                except BaseException:
                    pass
                if repr(x) != before:
                    mutates = True
                    break
            owner = next(c for c in mcls.__mro__ if name in c.__dict__)
            overridden = owner is not base and owner is not object
            if not (mutates or overridden):
                continue
            # dynamic: whenever a probe call changes the content, changed() was called
            dyn = True
            for args in _PROBES:
                x = Probe(_samples(kind))
                before = repr(base(x))
                counter[0] = 0
                try:
                    getattr(x, name)(*args)
                    raised = False
                except BaseException:
                    raised = True
                if repr(base(x)) != before and not raised and counter[0] == 0:
                    dyn = False
            tracked = bool(overridden and static.get((kind, name), False) and dyn)
            rows.append((kind, name, mutates, overridden, tracked))
    return rows


def gen(ctx):
    rows = method_table()
    b = lambda x: "true" if x else "false"  # noqa: E731
    body = ",\n".join('  ("%s", "%s", %s, %s, %s)' % (k, m, b(mu), b(ov), b(tr)) for k, m, mu, ov, tr in rows)
    ctx.write_gen(
        "MutableTable",
        "namespace SaVerif.Gen.MutableTable\n"
        "/-- (base type, method, probing the builtin shows it mutates in place, overridden in\n"
        "    ext/mutable.py Mutable<Type>, the override unconditionally reaches self.changed()) -/\n"
        "def rows : List (String × String × Bool × Bool × Bool) := [\n" + body + "\n]\n"
        "/-- `some tracked` for a row of the table, `none` for an unknown method -/\n"
        "def lookup (kind m : String) : Option Bool :=\n"
        "  (rows.find? (fun r => r.1 == kind && r.2.1 == m)).map (fun r => r.2.2.2.2)\n"
        "/-- does `Mutable<kind>.<m>` reach `self.changed()` -/\n"
        "def tracked (kind m : String) : Bool := (lookup kind m).getD false\n"
        "end SaVerif.Gen.MutableTable\n",
    )


# ---------------------------------------------------------------------------------------
# real mapped classes
# ---------------------------------------------------------------------------------------
_ENV = {}
COLTYPES = {"list": ("pickle", "json"), "dict": ("json", "pickle"), "set": ("pickle",)}


def env(kind, coltype):
    """(mapped class, engine, Point-composite class or None) — built once per process"""
    key = (kind, coltype)
    if key in _ENV:
        return _ENV[key]
    import sqlalchemy as sa
    from sqlalchemy import orm
    from sqlalchemy.ext import mutable as M
    from sqlalchemy.pool import StaticPool

    if "Base" not in _ENV:
        _ENV["Base"] = orm.declarative_base()
    Base = _ENV["Base"]
    mcls = {"list": M.MutableList, "dict": M.MutableDict, "set": M.MutableSet}[kind]
    typ = sa.PickleType if coltype == "pickle" else sa.JSON
    name = "P_%s_%s" % (kind, coltype)
    cls = type(
        name,
        (Base,),
        {
            "__tablename__": name.lower(),
            "__module__": __name__,
            "id": sa.Column(sa.Integer, primary_key=True),
            "data": sa.Column(mcls.as_mutable(typ)),
            "other": sa.Column(sa.Integer),
        },
    )
    globals()[name] = cls  # picklable by reference
    eng = sa.create_engine("sqlite://", poolclass=StaticPool)
    cls.__table__.create(eng)
    _ENV[key] = (cls, eng, mcls)
    return _ENV[key]


def kstr(i):
    return "k%d" % i


def to_py(kind, content):
    """canonical content (list of ints) -> plain builtin value"""
    if content is None:
        return None
    if kind == "list":
        return list(content)
    if kind == "set":
        return set(content)
    return {kstr(content[i]): (None if content[i + 1] == -1 else content[i + 1]) for i in range(0, len(content), 2)}


def canon(kind, value):
    """plain / Mutable value -> canonical list of ints (None stays None)"""
    if value is None:
        return None
    if kind == "list":
        return [int(x) for x in list(value)]
    if kind == "set":
        return sorted(int(x) for x in value)
    out = []
    for k in sorted(value, key=lambda s: int(s[1:])):
        out += [int(k[1:]), -1 if value[k] is None else int(value[k])]
    return out


def show_content(c):
    return "e" if not c else ".".join(str(x) for x in c)


def dec_arg(kind, a):
    """JSON argument descriptor -> Python object"""
    if isinstance(a, int):
        return a
    if "L" in a:
        return list(a["L"])
    if "S" in a:
        return set(a["S"])
    if "D" in a:
        return {kstr(k): v for k, v in a["D"]}
    if "K" in a:
        return kstr(a["K"])
    if "sl" in a:
        return slice(*a["sl"])
    if "P" in a:  # sequence of pairs for dict.update, possibly malformed
        return [tuple([kstr(p[0])] + list(p[1:])) for p in a["P"]]
    if "G" in a:  # generator yielding items then raising

        def g(items=a["G"]):
            for x in items:
                yield x
            raise RuntimeError("generator failed")

        return g()
    if "U" in a:  # list of items with an unhashable one at the end
        return list(a["U"]) + [[]]
    raise ValueError(a)


class Runner:
    """executes operations on the real ORM and records, per step, what the model needs
    (result content, builtin-raised flag) and the observable state"""

    def __init__(self, case):
        import sqlalchemy as sa
        from sqlalchemy import orm

        self.sa = sa
        self.case = case
        self.kind = case["kind"]
        self.cls, self.eng, self.mcls = env(case["kind"], case["coltype"])
        self.t = self.cls.__table__
        with self.eng.begin() as c:
            c.execute(self.t.delete())
        self.sess = orm.Session(self.eng, autoflush=bool(case["af"]))
        self.objs = []
        for i, row in enumerate(case["rows"]):
            o = self.cls(id=i + 1, data=to_py(self.kind, row), other=0)
            self.sess.add(o)
            self.objs.append(o)
        self.sess.commit()
        self.handles = {}
        self.model_ops = []
        self.obs = []
        self.violations = []  # (oracle-kind, detail, extra)
        self.model_frozen = False
        self.invalid_vals = []  # value objects whose changed() aborted with InvalidRequestError
        self.guard_log = {}  # id(value) -> (value, first violated guard of the theorem)
        self.parent_guard = {}  # parent -> guard violated by a call on a value it holds / remembers
        self.nother = 0

    # ------------------------------------------------------------------ observation
    def state(self, p):
        return self.sa.inspect(self.objs[p])

    def cur(self, p):
        return self.state(p).dict.get("data", Runner)  # Runner = sentinel "absent"

    def db_rows(self):
        res = {}
        for rid, val in self.sess.connection().execute(self.sa.select(self.t.c.id, self.t.c.data)):
            res[rid - 1] = canon(self.kind, val)
        return [res.get(i) for i in range(len(self.objs))]

    def observe(self):
        sidx = {self.state(p): p for p in range(len(self.objs))}
        rows = self.db_rows()
        out = []
        for p in range(len(self.objs)):
            st = self.state(p)
            cur = st.dict.get("data", Runner)
            if cur is Runner:
                c = "X"
            elif cur is None:
                c = "N"
            else:
                if isinstance(cur, self.mcls):
                    ps = [str(sidx.get(s, "?")) for s in cur._parents.keys()]
                else:
                    ps = ["!plain-%s" % type(cur).__name__]
                c = show_content(canon(self.kind, cur)) + "@" + (".".join(ps) if ps else "-")
            from sqlalchemy.orm.base import NO_VALUE

            orig = st.committed_state.get("data", Runner)
            if orig is Runner:
                o = "-"
            elif orig is NO_VALUE:
                o = "NV"
            elif orig is None:
                o = "N"
            elif orig is cur:
                o = "="
            else:
                o = "r" + show_content(canon(self.kind, orig))
            d = "N" if rows[p] is None else show_content(rows[p])
            out.append("%s~%s~%s" % (c, o, d))
        return ",".join(out)

    def mem(self, p):
        """(loaded?, canonical in-memory value)"""
        cur = self.cur(p)
        if cur is Runner:
            return False, None
        return True, canon(self.kind, cur)

    # ------------------------------------------------------------------ oracles
    def check_stored(self, where, snapshot=None):
        """O1: for every loaded attribute the row holds the in-memory value"""
        rows = self.db_rows()
        for p in range(len(self.objs)):
            if snapshot is not None:
                loaded, m = snapshot[p]
            else:
                loaded, m = self.mem(p)
            if loaded and m != rows[p]:
                self.violations.append(("stored-ne-memory", "%s: parent %d in-memory %r but row holds %r" % (where, p, m, rows[p]), {"p": p}))
                return False
            if loaded:
                self.parent_guard.pop(p, None)  # verified in sync
        return True

    def pre_flush_snapshot(self):
        snap = []
        rows = self.db_rows()
        for p in range(len(self.objs)):
            st = self.state(p)
            cur = st.dict.get("data", Runner)
            orig = st.committed_state.get("data", Runner)
            guard = None
            for obj in (cur, orig):
                if id(obj) in self.guard_log and self.guard_log[id(obj)][0] is obj:
                    guard = guard or self.guard_log[id(obj)][1]
            snap.append({"guard": guard or self.parent_guard.get(p)})
        return snap

    def do_flush(self, where, commit=False):
        snap_mem = [self.mem(p) for p in range(len(self.objs))]
        pre = self.pre_flush_snapshot()
        n = len(self.violations)
        if commit:
            self.sess.commit()
        else:
            self.sess.flush()
        self.check_stored(where, snap_mem)
        for v in self.violations[n:]:
            v[2].update(pre[v[2]["p"]])

    # ------------------------------------------------------------------ operations
    def call(self, v, op):
        """call the mutator on value object v; returns (content, builtin_raised, outcome)"""
        from sqlalchemy.exc import InvalidRequestError

        args = [dec_arg(self.kind, a) for a in op.get("args", [])]
        kw = dict(op.get("kw", {}))
        shadow = _base(self.kind)(v)
        sargs = [dec_arg(self.kind, a) for a in op.get("args", [])]
        try:
            getattr(shadow, op["m"])(*sargs, **kw)
            raised = False
        except InvalidRequestError:
            raise
        except Exception:
            raised = True
        before = canon(self.kind, v)
        holders = [p for p in range(len(self.objs)) if self.cur(p) is v]
        broken_guards = guard_violations(self, v)
        outcome = "ok"
        try:
            getattr(v, op["m"])(*args, **kw)
        except InvalidRequestError:
            outcome = "invalid"
            self.invalid_vals.append(v)
        except Exception:
            pass
        after = canon(self.kind, v)
        if after != before:
            # which guards of Props.C49.inv_step did this content-changing call violate?
            if raised:
                broken_guards = ["partial-mutation-on-exception:%s.%s" % (self.kind, op["m"])] + broken_guards
            if broken_guards:
                self.guard_log.setdefault(id(v), (v, broken_guards[0]))
                # sticky per parent: an autoflush hidden inside a later attribute access may already
                # have skipped the UPDATE and cleared committed_state before an explicit flush is checked
                for q in range(len(self.objs)):
                    if self.objs[q] is None:
                        continue
                    stq = self.state(q)
                    if stq.dict.get("data", None) is v or stq.committed_state.get("data", None) is v:
                        self.parent_guard.setdefault(q, broken_guards[0])
        # O2: a content-changing call marks every parent holding the value as modified
        if after != before and outcome == "ok":
            for p in holders:
                st = self.state(p)
                if self.objs[p] not in self.sess.dirty or "data" not in st.committed_state:
                    self.violations.append(
                        (
                            "unmarked",
                            "%s.%s%r changed the value %r -> %r but parent %d is not marked modified (dirty=%s, committed_state has key=%s)"
                            % (self.kind, op["m"], tuple(op.get("args", [])), before, after, p, self.objs[p] in self.sess.dirty, "data" in st.committed_state),
                            {"p": p, "m": op["m"], "guard": self.guard_log.get(id(v), (None, None))[1]},
                        )
                    )
                    break
        return after, raised, outcome

    def step(self, op):
        """execute one op descriptor; an exception escaping from the ORM is a violation"""
        try:
            return self._step(op)
        except Exception as e:  # noqa: BLE001
            import traceback

            tb = traceback.extract_tb(e.__traceback__)
            where = next((f for f in reversed(tb) if "sqlalchemy" in f.filename), tb[-1])
            self.violations.append(
                ("op-raised", "operation %s raised %s: %s (at %s:%s %s)" % (json.dumps(op), type(e).__name__, e, os.path.basename(where.filename), where.lineno, where.name), {"p": op.get("p", 0)})
            )
            try:
                self.sess.rollback()
            except Exception:  # noqa: BLE001
                pass
            return None

    def _step(self, op):
        """execute one op descriptor; appends model op + observation; returns outcome"""
        k = op["op"]
        outcome = "ok"
        mop = None
        if k == "acc":
            self.objs[op["p"]].data
            mop = "acc:%d" % op["p"]
        elif k == "mut":
            v = self.objs[op["p"]].data
            if v is None:
                outcome = "none"
                mop = "mut:%d:%s:e:0" % (op["p"], op["m"])
            else:
                c, r, outcome = self.call(v, op)
                mop = "mut:%d:%s:%s:%d" % (op["p"], op["m"], show_content(c), r)
        elif k == "hold":
            v = self.objs[op["p"]].data
            if v is None:
                outcome = "none"
            else:
                self.handles[op["h"]] = v
            mop = "hold:%d" % op["p"]
        elif k == "mutv":
            v = self.handles.get(op["h"])
            if v is None:
                return None  # shrunk away
            c, r, outcome = self.call(v, op)
            mop = "mutv:%d:%s:%s:%d" % (op["h"], op["m"], show_content(c), r)
        elif k == "setp":
            self.objs[op["p"]].data = to_py(self.kind, op["c"])
            mop = "setp:%d:%s" % (op["p"], show_content(op["c"]))
        elif k == "setn":
            self.objs[op["p"]].data = None
            mop = "setn:%d" % op["p"]
        elif k == "setv":
            v = self.handles.get(op["h"])
            if v is None:
                return None
            self.objs[op["p"]].data = v
            mop = "setv:%d:%d" % (op["p"], op["h"])
        elif k == "flush":
            self.do_flush("flush")
            mop = "flush"
        elif k == "commit":
            self.do_flush("commit", commit=True)
            mop = "commit"
        elif k == "rollback":
            self.sess.rollback()
            mop = "rollback"
        elif k == "exp":
            if op.get("attr"):
                self.sess.expire(self.objs[op["p"]], ["data"])
            else:
                self.sess.expire(self.objs[op["p"]])
            mop = ("expa:%d" if op.get("attr") else "exp:%d") % op["p"]
        elif k == "ref":
            if op.get("attr"):
                self.sess.refresh(self.objs[op["p"]], ["data"])
            else:
                self.sess.refresh(self.objs[op["p"]])
            mop = ("refa:%d" if op.get("attr") else "ref:%d") % op["p"]
        elif k == "refo":
            self.sess.refresh(self.objs[op["p"]], ["other"])
            mop = "refo:%d" % op["p"]
        elif k == "pik":
            p = op["p"]
            loaded, before = self.mem(p)
            o = self.objs[p]
            self.sess.expunge(o)
            blob = pickle.dumps(o)
            self.objs[p] = None
            del o
            gc.collect()
            o2 = pickle.loads(blob)
            self.objs[p] = o2
            self.sess.add(o2)
            loaded2, after = self.mem(p)
            if (loaded, before) != (loaded2, after):
                self.violations.append(("pickle-changed-value", "parent %d: %r before pickle round trip, %r after" % (p, before, after), {"p": p}))
            mop = "pik:%d" % p
        elif k == "reget":
            p = op["p"]
            o = self.objs[p]
            self.sess.expunge(o)
            self.objs[p] = None
            del o
            gc.collect()
            self.objs[p] = self.sess.get(self.cls, p + 1)
            mop = "reget:%d" % p
        elif k in ("bulkpk", "updw", "popex", "merge", "refq"):
            # the value is REPLACED by ORM machinery, not by a user assignment (oracle only: the
            # Lean model stops here, the direct oracle continues)
            sa = self.sa
            p = op.get("p", 0)
            if k == "bulkpk":
                self.sess.execute(sa.update(self.cls), [{"id": p + 1, "data": to_py(self.kind, op["c"])}])
            elif k == "updw":
                if op["sync"] != "fetch":
                    # the evaluator cannot decide `id == pk` for an object whose id is expired
                    for q in range(len(self.objs)):
                        stq = self.state(q)
                        if q != p and "id" not in stq.dict and "data" in stq.dict:
                            self.parent_guard.setdefault(q, "update-evaluate-applies-to-partially-expired-object")
                self.sess.execute(
                    sa.update(self.cls).where(self.cls.id == p + 1).values(data=to_py(self.kind, op["c"])).execution_options(synchronize_session=op["sync"])
                )
            elif k == "popex":
                self.sess.execute(sa.select(self.cls).execution_options(populate_existing=True)).scalars().all()
            elif k == "refq":
                self.sess.execute(sa.select(self.cls).where(self.cls.id == p + 1)).scalars().all()
            else:
                self.objs[p] = self.sess.merge(self.cls(id=p + 1, data=to_py(self.kind, op["c"])))
            self.model_frozen = True
            self.check_wrapped("after %s" % json.dumps(op))
            return "ok"
        else:
            raise ValueError(op)
        if not self.model_frozen:
            self.model_ops.append(mop)
            self.obs.append(outcome + "/" + self.observe())
        return outcome

    def check_wrapped(self, where):
        """every loaded non-None value of the attribute is a Mutable linked to its parent"""
        for p in range(len(self.objs)):
            st = self.state(p)
            v = st.dict.get("data", None)
            if v is None:
                continue
            if not isinstance(v, self.mcls):
                self.violations.append(("value-not-mutable", "%s: parent %d holds a plain %s: in-place changes cannot be tracked" % (where, p, type(v).__name__), {"p": p}))
                return
            if st not in v._parents:
                self.violations.append(("value-not-linked", "%s: the Mutable value of parent %d is not linked to it (_parents)" % (where, p), {"p": p}))
                return

    def finish(self):
        """end of sequence: flush and compare, then commit and reload through the ORM"""
        if self.violations:
            return
        try:
            self._finish()
        except Exception as e:  # noqa: BLE001
            self.violations.append(("op-raised", "final flush/commit/reload raised %s: %s" % (type(e).__name__, e), {"p": 0}))

    def _finish(self):
        self.do_flush("final flush")
        if self.violations:
            return
        snap = [self.mem(p) for p in range(len(self.objs))]
        self.sess.commit()
        for p in range(len(self.objs)):
            loaded, m = snap[p]
            v = self.objs[p].data
            if loaded and canon(self.kind, v) != m:
                self.violations.append(("reload-ne-memory", "parent %d held %r before commit, reloads as %r" % (p, m, canon(self.kind, v)), {"p": p}))
                return
            if v is not None and not isinstance(v, self.mcls):
                self.violations.append(("reload-not-mutable", "parent %d reloads as %s" % (p, type(v).__name__), {"p": p}))
                return

    def close(self):
        try:
            self.sess.rollback()
        except Exception:
            pass
        self.sess.close()
        self.handles.clear()
        self.objs = []


# ---------------------------------------------------------------------------------------
# generators
# ---------------------------------------------------------------------------------------
def rand_content(rng, kind, maxlen=4):
    n = rng.choice([0, 1, 1, 2, 2, 3, maxlen])
    if kind == "list":
        return [rng.randint(0, 5) for _ in range(n)]
    if kind == "set":
        return sorted(rng.sample(range(8), min(n, 8)))
    ks = sorted(rng.sample(range(NKEYS), min(n, NKEYS)))
    out = []
    for k in ks:
        out += [k, rng.randint(0, 5)]
    return out


def gen_mutator(rng, kind, value, edge=False):
    """a method call descriptor for a value of the given kind; mostly applicable to the
    current content, sometimes failing cleanly (KeyError/IndexError/ValueError)."""
    r = rng.random
    if kind == "list":
        n = len(value)
        idx = lambda: rng.randint(-n - 1, n + 1) if r() < 0.25 or n == 0 else rng.randint(-n, n - 1)  # noqa: E731
        sl = lambda: [rng.choice([None, -2, -1, 0, 1, 2, 3]), rng.choice([None, -1, 0, 1, 2, 3, 5]), rng.choice([None, None, 1, 2, -1])]  # noqa: E731
        items = lambda: {"L": [rng.randint(0, 5) for _ in range(rng.randint(0, 3))]}  # noqa: E731
        if edge and r() < 0.5:
            return rng.choice(
                [
                    {"m": "extend", "args": [{"G": [rng.randint(0, 5) for _ in range(rng.randint(1, 2))]}]},
                    {"m": "__iadd__", "args": [{"G": [rng.randint(0, 5)]}]},
                ]
            )
        c = rng.choice(
            ["append", "append", "extend", "insert", "pop", "pop_i", "remove", "clear", "sort", "sort_r", "reverse", "setitem", "setslice", "delitem", "delslice", "iadd", "imul"]
        )
        if c == "append":
            return {"m": "append", "args": [rng.randint(0, 5)]}
        if c == "extend":
            return {"m": "extend", "args": [items()]}
        if c == "insert":
            return {"m": "insert", "args": [idx(), rng.randint(0, 5)]}
        if c == "pop":
            return {"m": "pop", "args": []}
        if c == "pop_i":
            return {"m": "pop", "args": [idx()]}
        if c == "remove":
            return {"m": "remove", "args": [rng.choice(value) if value and r() < 0.8 else 9]}
        if c == "clear":
            return {"m": "clear", "args": []}
        if c == "sort":
            return {"m": "sort", "args": []}
        if c == "sort_r":
            return {"m": "sort", "args": [], "kw": {"reverse": True}}
        if c == "reverse":
            return {"m": "reverse", "args": []}
        if c == "setitem":
            return {"m": "__setitem__", "args": [idx(), rng.randint(0, 5)]}
        if c == "setslice":
            return {"m": "__setitem__", "args": [{"sl": sl()}, items()]}
        if c == "delitem":
            return {"m": "__delitem__", "args": [idx()]}
        if c == "delslice":
            return {"m": "__delitem__", "args": [{"sl": sl()}]}
        if c == "iadd":
            return {"m": "__iadd__", "args": [items()]}
        return {"m": "__imul__", "args": [rng.choice([0, 1, 2, 2, -1])]}
    if kind == "dict":
        keys = [int(k[1:]) for k in value]
        key = lambda: {"K": rng.choice(keys) if keys and r() < 0.7 else rng.randrange(NKEYS)}  # noqa: E731
        d = lambda: {"D": [[rng.randrange(NKEYS), rng.randint(0, 5)] for _ in range(rng.randint(0, 2))]}  # noqa: E731
        if edge and r() < 0.5:
            good = [[rng.randrange(NKEYS), 7] for _ in range(rng.randint(1, 2))]
            return rng.choice(
                [
                    {"m": "update", "args": [{"P": good + [[rng.randrange(NKEYS)]]}]},
                    {"m": "__ior__", "args": [{"P": good + [[rng.randrange(NKEYS)]]}]},
                ]
            )
        c = rng.choice(["setitem", "setitem", "delitem", "setdefault", "setdefault1", "update", "update_p", "update_kw", "pop", "pop_d", "popitem", "clear", "ior"])
        if c == "setitem":
            return {"m": "__setitem__", "args": [key(), rng.randint(0, 5)]}
        if c == "delitem":
            return {"m": "__delitem__", "args": [key()]}
        if c == "setdefault":
            return {"m": "setdefault", "args": [key(), rng.randint(0, 5)]}
        if c == "setdefault1":
            return {"m": "setdefault", "args": [key()]}
        if c == "update":
            return {"m": "update", "args": [d()]}
        if c == "update_p":
            return {"m": "update", "args": [{"P": [[rng.randrange(NKEYS), rng.randint(0, 5)] for _ in range(rng.randint(0, 2))]}]}
        if c == "update_kw":
            return {"m": "update", "args": [], "kw": {kstr(rng.randrange(NKEYS)): rng.randint(0, 5)}}
        if c == "pop":
            return {"m": "pop", "args": [key()]}
        if c == "pop_d":
            return {"m": "pop", "args": [key(), 0]}
        if c == "popitem":
            return {"m": "popitem", "args": []}
        if c == "clear":
            return {"m": "clear", "args": []}
        return {"m": "__ior__", "args": [d()]}
    # set
    vals = sorted(value)
    el = lambda: rng.choice(vals) if vals and r() < 0.6 else rng.randrange(8)  # noqa: E731
    s = lambda: {"S": sorted(rng.sample(range(8), rng.randint(0, 3)))}  # noqa: E731
    if edge and r() < 0.5:
        return rng.choice(
            [
                {"m": "update", "args": [{"U": [rng.randrange(8, 12)]}]},
                {"m": "difference_update", "args": [{"U": [rng.choice(vals) if vals else 0]}]},
                {"m": "__ior__", "args": [{"S": [rng.randrange(8, 12)]}]},
            ]
        )
    c = rng.choice(["add", "add", "remove", "discard", "pop", "clear", "update", "update2", "iu", "du", "sdu", "ior", "iand", "ixor", "isub"])
    if c == "add":
        return {"m": "add", "args": [el()]}
    if c == "remove":
        return {"m": "remove", "args": [el()]}
    if c == "discard":
        return {"m": "discard", "args": [el()]}
    if c == "pop":
        return {"m": "pop", "args": []}
    if c == "clear":
        return {"m": "clear", "args": []}
    if c == "update":
        return {"m": "update", "args": [s()]}
    if c == "update2":
        return {"m": "update", "args": [s(), {"L": [rng.randrange(8)]}]}
    if c == "iu":
        return {"m": "intersection_update", "args": [s()]}
    if c == "du":
        return {"m": "difference_update", "args": [s()]}
    if c == "sdu":
        return {"m": "symmetric_difference_update", "args": [s()]}
    return {"m": {"ior": "__ior__", "iand": "__iand__", "ixor": "__ixor__", "isub": "__isub__"}[c], "args": [s()]}


def gen_case(rng, stream, maxops):
    kind = rng.choice(KINDS)
    coltype = rng.choice(COLTYPES[kind])
    np_ = rng.choice([1, 2, 2, 3])
    rows = [None if rng.random() < 0.15 else rand_content(rng, kind) for _ in range(np_)]
    return {"kind": kind, "coltype": coltype, "af": rng.random() < 0.6, "rows": rows, "ops": [], "stream": stream, "maxops": rng.randint(3, maxops)}


def guard_violations(R, v):
    """guards of Props.C49.MutGuard violated for a call on v, evaluated on the real objects"""
    from sqlalchemy import inspect

    out = []
    if not hasattr(v, "_parents"):
        return out
    for p in range(len(R.objs)):
        if R.objs[p] is None:
            continue
        st = inspect(R.objs[p])
        if st.committed_state.get("data", None) is v and st not in v._parents:
            out.append("committed-state-alias")
            break
    for st in list(v._parents.keys()):
        if "data" not in st.dict:
            out.append("changed-aborted-by-expired-parent")
            break
    return out


def safe_to_mutate(R, v):
    """the guard of the theorem, evaluated on the real objects: every parent linked to v has
    the attribute loaded (changed() will not abort), and every parent that remembers v as the
    committed original is linked to v"""
    from sqlalchemy import inspect

    if not hasattr(v, "_parents"):
        return True
    for st in list(v._parents.keys()):
        if "data" not in st.dict:
            return False
    for p in range(len(R.objs)):
        st = inspect(R.objs[p])
        if st.committed_state.get("data", None) is v and st not in v._parents:
            return False
    return True


def drive(rng, case):
    """adaptive generation: choose each op looking at the real state; returns the Runner"""
    R = Runner(case)
    edge = case["stream"] in ("exc", "stale")  # guards of the theorem switched off
    exc = case["stream"] == "exc"  # arguments that raise after a partial mutation
    nh = 0
    n = len(R.objs)
    while len(case["ops"]) < case["maxops"] and not R.violations:
        p = rng.randrange(n)
        c = rng.random()
        op = None
        if c < 0.40:
            v = R.objs[p].data  # access (recorded as part of mut)
            if v is None:
                op = {"op": "acc", "p": p}
            elif not edge and not safe_to_mutate(R, v):
                op = {"op": "acc", "p": p}
            else:
                op = dict(gen_mutator(rng, R.kind, base_copy(R.kind, v), exc), op="mut", p=p)
        elif c < 0.47:
            op = {"op": "setp", "p": p, "c": rand_content(rng, R.kind)}
        elif c < 0.50:
            op = {"op": "setn", "p": p}
        elif c < 0.56:
            op = {"op": "hold", "p": p, "h": nh}
        elif c < 0.64 and R.handles:
            h = rng.choice(sorted(R.handles))
            op = {"op": "setv", "p": p, "h": h}
        elif c < 0.72 and R.handles:
            h = rng.choice(sorted(R.handles))
            v = R.handles[h]
            if edge or safe_to_mutate(R, v):
                op = dict(gen_mutator(rng, R.kind, base_copy(R.kind, v), exc), op="mutv", h=h)
        elif c < 0.80:
            op = {"op": "flush"}
        elif c < 0.85:
            op = {"op": "commit"}
        elif c < 0.87:
            op = {"op": "rollback"}
        elif c < 0.90:
            op = {"op": "exp", "p": p, "attr": rng.random() < 0.5}
        elif c < 0.93:
            op = {"op": "ref", "p": p, "attr": rng.random() < 0.5}
        elif c < 0.95:
            op = {"op": "refo", "p": p}
        elif c < 0.975:
            op = {"op": "pik", "p": p}
        elif c < 0.985:
            op = {"op": "reget", "p": p}
        else:
            op = orm_replace_op(rng, R, p)
        if op is None:
            continue
        if op["op"] == "hold":
            if R.objs[p].data is None:
                op = {"op": "acc", "p": p}
            else:
                nh += 1
        case["ops"].append(op)
        R.step(op)
    R.finish()
    return R


def orm_replace_op(rng, R, p):
    k = rng.choice(["bulkpk", "bulkpk", "updw", "updw", "popex", "merge", "refq"])
    if k == "bulkpk" or k == "merge":
        return {"op": k, "p": p, "c": rand_content(rng, R.kind)}
    if k == "updw":
        return {"op": "updw", "p": p, "c": rand_content(rng, R.kind), "sync": rng.choice(["evaluate", "fetch", "auto"])}
    return {"op": k, "p": p}


def base_copy(kind, v):
    return _base(kind)(v)


def replay_case(case):
    R = Runner(case)
    for op in case["ops"]:
        if R.violations:
            break
        R.step(op)
    R.finish()
    return R


def op_sig(kind, op):
    if op["op"] in ("mut", "mutv"):
        return "%s(%s.%s)" % (op["op"], kind, op["m"])
    return op["op"]


def shrink(case, okind):
    """greedy removal of operations while the same oracle still fails first"""
    ops = list(case["ops"])

    def fails(cand):
        c = dict(case, ops=cand)
        R = replay_case(c)
        try:
            return bool(R.violations) and R.violations[0][0] == okind
        finally:
            R.close()

    changed = True
    budget = 300
    while changed and budget > 0:
        changed = False
        for i in range(len(ops) - 1, -1, -1):
            budget -= 1
            cand = ops[:i] + ops[i + 1 :]
            try:
                if fails(cand):
                    ops = cand
                    changed = True
            except Exception:
                pass
    return dict(case, ops=ops)


def classify(case, R):
    """specific key for the first violation of a finished Runner"""
    okind, detail, extra = R.violations[0]
    if okind in ("unmarked", "stored-ne-memory") and extra.get("guard"):
        # a value related to the failing parent was changed by a call that violated a guard
        # of the theorem (never the case in the main stream): known family, keyed by the guard
        return "c49:" + extra["guard"]
    small = shrink(case, okind)
    sig = "+".join(sorted({op_sig(case["kind"], o) for o in small["ops"]}))
    return "c49:%s:%s" % (okind, sig), small


def run_stream(ctx, stream, ncases, maxops, cases, impl_out, reqs):
    for _ in range(ncases):
        case = gen_case(ctx.rng, stream, maxops)
        R = drive(ctx.rng, case)
        try:
            ctx.case(case, nontrivial=len(case["ops"]) >= 2)
            ctx.count("stream=%s" % stream)
            ctx.count("kind=%s/%s" % (case["kind"], case["coltype"]))
            ctx.count("len=%02d" % (len(case["ops"]) // 5 * 5))
            for o in case["ops"]:
                ctx.count("op=" + (o["op"] if o["op"] not in ("mut", "mutv") else "%s:%s.%s" % (o["op"], case["kind"], o["m"])))
            if R.violations:
                report(ctx, case, R)
            if stream == "main" and len(case["ops"]) >= 8:
                ctx.sample({"case": case, "final": R.obs[-1] if R.obs else ""}, cap=4)
            cases.append(case)
            impl_out.append("|".join(R.obs) if R.obs else "-")
            reqs.append(model_line(case, R))
        finally:
            R.close()


def report(ctx, case, R):
    res = classify(case, R)
    if isinstance(res, tuple):
        key, small = res
    else:
        key, small = res, case
    ctx.violation(key, {k: small[k] for k in ("kind", "coltype", "af", "rows", "ops")}, R.violations[0][1])


def model_line(case, R):
    rows = ";".join("N" if r is None else show_content(r) for r in case["rows"])
    return "mutable run %s %d %d %s %s" % (case["kind"], 1 if case["af"] else 0, len(case["rows"]), rows, ";".join(R.model_ops) if R.model_ops else "-")


# ---------------------------------------------------------------------------------------
# MutableComposite and merge: direct oracle only
# ---------------------------------------------------------------------------------------
def composite_env():
    if "composite" in _ENV:
        return _ENV["composite"]
    import sqlalchemy as sa
    from sqlalchemy import orm
    from sqlalchemy.ext.mutable import MutableComposite
    from sqlalchemy.pool import StaticPool

    if "Base" not in _ENV:
        _ENV["Base"] = orm.declarative_base()
    Base = _ENV["Base"]

    class Point(MutableComposite):
        def __init__(self, x, y):
            self.x = x
            self.y = y

        def __setattr__(self, key, value):
            object.__setattr__(self, key, value)
            self.changed()

        def __composite_values__(self):
            return self.x, self.y

        def __eq__(self, other):
            return isinstance(other, Point) and other.x == self.x and other.y == self.y

        def __ne__(self, other):
            return not self.__eq__(other)

        def __getstate__(self):
            return self.x, self.y

        def __setstate__(self, state):
            object.__setattr__(self, "x", state[0])
            object.__setattr__(self, "y", state[1])

    Point.__module__ = __name__
    Point.__qualname__ = "Point"
    globals()["Point"] = Point

    class Vertex(Base):
        __tablename__ = "c49_vertex"
        id = sa.Column(sa.Integer, primary_key=True)
        x1 = sa.Column(sa.Integer)
        y1 = sa.Column(sa.Integer)
        x2 = sa.Column(sa.Integer)
        y2 = sa.Column(sa.Integer)
        start = orm.composite(Point, x1, y1)
        end = orm.composite(Point, x2, y2)

    Vertex.__module__ = __name__
    Vertex.__qualname__ = "Vertex"
    globals()["Vertex"] = Vertex
    eng = sa.create_engine("sqlite://", poolclass=StaticPool)
    Vertex.__table__.create(eng)
    _ENV["composite"] = (Vertex, Point, eng)
    return _ENV["composite"]


def run_composite_case(case):
    """ops on two Vertex objects; returns None or (okind, detail)"""
    import sqlalchemy as sa
    from sqlalchemy import orm

    Vertex, Point, eng = composite_env()
    t = Vertex.__table__
    with eng.begin() as c:
        c.execute(t.delete())
    sess = orm.Session(eng, autoflush=bool(case["af"]))
    objs = []
    for i, row in enumerate(case["rows"]):
        o = Vertex(id=i + 1, start=Point(row[0], row[1]), end=Point(row[2], row[3]))
        sess.add(o)
        objs.append(o)
    sess.commit()

    def rows():
        res = {}
        for r in sess.connection().execute(sa.select(t)):
            res[r.id - 1] = [r.x1, r.y1, r.x2, r.y2]
        return [res.get(i) for i in range(len(objs))]

    def mem(o):
        d = sa.inspect(o).dict
        out = []
        for k in ("start", "end"):
            v = d.get(k, Runner)
            out.append(None if v is Runner else (None if v is None else [v.x, v.y]))
        return out

    def check(where, snap=None):
        rs = rows()
        for i, o in enumerate(objs):
            m = snap[i] if snap is not None else mem(o)
            for j, part in enumerate(m):
                if part is not None and part != rs[i][2 * j : 2 * j + 2]:
                    return ("composite-stored-ne-memory", "%s: vertex %d %s in-memory %r, row %r" % (where, i, ("start", "end")[j], part, rs[i]))
        return None

    try:
        for op in case["ops"]:
            k = op["op"]
            o = objs[op.get("p", 0)]
            if k == "setx":
                getattr(o, op["a"]).x = op["v"]
            elif k == "sety":
                getattr(o, op["a"]).y = op["v"]
            elif k == "replace":
                setattr(o, op["a"], Point(op["v"], op["w"]))
            elif k == "share":
                setattr(o, op["a"], getattr(objs[op["q"]], op["b"]))
            elif k == "flush":
                snap = [mem(x) for x in objs]
                sess.flush()
                bad = check("flush", snap)
                if bad:
                    return bad
            elif k == "commit":
                snap = [mem(x) for x in objs]
                sess.commit()
                bad = check("commit", snap)
                if bad:
                    return bad
            elif k == "rollback":
                sess.rollback()
            elif k == "exp":
                sess.expire(o)
            elif k == "ref":
                sess.refresh(o)
            elif k == "pik":
                p = op["p"]
                before = [[getattr(o, a).x, getattr(o, a).y] for a in ("start", "end")]
                sess.expunge(o)
                o2 = pickle.loads(pickle.dumps(o))
                objs[p] = o2
                del o
                gc.collect()
                sess.add(o2)
                after = [[getattr(o2, a).x, getattr(o2, a).y] for a in ("start", "end")]
                if before != after:
                    return ("composite-pickle-changed-value", "vertex %d %r -> %r" % (p, before, after))
            elif k == "merge":
                p = op["p"]
                before = [[getattr(o, a).x, getattr(o, a).y] for a in ("start", "end")]
                sess.expunge(o)
                o2 = pickle.loads(pickle.dumps(o))
                del o
                gc.collect()
                objs[p] = sess.merge(o2)
                after = [[getattr(objs[p], a).x, getattr(objs[p], a).y] for a in ("start", "end")]
                if before != after:
                    m = objs[p]
                    cols = [[m.x1, m.y1], [m.x2, m.y2]]
                    if cols == before:
                        return ("composite-stale-after-merge", "vertex %d: merge copied the columns %r but the composite objects still read %r" % (p, cols, after))
                    return ("composite-merge-changed-value", "vertex %d %r -> %r" % (p, before, after))
        snap = [[[getattr(x, a).x, getattr(x, a).y] for a in ("start", "end")] for x in objs]
        sess.flush()
        bad = check("final flush", snap)
        if bad:
            return bad
        sess.commit()
        for i, x in enumerate(objs):
            now = [[getattr(x, a).x, getattr(x, a).y] for a in ("start", "end")]
            if now != snap[i]:
                return ("composite-reload-ne-memory", "vertex %d %r before commit, %r reloaded" % (i, snap[i], now))
        return None
    finally:
        sess.rollback()
        sess.close()


def gen_composite_case(rng, maxops):
    n = rng.choice([1, 2])
    case = {"composite": True, "af": rng.random() < 0.6, "rows": [[rng.randint(0, 5) for _ in range(4)] for _ in range(n)], "ops": []}
    for _ in range(rng.randint(2, maxops)):
        p = rng.randrange(n)
        a = rng.choice(["start", "end"])
        c = rng.random()
        if c < 0.45:
            case["ops"].append({"op": rng.choice(["setx", "sety"]), "p": p, "a": a, "v": rng.randint(0, 9)})
        elif c < 0.55:
            case["ops"].append({"op": "replace", "p": p, "a": a, "v": rng.randint(0, 9), "w": rng.randint(0, 9)})
        elif c < 0.60:
            # sharing one Point between attributes / parents is not generated: `_parents` maps a
            # state to a single key and flush rebuilds composites without unlinking the old
            # object (witness SAME_PARENT_TWO_KEYS below)
            case["ops"].append({"op": "replace", "p": p, "a": a, "v": rng.randint(0, 9), "w": rng.randint(0, 9)})
        elif c < 0.72:
            case["ops"].append({"op": "flush"})
        elif c < 0.80:
            case["ops"].append({"op": "commit"})
        elif c < 0.83:
            case["ops"].append({"op": "rollback"})
        elif c < 0.88:
            case["ops"].append({"op": "exp", "p": p})
        elif c < 0.92:
            case["ops"].append({"op": "ref", "p": p})
        elif c < 0.96:
            case["ops"].append({"op": "pik", "p": p})
        else:
            case["ops"].append({"op": "merge", "p": p})
    return case


def run_merge_case(case):
    """Mutable scalar + Session.merge (not in the model): returns None or (okind, detail)"""
    from sqlalchemy import orm
    import sqlalchemy as sa

    kind = case["kind"]
    cls, eng, mcls = env(kind, case["coltype"])
    t = cls.__table__
    with eng.begin() as c:
        c.execute(t.delete())
    sess = orm.Session(eng, autoflush=bool(case["af"]))
    o = cls(id=1, data=to_py(kind, case["rows"][0]), other=0)
    sess.add(o)
    sess.commit()

    def row():
        return canon(kind, sess.connection().execute(sa.select(t.c.data)).scalar())

    try:
        for op in case["ops"]:
            k = op["op"]
            if k == "mut":
                v = o.data
                if v is None:
                    continue
                before = canon(kind, v)
                try:
                    getattr(v, op["m"])(*[dec_arg(kind, a) for a in op.get("args", [])], **op.get("kw", {}))
                except Exception:
                    pass
                if canon(kind, v) != before and o not in sess.dirty:
                    return ("merge-unmarked", "%s.%s after %s left the parent unmarked" % (kind, op["m"], case["ops"]))
            elif k in ("merge", "merge_noload", "merge_detached"):
                mem = canon(kind, o.data)
                if k == "merge":
                    # pickled copy merged onto the persistent instance still in the session
                    copy = pickle.loads(pickle.dumps(o))
                    o2 = sess.merge(copy)
                    if o2 is not o:
                        return ("merge-identity", "merge returned a different instance")
                elif k == "merge_detached":
                    sess.expunge(o)
                    copy = pickle.loads(pickle.dumps(o))
                    del o
                    gc.collect()
                    o = sess.merge(copy)
                else:
                    sess.commit()
                    mem = canon(kind, o.data)
                    sess.expunge(o)
                    copy = pickle.loads(pickle.dumps(o))
                    del o
                    gc.collect()
                    o = sess.merge(copy, load=False)
                if canon(kind, o.data) != mem:
                    return ("merge-changed-value", "%r before %s, %r after" % (mem, k, canon(kind, o.data)))
            elif k == "flush":
                mem = canon(kind, o.data)
                sess.flush()
                if row() != mem:
                    return ("merge-stored-ne-memory", "after flush in-memory %r, row %r" % (mem, row()))
            elif k == "commit":
                mem = canon(kind, o.data)
                sess.commit()
                if row() != mem:
                    return ("merge-stored-ne-memory", "after commit in-memory %r, row %r" % (mem, row()))
        mem = canon(kind, o.data)
        sess.flush()
        if row() != mem:
            return ("merge-stored-ne-memory", "after final flush in-memory %r, row %r" % (mem, row()))
        return None
    finally:
        sess.rollback()
        sess.close()


def gen_merge_case(rng, maxops):
    kind = rng.choice(KINDS)
    case = {"merge": True, "kind": kind, "coltype": rng.choice(COLTYPES[kind]), "af": rng.random() < 0.6, "rows": [rand_content(rng, kind)], "ops": []}
    shadow = to_py(kind, case["rows"][0])
    for _ in range(rng.randint(2, maxops)):
        c = rng.random()
        if c < 0.5:
            m = gen_mutator(rng, kind, shadow)
            try:
                getattr(shadow, m["m"])(*[dec_arg(kind, a) for a in m.get("args", [])], **m.get("kw", {}))
            except Exception:
                pass
            case["ops"].append(dict(m, op="mut"))
        elif c < 0.8:
            case["ops"].append({"op": rng.choice(["merge", "merge_noload", "merge_detached"])})
        elif c < 0.92:
            case["ops"].append({"op": "flush"})
        else:
            case["ops"].append({"op": "commit"})
    return case


# `value._parents` is keyed by parent state only: one value assigned to two attributes of the
# same parent is tracked under the last key only
SAME_PARENT_TWO_KEYS = {
    "composite": True, "af": False, "rows": [[2, 5, 3, 0]],
    "ops": [{"op": "setx", "p": 0, "a": "start", "v": 7}, {"op": "flush"}, {"op": "share", "p": 0, "a": "end", "q": 0, "b": "start"},
            {"op": "setx", "p": 0, "a": "end", "v": 8}],
}


def run_aux(ctx, n_comp, n_merge, maxops):
    bad = run_composite_case(SAME_PARENT_TWO_KEYS)
    ctx.case(SAME_PARENT_TWO_KEYS, nontrivial=True)
    if bad:
        ctx.violation("c49:one-value-two-attributes-of-one-parent", SAME_PARENT_TWO_KEYS, bad[1])
    for _ in range(n_comp):
        case = gen_composite_case(ctx.rng, maxops)
        bad = run_composite_case(case)
        ctx.case(case, nontrivial=True)
        ctx.count("stream=composite")
        if bad:
            ctx.violation("c49:" + bad[0], case, bad[1])
    for _ in range(n_merge):
        case = gen_merge_case(ctx.rng, maxops)
        bad = run_merge_case(case)
        ctx.case(case, nontrivial=True)
        ctx.count("stream=merge")
        if bad:
            ctx.violation("c49:" + bad[0], case, bad[1])


# ---------------------------------------------------------------------------------------
# entry points
# ---------------------------------------------------------------------------------------
def directed_cases(rows_tbl):
    """one tiny sequence per (kind, method) of the table: call it with arguments that change
    the content, then flush — a missing changed() cannot hide"""
    battery = {
        "list": [
            ("append", [4]), ("extend", [{"L": [4, 5]}]), ("insert", [0, 4]), ("pop", []), ("remove", [1]), ("clear", []), ("sort", []),
            ("reverse", []), ("__setitem__", [0, 5]), ("__setitem__", [{"sl": [0, 1, None]}, {"L": [5, 5]}]), ("__delitem__", [0]),
            ("__delitem__", [{"sl": [0, 2, None]}]), ("__iadd__", [{"L": [4]}]), ("__imul__", [2]),
        ],
        "dict": [
            ("__setitem__", [{"K": 4}, 1]), ("__delitem__", [{"K": 0}]), ("setdefault", [{"K": 4}, 1]), ("setdefault", [{"K": 5}]), ("update", [{"D": [[4, 1]]}]),
            ("update", [{"P": [[4, 1]]}]), ("pop", [{"K": 0}]), ("pop", [{"K": 0}, 0]), ("popitem", []), ("clear", []), ("__ior__", [{"D": [[4, 1]]}]),
        ],
        "set": [
            ("add", [7]), ("remove", [1]), ("discard", [1]), ("pop", []), ("clear", []), ("update", [{"S": [7]}]), ("intersection_update", [{"S": [1]}]),
            ("difference_update", [{"S": [1]}]), ("symmetric_difference_update", [{"S": [1, 7]}]), ("__ior__", [{"S": [7]}]), ("__iand__", [{"S": [1]}]),
            ("__ixor__", [{"S": [1, 7]}]), ("__isub__", [{"S": [1]}]),
        ],
    }
    init = {"list": [3, 1, 2], "dict": [0, 1, 1, 2], "set": [1, 2, 3]}
    for kind in KINDS:
        for coltype in COLTYPES[kind]:
            for m, args in battery[kind]:
                for pre in ([], [{"op": "commit"}], [{"op": "pik", "p": 0}], [{"op": "ref", "p": 0}], [{"op": "setp", "p": 0, "c": init[kind]}, {"op": "flush"}]):
                    yield {"kind": kind, "coltype": coltype, "af": True, "rows": [init[kind]], "stream": "directed",
                           "ops": pre + [{"op": "mut", "p": 0, "m": m, "args": args}, {"op": "flush"}]}


def orm_replaced_cases():
    """the value of a loaded, unmodified attribute is replaced by ORM machinery, then mutated in
    place, then flushed"""
    init = {"list": [3, 1, 2], "dict": [0, 1, 1, 2], "set": [1, 2, 3]}
    new = {"list": [5, 5], "dict": [2, 4], "set": [4, 6]}
    mut = {"list": ("append", [4]), "dict": ("__setitem__", [{"K": 5}, 1]), "set": ("add", [7])}
    for kind in KINDS:
        for coltype in COLTYPES[kind]:
            for af in (True, False):
                for rep in (
                    {"op": "bulkpk", "p": 0, "c": new[kind]},
                    {"op": "updw", "p": 0, "c": new[kind], "sync": "evaluate"},
                    {"op": "updw", "p": 0, "c": new[kind], "sync": "fetch"},
                    {"op": "ref", "p": 0},
                    {"op": "ref", "p": 0, "attr": True},
                    {"op": "popex"},
                    {"op": "merge", "p": 0, "c": new[kind]},
                    {"op": "refq", "p": 0},
                ):
                    m, args = mut[kind]
                    yield {"kind": kind, "coltype": coltype, "af": af, "rows": [init[kind], init[kind]], "stream": "directed",
                           "ops": [{"op": "acc", "p": 0}, {"op": "acc", "p": 1}, rep, {"op": "mut", "p": 0, "m": m, "args": args}, {"op": "flush"},
                                   {"op": "mut", "p": 0, "m": m, "args": args}, {"op": "commit"}]}


# the witness sequences of Props/C49.lean *_counterexample theorems
WITNESSES = {
    "partial_exception_counterexample": {
        "kind": "list", "coltype": "pickle", "af": False, "rows": [[1]],
        "ops": [{"op": "mut", "p": 0, "m": "extend", "args": [{"G": [2]}]}],
    },
    "committed_alias_counterexample": {
        "kind": "list", "coltype": "pickle", "af": False, "rows": [[1]],
        "ops": [{"op": "hold", "p": 0, "h": 0}, {"op": "setp", "p": 0, "c": [1, 2]}, {"op": "mutv", "h": 0, "m": "append", "args": [2]}],
    },
    "shared_alias_counterexample": {
        "kind": "list", "coltype": "pickle", "af": False, "rows": [[1], [7]],
        "ops": [{"op": "hold", "p": 1, "h": 0}, {"op": "setv", "p": 0, "h": 0}, {"op": "flush"}, {"op": "setp", "p": 0, "c": [7, 2]},
                {"op": "mut", "p": 1, "m": "append", "args": [2]}],
    },
    "expired_coholder_counterexample": {
        "kind": "list", "coltype": "pickle", "af": False, "rows": [[1], [7]],
        "ops": [{"op": "hold", "p": 0, "h": 0}, {"op": "setv", "p": 1, "h": 0}, {"op": "flush"}, {"op": "exp", "p": 0, "attr": False},
                {"op": "mut", "p": 1, "m": "append", "args": [2]}],
    },
}


def run(ctx, deep=False):
    thorough = ctx.tier == "thorough" or deep
    ctx.rule = (
        "adaptive operation sequences (3..%d ops) on 1-3 persistent parents of one mapped class per case (MutableList on PickleType/JSON, "
        "MutableDict on JSON/PickleType, MutableSet on PickleType), ops: every mutator of the method table with valid and cleanly-failing arguments, "
        "attribute replacement by plain value / None / held Mutable object (sharing), flush, commit, rollback, expire, refresh (object / attribute / "
        "other attribute), pickle round trip, expunge+get; main stream respects the theorem's guards, exc stream (exceptions after partial mutation) and "
        "stale stream (stale references, expired co-holders, aliasing) do not; plus a directed battery per table row, MutableComposite and Session.merge sequences (oracle only); "
        "non-trivial = at least 2 operations" % (30 if thorough else 16)
    )
    ctx.trusted.append("builtin list/dict/set semantics are not modelled: the content after each call is read from the real object and passed to the model")
    ctx.trusted.append("MutableComposite and Session.merge: direct oracle only, not part of the Lean model")
    ctx.trusted.append("SQLite in-memory with PickleType / JSON columns is the only backend executed")
    cases, impl_out, reqs = [], [], []
    # table spot check against the live classes (translator is trusted; this is its mitigation)
    from sqlalchemy.ext import mutable as M

    for kind, m, mutates, overridden, tracked in method_table():
        mcls = {"list": M.MutableList, "dict": M.MutableDict, "set": M.MutableSet}[kind]
        ctx.count("table:%s rows" % kind)
        if overridden != (m in mcls.__dict__):
            ctx.obligation("table row %s.%s overridden flag" % (kind, m), False, "translator disagrees with class __dict__")
    for case in itertools.chain(directed_cases(None), orm_replaced_cases()):
        R = replay_case(case)
        try:
            ctx.case(case, nontrivial=True)
            ctx.count("stream=directed")
            if R.violations:
                report(ctx, case, R)
            cases.append(case)
            impl_out.append("|".join(R.obs))
            reqs.append(model_line(case, R))
        finally:
            R.close()
    run_stream(ctx, "main", 2500 if thorough else 350, 30 if thorough else 16, cases, impl_out, reqs)
    run_stream(ctx, "exc", 600 if thorough else 60, 16 if thorough else 10, cases, impl_out, reqs)
    run_stream(ctx, "stale", 2500 if thorough else 250, 24 if thorough else 14, cases, impl_out, reqs)
    # witnesses of the Lean counterexample theorems, replayed on the real code
    for name, case in WITNESSES.items():
        case = dict(case, stream="witness")
        R = replay_case(case)
        try:
            ctx.case(case, nontrivial=True)
            ctx.count("stream=witness")
            ctx.obligation("witness %s reproduces on the real code" % name, bool(R.violations), "Props.C49.%s predicts a lost update; the real code did not lose it" % name)
            if R.violations:
                report(ctx, case, R)
            cases.append(case)
            impl_out.append("|".join(R.obs))
            reqs.append(model_line(case, R))
        finally:
            R.close()
    run_aux(ctx, 600 if thorough else 80, 600 if thorough else 80, 14 if thorough else 8)
    # malformed requests must be rejected by the model driver
    if ctx.driver_ok():
        bad = ["mutable run list 1 1 e mut:0:frobnicate:e:0", "mutable run bag 1 1 e -", "mutable run list 1 2 e -", "mutable run list 1 1 e setv:0"]
        ctx.correspond("corr/c49:malformed-rejected", [{"line": l} for l in bad], ["bad-op"] * len(bad), ctx.driver(bad))
        ctx.correspond("corr/c49:state.dict+committed_state+_parents+row-vs-Model.Mutable", cases, impl_out, ctx.driver(reqs))


def search(ctx, broken):
    sub = type(ctx)(ctx.pid, "thorough", ctx.seed + 1, ctx.level)
    run(sub, deep=True)
    ctx.violations.extend(sub.violations)


def replay(ctx, obj):
    case = obj["case"]
    if case.get("composite"):
        bad = run_composite_case(case)
        print("replay C49 composite %s -> %s" % (json.dumps(case), bad))
        return bad is not None
    if case.get("merge"):
        bad = run_merge_case(case)
        print("replay C49 merge %s -> %s" % (json.dumps(case), bad))
        return bad is not None
    R = replay_case(case)
    try:
        print("replay C49 %s" % json.dumps(case))
        for mop, o in zip(R.model_ops, R.obs):
            print("   %-28s %s" % (mop, o))
        print("oracle:", R.violations[:1] or "holds")
        return bool(R.violations)
    finally:
        R.close()
