"""C56 — upsert statements insert or update exactly as their conflict clause says.

Model:    lean/SaVerif/Model/Upsert.lean (table with unique constraints, ON CONFLICT
          clauses in order, DO NOTHING / DO UPDATE SET .. WHERE with excluded / existing /
          literal / bindparam operands; row-at-a-time and batched execution)
Theorems: lean/SaVerif/Props/C56.lean

Cases: random existing rows x parameter sets (conflicting on the primary key, on a second
unique column, on a composite unique, on several at once, or not at all; NULLs) x one to
three ON CONFLICT clauses, executed on SQLite as single execute, plain executemany,
executemany+RETURNING (insertmanyvalues batches, rows shuffled by the cursor) and
executemany+RETURNING sorted; PostgreSQL and MySQL statements are compiled and their
rendered clause structure and batch mode compared (never executed).
"""
import random
import re

PID = "C56"
LEVEL = "proof"
LEAN = ["SaVerif.Props.C56"]
META = {
    "text": "Lean theorems about the insert-or-update model, for every table, statement and parameter list: running the parameter sets in batches of any positive size (C12's chunking) gives exactly the table and RETURNING rows of running them one statement at a time provided the ON CONFLICT clause holds no bindparam() (upsert_batched_eq_rowwise); with a bindparam() in SET the batched form is wrong (upsert_bound_batched_counterexample, the reason for C12's upsert_bound_never_batched rule, issue 13130); one RETURNING slot per parameter set, in order (returning_rows_in_param_order); DO NOTHING never alters an existing row and a successful step keeps every unique constraint satisfied (do_nothing_keeps_existing, step_preserves_unique); MySQL's left-to-right ON DUPLICATE KEY assignments equal the simultaneous ones when no right-hand side reads an earlier assigned column (mysql_sequential_eq_simultaneous + counterexample). The model is validated against SQLite itself and SQLAlchemy's SQLite upsert path is tied to it by executing generated existing rows x parameter sets x clause lists (1-3 ON CONFLICT clauses, targets on primary key / unique / composite unique, excluded and table references, WHERE, literal and bound SET values) in four execution forms and comparing final table contents and RETURNING rows; an independent Python reference re-checks the property.",
    "note": "PostgreSQL and MySQL/MariaDB never execute: their statements are compiled with the real dialects and the rendered conflict target / SET list / WHERE / VALUES()-vs-alias form and the insertmanyvalues mode are compared with the abstract statement (PG/MySQL semantics themselves are the documented ones). Partial-index targets (index_where) and constraint names are rendered-only. SQLite's choice among several simultaneously violated constraints is modelled as 'first ON CONFLICT clause in the order written' (its documentation) and validated by the correspondence.",
    "technique": "Lean 4 proofs by induction over the parameter list / batch list of an executable insert-or-update semantics + differential execution on SQLite",
    "design_ref": "DESIGN.md §3 C56",
}

COLS = ["k", "u", "a", "b"]
# a unique index is [columns, columns its partial-index predicate requires NOT NULL]
UNIQUE_SETS = [
    [[[0], []]],
    [[[0], []], [[1], []]],
    [[[0], []], [[2, 3], []]],
    [[[0], []], [[1], []], [[2, 3], []]],
    [[[0], []], [[1], [2]]],          # CREATE UNIQUE INDEX .. ON t (u) WHERE a IS NOT NULL
    [[[0], []], [[1], [2]], [[2, 3], []]],
]


# ---------------------------------------------------------------------------- generation
def gen_expr(rng, depth=0, allow_bound=True):
    r = rng.random()
    if depth < 2 and r < 0.25:
        return ["+", gen_expr(rng, depth + 1, allow_bound), gen_expr(rng, depth + 1, allow_bound)]
    if r < 0.45:
        return ["e", rng.randrange(4)]
    if r < 0.65:
        return ["o", rng.randrange(4)]
    if r < 0.78 and allow_bound:
        return ["b", rng.randrange(2)]
    return ["k", rng.choice([None, 0, 1, 7, -2, 50])]


def gen_operand(rng, allow_bound):
    """operand of a comparison: SQLAlchemy turns `x != None` into IS NOT NULL and refuses
    `x < None`, so a bare NULL literal is not generated here (nested NULLs are)"""
    while True:
        e = gen_expr(rng, 1, allow_bound)
        if e != ["k", None]:
            return e


def gen_cond(rng, allow_bound):
    r = rng.random()
    if r < 0.5:
        return ["T"]
    if r < 0.7:
        return ["<", gen_operand(rng, allow_bound), gen_operand(rng, allow_bound)]
    if r < 0.9:
        return ["!", gen_operand(rng, allow_bound), gen_operand(rng, allow_bound)]
    return ["0", gen_operand(rng, allow_bound)]


def gen_action(rng, allow_bound):
    if rng.random() < 0.35:
        return ["N"]
    cols = rng.sample([1, 2, 3, 2, 3, 0], rng.choice([1, 1, 2, 3]))
    seen, assigns = set(), []
    for c in cols:
        if c not in seen:
            seen.add(c)
            assigns.append([c, gen_expr(rng, 0, allow_bound)])
    return ["U", assigns, gen_cond(rng, allow_bound)]


def gen_case(rng, tier):
    uniques = rng.choice(UNIQUE_SETS)
    allow_bound = rng.random() < 0.35
    nclauses = rng.choice([1, 1, 1, 2, 2, 3])
    targets = rng.sample(uniques, min(nclauses, len(uniques)))
    clauses = []
    for i, t in enumerate(targets):
        clauses.append({"target": t, "action": gen_action(rng, allow_bound)})
    if rng.random() < 0.3:
        # a final catch-all clause without conflict target (DO NOTHING only)
        if len(clauses) == len(uniques) or rng.random() < 0.5:
            clauses = clauses[:-1]
        clauses.append({"target": None, "action": ["N"]})
    npre = rng.choice([0, 1, 2, 3, 4])
    n = rng.choice([1, 2, 3, 3, 4, 5, 6] + ([9, 14] if tier == "thorough" else []))
    form = rng.choice(["single", "rows", "rows", "ret", "ret", "retsort", "retsort"])
    if form == "single":
        n = 1

    def row(kpool):
        return [rng.choice(kpool), rng.choice([None, 10, 20, 30, 40]), rng.choice([None, 1, 2]), rng.choice([1, 2, 3])]

    table = []
    for i in range(npre):
        for _ in range(20):
            r = row(range(1, 6))
            if not any(_conflicts(u, r, e) for u in uniques for e in table):
                table.append(r)
                break
    params = []
    for i in range(n):
        r = row(range(1, 9))
        params.append({"row": r, "binds": [rng.choice([None, 100, 200, 300]), rng.choice([5, 6])]})
    return {
        "uniques": uniques,
        "clauses": clauses,
        "table": table,
        "params": params,
        "form": form,
        "page": rng.choice([1, 2, 3, 1000]),
        "paramstyle": rng.choice(["qmark", "qmark", "named", "numeric"]),
        # type of the data columns a, b: plain Integer, or a TypeDecorator defining
        # bind_expression() / column_expression() (value preserving: x + 0)
        "coltype": rng.choice(["int", "int", "bindexpr", "colexpr", "both"]),
        # type given to bindparam() objects placed in SET / WHERE: Integer, none (takes the
        # column's type), or the decorated type itself
        "bptype": rng.choice(["int", "none", "none", "decorated"]),
        "seed": rng.randrange(1 << 30),
    }


# ---------------------------------------------------------------------------- reference semantics
def _conflicts(u, a, b):
    cols, nn = u
    return all(a[c] is not None and b[c] is not None and a[c] == b[c] for c in cols) and all(a[c] is not None and b[c] is not None for c in nn)


def _eval(e, old, new, binds):
    t = e[0]
    if t == "k":
        return e[1]
    if t == "e":
        return new[e[1]]
    if t == "o":
        return old[e[1]]
    if t == "b":
        return binds[e[1]]
    x, y = _eval(e[1], old, new, binds), _eval(e[2], old, new, binds)
    return None if x is None or y is None else x + y


def _holds(w, old, new, binds):
    if w[0] == "T":
        return True
    if w[0] == "0":
        return _eval(w[1], old, new, binds) is None
    x, y = _eval(w[1], old, new, binds), _eval(w[2], old, new, binds)
    if x is None or y is None:
        return False
    return x < y if w[0] == "<" else x != y


def reference(case):
    """insert-or-update, one parameter set after the other.  -> (table, outs) or 'err'"""
    uniques, clauses = case["uniques"], case["clauses"]
    tbl = [list(r) for r in case["table"]]
    outs = []
    for p in case["params"]:
        r, binds = list(p["row"]), p["binds"]
        viol = [u for u in uniques if any(_conflicts(u, r, e) for e in tbl)]
        if not viol:
            tbl.append(r)
            outs.append(list(r))
            continue
        cl = next((c for c in clauses if c["target"] is None or c["target"] in viol), None)
        if cl is None:
            return "err"
        if cl["action"][0] == "N":
            outs.append(None)
            continue
        u = cl["target"] if cl["target"] is not None else viol[0]
        i = next(j for j, e in enumerate(tbl) if _conflicts(u, r, e))
        old = tbl[i]
        _, assigns, w = cl["action"]
        if not _holds(w, old, r, binds):
            outs.append(None)
            continue
        new = list(old)
        for c, e in assigns:
            new[c] = _eval(e, old, r, binds)
        if any(_conflicts(uu, new, e) for uu in uniques for j, e in enumerate(tbl) if j != i):
            return "err"
        if new[0] is None:
            return "err"  # NOT NULL primary key
        tbl[i] = new
        outs.append(list(new))
    return tbl, outs


# ---------------------------------------------------------------------------- building statements
def sa_expr(e, t, ins, bp):
    import sqlalchemy as sa

    k = e[0]
    if k == "k":
        return sa.null() if e[1] is None else sa.literal(e[1])
    if k == "e":
        return ins.excluded[COLS[e[1]]]
    if k == "o":
        return t.c[COLS[e[1]]]
    if k == "b":
        return bp(e[1])
    return sa_expr(e[1], t, ins, bp) + sa_expr(e[2], t, ins, bp)


def sa_cond(w, t, ins, bp):
    if w[0] == "T":
        return None
    if w[0] == "0":
        return sa_expr(w[1], t, ins, bp).is_(None)
    a, b = sa_expr(w[1], t, ins, bp), sa_expr(w[2], t, ins, bp)
    return a < b if w[0] == "<" else a != b


def decorated_type(kind):
    from harness.lib_dml import decorated_type as dt

    return dt(kind)


def make_table(uniques, coltype="int"):
    from sqlalchemy import Column, Index, Integer, MetaData, Table, UniqueConstraint

    DT = decorated_type(coltype)
    m = MetaData()
    extra = []
    partial = []
    for u in uniques:
        cols, nn = u
        if nn:
            partial.append(u)
        elif cols != [0]:
            extra.append(UniqueConstraint(*[COLS[c] for c in cols], name="uq_" + "_".join(COLS[c] for c in cols)))
    t = Table("t", m, Column("k", Integer, primary_key=True, autoincrement=False), Column("u", Integer), Column("a", DT), Column("b", DT), *extra)
    for cols, nn in partial:
        pred = None
        for c in nn:
            e = t.c[COLS[c]].is_not(None)
            pred = e if pred is None else (pred & e)
        Index("ix_part_" + "_".join(COLS[c] for c in cols), *[t.c[COLS[c]] for c in cols], unique=True, sqlite_where=pred, postgresql_where=pred)
    return m, t


def target_args(cl, t):
    """index_elements / index_where for a clause target"""
    if cl["target"] is None:
        return None, None
    cols, nn = cl["target"]
    pred = None
    for c in nn:
        e = t.c[COLS[c]].is_not(None)
        pred = e if pred is None else (pred & e)
    return [t.c[COLS[c]] for c in cols], pred


def build_stmt(case, t, flavour):
    """flavour: module with insert() offering on_conflict_* (sqlite / postgresql)"""
    import sqlalchemy as sa

    ins = flavour.insert(t)

    bpt = case.get("bptype", "int")

    def bp(i):
        if bpt == "none":
            return sa.bindparam("bp%d" % i)
        if bpt == "decorated":
            return sa.bindparam("bp%d" % i, type_=decorated_type("bindexpr" if case.get("coltype", "int") == "int" else case["coltype"]))
        return sa.bindparam("bp%d" % i, type_=sa.Integer)

    for cl in case["clauses"]:
        tgt, iw = target_args(cl, t)
        act = cl["action"]
        if act[0] == "N":
            ins = ins.on_conflict_do_nothing(index_elements=tgt, index_where=iw)
        else:
            set_ = {COLS[c]: sa_expr(e, t, ins, bp) for c, e in act[1]}
            ins = ins.on_conflict_do_update(index_elements=tgt, index_where=iw, set_=set_, where=sa_cond(act[2], t, ins, bp))
    return ins


def uses_bound(case):
    def eb(e):
        return e[0] == "b" or (e[0] == "+" and (eb(e[1]) or eb(e[2])))

    for cl in case["clauses"]:
        a = cl["action"]
        if a[0] == "U":
            if any(eb(e) for _, e in a[1]):
                return True
            w = a[2]
            if any(eb(x) for x in w[1:]):
                return True
    return False


F20 = "executemany-upsert-bindparam-in-where-only-batched"


def bound_where_only(case):
    """input predicate of finding F20: a bindparam() in a DO UPDATE .. WHERE but in no SET"""

    def eb(e):
        return e[0] == "b" or (e[0] == "+" and (eb(e[1]) or eb(e[2])))

    in_set = in_where = False
    for cl in case["clauses"]:
        a = cl["action"]
        if a[0] == "U":
            in_set = in_set or any(eb(e) for _, e in a[1])
            in_where = in_where or any(eb(x) for x in a[2][1:])
    return in_where and not in_set


def classify(case, key):
    if bound_where_only(case):
        if len(case["params"]) > 1 and key in ("c56-table-state", "c56-returning-rows", "c56-constraint-violation-accepted", "c56-exception:IntegrityError") and case["form"] == "ret":
            return F20
        if key in ("c56-pg-has-upsert-bound-flag", "c56-pg-bound-upsert-batched"):
            return F20
    return None


def run_case(case):
    import sqlalchemy as sa
    from sqlalchemy.dialects import sqlite as sqlite_d

    from harness.lib_dml import exc_enum, make_engine

    eng, hub = make_engine(case["paramstyle"], insertmanyvalues_page_size=case["page"])
    rng = random.Random(case["seed"])

    def adversary(stmt, rows):
        rows = list(rows)
        rng.shuffle(rows)
        return rows

    m, t = make_table(case["uniques"], case.get("coltype", "int"))
    m.create_all(eng)
    with eng.begin() as c:
        for r in case["table"]:
            c.execute(sa.insert(t), dict(zip(COLS, r)))
    hub.reset()
    hub.adversary = adversary
    stmt = build_stmt(case, t, sqlite_d)
    form = case["form"]
    if form in ("ret", "retsort"):
        stmt = stmt.returning(t.c.k, t.c.u, t.c.a, t.c.b, sort_by_parameter_order=(form == "retsort"))
    bound = uses_bound(case)
    params = []
    for p in case["params"]:
        d = dict(zip(COLS, p["row"]))
        if bound:
            d["bp0"], d["bp1"] = p["binds"]
        params.append(d)
    obs = {"case": case, "exc": None, "ret": None}
    try:
        with eng.begin() as c:
            if form == "single":
                c.execute(stmt, params[0])
            else:
                res = c.execute(stmt, params)
                if form in ("ret", "retsort"):
                    obs["ret"] = [list(r) for r in res.all()]
    except Exception as e:  # noqa: BLE001
        obs["exc"] = exc_enum(e)
        obs["exc_text"] = "%s: %s" % (type(e).__name__, str(e)[:300])
    hub.adversary = None
    with eng.connect() as c:
        obs["table"] = [list(r) for r in c.execute(sa.select(t.c.k, t.c.u, t.c.a, t.c.b).order_by(t.c.k))]
    obs["imv"] = [(len(rec["batches"]), [len(b.batch) for b in rec["batches"]], bool(rec["batches"] and rec["batches"][0].is_downgraded)) for rec in hub.imv]
    obs["nstmts"] = len(hub.log)
    eng.dispose()
    return obs


# ---------------------------------------------------------------------------- oracle
def oracle(obs):
    case = obs["case"]
    ref = reference(case)
    if ref == "err":
        if obs["exc"] is None:
            return ("c56-constraint-violation-accepted", "reference predicts a constraint error, execution succeeded with table %s" % obs["table"])
        if obs["exc"] != "IntegrityError":
            return ("c56-exception:" + obs["exc"].split(":")[0], "expected IntegrityError, got %s" % obs.get("exc_text"))
        if sorted(obs["table"], key=repr) != sorted(case["table"], key=repr):
            return ("c56-table-after-error", "table changed although the statement failed: %s" % obs["table"])
        return None
    tbl, outs = ref
    if obs["exc"] is not None:
        return ("c56-exception:" + obs["exc"].split(":")[0], "unexpected %s" % obs.get("exc_text"))
    if sorted(obs["table"], key=repr) != sorted(tbl, key=repr):
        return ("c56-table-state", "table after upsert %s, insert-or-update model predicts %s" % (sorted(obs["table"], key=repr), sorted(tbl, key=repr)))
    if obs["ret"] is not None:
        want = [o for o in outs if o is not None]
        if case["form"] == "retsort":
            if obs["ret"] != want:
                return ("c56-returning-order", "RETURNING rows %s, affected rows in parameter order %s" % (obs["ret"], want))
        elif sorted(obs["ret"], key=repr) != sorted(want, key=repr):
            return ("c56-returning-rows", "RETURNING rows %s, affected rows %s" % (obs["ret"], want))
    return None


# ---------------------------------------------------------------------------- encoding for the driver
def enc_expr(e):
    if e[0] == "+":
        return enc_expr(e[1]) + "_" + enc_expr(e[2]) + "_+"
    if e[0] == "k":
        return "kN" if e[1] is None else "k%d" % e[1]
    return "%s%d" % (e[0], e[1])


def enc_cond(w):
    if w[0] == "T":
        return "T"
    return ":".join([w[0]] + [enc_expr(x) for x in w[1:]])


def enc_uidx(u):
    cols, nn = u
    return ".".join(str(c) for c in cols) + ("w" + ".".join(str(c) for c in nn) if nn else "")


def enc_clause(cl):
    t = "*" if cl["target"] is None else enc_uidx(cl["target"])
    a = cl["action"]
    if a[0] == "N":
        return t + "~N"
    return t + "~U" + "&".join("%d=%s" % (c, enc_expr(e)) for c, e in a[1]) + "?" + enc_cond(a[2])


def enc_row(r):
    return ",".join("N" if v is None else str(v) for v in r) if r else "_"


def enc_case(case):
    us = "|".join(enc_uidx(u) for u in case["uniques"])
    cs = "/".join(enc_clause(c) for c in case["clauses"]) or "-"
    tb = ";".join(enc_row(r) for r in case["table"]) or "-"
    ps = ";".join(enc_row(p["row"]) + "@" + enc_row(p["binds"]) for p in case["params"])
    return us, cs, tb, ps


def corr_lines(obs):
    case = obs["case"]
    us, cs, tb, ps = enc_case(case)
    out = []
    batched = bool(obs["imv"]) and not obs["imv"][0][2] and bool(obs["imv"][0][1]) and len(set(obs["imv"][0][1][:-1])) <= 1
    if batched:
        # what the code did: one multi-VALUES statement per batch (binds of the batch's
        # first set); by upsert_batched_eq_rowwise this is the row-wise result whenever the
        # ON CONFLICT clause holds no bindparam()
        size = max(obs["imv"][0][1])
        # positional paramstyles take the non-VALUES binds from the batch's first set,
        # named ones from the first set of the whole list (base_parameters)
        cmd = "batchedfixedtbl" if case["paramstyle"] == "named" else "batchedtbl"
        req = "upsert %s %d %s %s %s %s" % (cmd, size, us, cs, tb, ps)
    else:
        req = "upsert rowstbl %s %s %s %s" % (us, cs, tb, ps)
    if obs["exc"] is None:
        tbl = ";".join(enc_row(r) for r in sorted(obs["table"], key=lambda r: r[0])) or "-"
        if obs["ret"] is not None and case["form"] == "retsort" and not batched:
            impl = "ok tbl=%s ret=%s" % (tbl, ";".join(enc_row(r) for r in obs["ret"]) or "-")
            out.append(("table+returning", impl, "upsert rowsret %s %s %s %s" % (us, cs, tb, ps)))
        else:
            out.append(("batched-table" if batched else "table", "ok tbl=%s" % tbl, req))
            if batched and not uses_bound(case):
                out.append(("table", "ok tbl=%s" % tbl, "upsert rowstbl %s %s %s %s" % (us, cs, tb, ps)))
    elif obs["exc"] == "IntegrityError":
        out.append(("batched-table" if batched else "table", "err constraint", req))
    return out


# ---------------------------------------------------------------------------- non-SQLite renderings
def check_renderings(ctx, case):
    """PostgreSQL: same construct API; MySQL: ON DUPLICATE KEY UPDATE of the first DO UPDATE
    clause.  Compare the rendered structure with the abstract statement."""
    import sqlalchemy as sa
    from sqlalchemy.dialects import mysql as mysql_d
    from sqlalchemy.dialects import postgresql as pg_d

    m, t = make_table(case["uniques"], case.get("coltype", "int"))
    # --- PostgreSQL (single ON CONFLICT clause only)
    cl = case["clauses"][0]
    if cl["target"] is not None or cl["action"][0] == "N":
        c1 = dict(case, clauses=[cl])
        try:
            stmt = build_stmt(c1, t, pg_d).returning(t.c.k, sort_by_parameter_order=True)
            comp = stmt.compile(dialect=pg_d.psycopg2.dialect(), column_keys=COLS + (["bp0", "bp1"] if uses_bound(c1) else []), for_executemany=True)
            sql = str(comp)
        except Exception as e:  # noqa: BLE001
            ctx.violation("c56-pg-compile:" + type(e).__name__, case, str(e)[:300])
            return
        ctx.count("render:postgresql")
        mt = re.search(r"ON CONFLICT(?: \(([^)]*)\))?(?: WHERE (.*?))? DO (NOTHING|UPDATE SET (.*?))(?: RETURNING|$)", sql, re.S)
        if not mt:
            ctx.violation("c56-pg-render-missing", case, sql[:300])
            return
        tgt = [x.strip() for x in mt.group(1).split(",")] if mt.group(1) else None
        want_t = None if cl["target"] is None else [COLS[c] for c in cl["target"][0]]
        if tgt != want_t:
            ctx.violation("c56-pg-render-target", case, "target %s rendered as %s in %s" % (want_t, tgt, sql[:300]))
        want_w = None if cl["target"] is None or not cl["target"][1] else " AND ".join("%s IS NOT NULL" % COLS[c] for c in cl["target"][1])
        if (mt.group(2) or None) != want_w:
            ctx.violation("c56-pg-render-index-where", case, "index_where %s rendered as %s in %s" % (want_w, mt.group(2), sql[:300]))
        if (cl["action"][0] == "N") != (mt.group(3) == "NOTHING"):
            ctx.violation("c56-pg-render-action", case, sql[:300])
        if cl["action"][0] == "U":
            body = mt.group(4)
            setpart = body.split(" WHERE ")[0]
            got_cols = [p.strip().split(" = ")[0] for p in _split_top(setpart)]
            want_cols = [COLS[c] for c in sorted(c for c, _ in cl["action"][1])]
            if got_cols != want_cols:
                ctx.violation("c56-pg-render-set", case, "SET columns %s rendered %s in %s" % (want_cols, got_cols, sql[:300]))
            if (cl["action"][2][0] != "T") != (" WHERE " in body):
                ctx.violation("c56-pg-render-where", case, sql[:300])
        # the same target given by constraint name
        if cl["target"] is not None and not cl["target"][1] and cl["target"][0] != [0]:
            cname = "uq_" + "_".join(COLS[c] for c in cl["target"][0])
            try:
                if cl["action"][0] == "N":
                    s2 = pg_d.insert(t).on_conflict_do_nothing(constraint=cname)
                else:
                    s2 = pg_d.insert(t).on_conflict_do_update(constraint=cname, set_={"a": 1})
                sql2 = " ".join(str(s2.compile(dialect=pg_d.dialect())).split())
                ctx.count("render:postgresql-constraint-name")
                if ("ON CONFLICT ON CONSTRAINT %s DO" % cname) not in sql2:
                    ctx.violation("c56-pg-render-constraint-name", case, sql2[:300])
                # and by the (named) UniqueConstraint object itself: rendered by its name
                uc = next(c_ for c_ in t.constraints if getattr(c_, "name", None) == cname)
                s3 = pg_d.insert(t).on_conflict_do_nothing(constraint=uc)
                sql3 = " ".join(str(s3.compile(dialect=pg_d.dialect())).split())
                if ("ON CONFLICT ON CONSTRAINT %s DO NOTHING" % cname) not in sql3:
                    ctx.violation("c56-pg-render-constraint-object", case, sql3[:300])
            except Exception as e:  # noqa: BLE001
                ctx.violation("c56-pg-constraint-compile:" + type(e).__name__, case, str(e)[:300])
        # batch mode for ordered RETURNING with upsert behaviours (values counter on PG)
        imv = comp._insertmanyvalues
        if imv is not None:
            d = comp.dialect
            bits = "".join("1" if b else "0" for b in (imv.is_default_expr, d.supports_default_metavalue, d.supports_multivalues_insert, True, bool(comp._result_columns), imv.sentinel_columns is not None, imv.includes_upsert_behaviors, imv.embed_values_counter, imv.has_upsert_bound_parameters))
            cps = [comp.construct_params(dict(dict(zip(COLS, p["row"])), **({"bp0": p["binds"][0], "bp1": p["binds"][1]} if uses_bound(c1) else {}))) for p in case["params"]]
            try:
                batches = list(comp._deliver_insertmanyvalues_batches(comp.string, [dict(x) for x in cps], cps, None, 3, True, None))
            except Exception as e:  # noqa: BLE001
                ctx.violation("c56-pg-plan-exception:" + type(e).__name__, case, str(e)[:200])
                return
            row_mode = all(len(b.batch) == 1 for b in batches) and (not batches or batches[0].is_downgraded)
            if imv.has_upsert_bound_parameters != uses_bound(c1):
                ctx.violation(classify(c1, "c56-pg-has-upsert-bound-flag") or "c56-pg-has-upsert-bound-flag", case, "has_upsert_bound_parameters=%s for a statement that %s bindparam() in ON CONFLICT" % (imv.has_upsert_bound_parameters, "has" if uses_bound(c1) else "has no"))
            if uses_bound(c1) and not imv.embed_values_counter and not row_mode and len(case["params"]) > 1:
                ctx.violation(classify(c1, "c56-pg-bound-upsert-batched") or "c56-pg-bound-upsert-batched", case, "bindparam() in SET but batches %s" % [len(b.batch) for b in batches])
            return ("mode", ("row1" if row_mode and batches else "batched" if batches else "row1"), "imv mode " + bits, len(case["params"]))
    return None


def check_mysql(ctx, case):
    from sqlalchemy.dialects import mysql as mysql_d

    upd = next((cl for cl in case["clauses"] if cl["action"][0] == "U"), None)
    if upd is None:
        return
    m, t = make_table(case["uniques"])
    ins = mysql_d.insert(t)
    import sqlalchemy as sa

    def bp(i):
        return sa.bindparam("bp%d" % i, type_=sa.Integer)

    class Shim:
        excluded = ins.inserted

    try:
        kw = {COLS[c]: sa_expr(e, t, Shim, bp) for c, e in upd["action"][1]}
        stmt = ins.on_duplicate_key_update(**kw)
        sql = str(stmt.compile(dialect=mysql_d.dialect()))
    except Exception as e:  # noqa: BLE001
        ctx.violation("c56-mysql-compile:" + type(e).__name__, case, str(e)[:300])
        return
    ctx.count("render:mysql")
    mt = re.search(r"ON DUPLICATE KEY UPDATE (.*)$", sql, re.S)
    if not mt:
        ctx.violation("c56-mysql-render-missing", case, sql[:300])
        return
    got_cols = [p.strip().split(" = ")[0] for p in _split_top(mt.group(1))]
    want_cols = [COLS[c] for c in sorted(c for c, _ in upd["action"][1])]  # table column order
    if got_cols != want_cols:
        ctx.violation("c56-mysql-render-set-order", case, "assignments %s rendered %s" % (want_cols, got_cols))
    # references to the proposed row use the alias / VALUES() form, never the table
    nexcl = sum(_count_excluded(e) for _, e in upd["action"][1])
    if len(re.findall(r"new\.|VALUES\(", mt.group(1))) != nexcl:
        ctx.violation("c56-mysql-render-inserted-refs", case, "%d references to the proposed row expected in %s" % (nexcl, mt.group(1)))


def _count_excluded(e):
    if e[0] == "e":
        return 1
    if e[0] == "+":
        return _count_excluded(e[1]) + _count_excluded(e[2])
    return 0


def _split_top(s):
    out, depth, cur = [], 0, ""
    for ch in s:
        if ch == "(":
            depth += 1
        elif ch == ")":
            depth -= 1
        if ch == "," and depth == 0:
            out.append(cur)
            cur = ""
        else:
            cur += ch
    out.append(cur)
    return out


class _Classifying:
    """ctx proxy: violations raised by the rendering checks go through classify()"""

    def __init__(self, ctx, case):
        self._ctx, self._case = ctx, case

    def violation(self, key, case, detail):
        self._ctx.violation(classify(self._case, key) or key, case, detail)

    def __getattr__(self, k):
        return getattr(self._ctx, k)



# ---------------------------------------------------------------------------- compiled cache: same shape, different clause content
def traverse_obligations(ctx):
    """every attribute of the conflict clause that the compiler's visit method reads is part of
    the clause's `_traverse_internals` (so it takes part in the cache key and in the extracted
    bind values)"""
    import ast
    import inspect
    import textwrap

    from sqlalchemy.dialects.mysql import base as my_base
    from sqlalchemy.dialects.mysql import dml as my_dml
    from sqlalchemy.dialects.postgresql import base as pg_base
    from sqlalchemy.dialects.postgresql import dml as pg_dml
    from sqlalchemy.dialects.sqlite import base as sl_base
    from sqlalchemy.dialects.sqlite import dml as sl_dml

    def attrs_read(fn, varnames):
        tree = ast.parse(textwrap.dedent(inspect.getsource(fn)))
        out = set()
        for node in ast.walk(tree):
            if isinstance(node, ast.Attribute) and isinstance(node.value, ast.Name) and node.value.id in varnames:
                out.add(node.attr)
        return out

    # identity markers / non-content attributes the visit methods may touch
    allowed = {"inserted_alias"}
    specs = [
        ("sqlite", sl_dml.OnConflictDoUpdate, [sl_base.SQLiteCompiler.visit_on_conflict_do_update, sl_base.SQLiteCompiler._on_conflict_target], {"clause", "on_conflict"}),
        ("sqlite", sl_dml.OnConflictDoNothing, [sl_base.SQLiteCompiler.visit_on_conflict_do_nothing, sl_base.SQLiteCompiler._on_conflict_target], {"clause", "on_conflict"}),
        ("postgresql", pg_dml.OnConflictDoUpdate, [pg_base.PGCompiler.visit_on_conflict_do_update, pg_base.PGCompiler._on_conflict_target], {"clause", "on_conflict"}),
        ("postgresql", pg_dml.OnConflictDoNothing, [pg_base.PGCompiler.visit_on_conflict_do_nothing, pg_base.PGCompiler._on_conflict_target], {"clause", "on_conflict"}),
        ("mysql", my_dml.OnDuplicateClause, [my_base.MySQLCompiler.visit_on_duplicate_key_update], {"on_duplicate"}),
    ]
    for dname, cls, fns, varnames in specs:
        read = set()
        for fn in fns:
            read |= attrs_read(fn, varnames)
        read = {a for a in read if not a.startswith("__")} - allowed
        internals = {name for name, _ in cls._traverse_internals}
        # only data attributes of the clause (those set in __init__ of the class hierarchy)
        data_attrs = set()
        for k in cls.__mro__:
            init = k.__dict__.get("__init__")
            if init is not None and k.__module__.startswith("sqlalchemy.dialects"):
                data_attrs |= attrs_read(init, {"self"})
        missing = sorted((read & data_attrs) - internals)
        ctx.obligation("traverse_internals cover %s.%s as read by the compiler" % (dname, cls.__name__), not missing, "read by visit_* but not in _traverse_internals: %s" % missing)


def cache_sequences(ctx, n):
    """upserts of the same shape with different clause content, one after the other on ONE
    engine with the default compiled cache, against a cache-less engine and the reference"""
    import sqlalchemy as sa
    from sqlalchemy.dialects import sqlite as sqlite_d

    from harness.lib_dml import exc_enum

    rng = ctx.rng
    for _ in range(n):
        uniques = [[[0], []], [[1], []]]
        variation = rng.choice(["where_literal", "where_literal", "where_shape", "set_literal", "target", "set_expr"])
        seq = []
        for _i in range(rng.choice([2, 3, 4])):
            w = rng.choice([1, 2, 3, 50])
            v = rng.choice([7, 8, 9])
            spec = {"target": [[0], []], "set": [[2, ["k", v]]], "where": ["<", ["o", 2], ["k", 2]]}
            if variation == "where_literal":
                spec["where"] = ["<", ["o", 2], ["k", w]]
            elif variation == "where_shape":
                spec["where"] = rng.choice([["<", ["o", 2], ["k", 2]], ["<", ["k", 2], ["o", 2]], ["!", ["o", 2], ["k", 2]], ["T"]])
            elif variation == "set_literal":
                spec["set"] = [[2, ["k", v]]]
                spec["where"] = ["T"]
            elif variation == "set_expr":
                spec["set"] = [[2, rng.choice([["e", 2], ["o", 3], ["+", ["o", 2], ["k", v]]])]]
                spec["where"] = ["T"]
            elif variation == "target":
                spec["target"] = rng.choice([[[0], []], [[1], []]])
                spec["where"] = ["T"]
            seq.append(spec)
        table = [[1, 10, 1, 1], [2, 20, 2, 2], [3, 30, 3, 3]]
        rows = [[rng.choice([1, 2, 3]), rng.choice([40, 50, 60]) if variation != "target" else rng.choice([10, 20, 30, 40]), rng.choice([0, 5]), 9] for _ in seq]
        if variation == "target":
            rows = [[rng.choice([1, 2, 3, 7, 8]), rng.choice([10, 20, 30, 70]), 5, 9] for _ in seq]
        case = {"cacheseq": variation, "seq": seq, "rows": rows, "table": table}
        ctx.case(("cacheseq", str(case)), nontrivial=True)
        ctx.count("cacheseq=" + variation)
        bad = run_cache_sequence(case)
        if bad:
            ctx.violation(bad[0], case, bad[1])


def run_cache_sequence(case):
    import sqlalchemy as sa
    from sqlalchemy.dialects import sqlite as sqlite_d

    from harness.lib_dml import exc_enum

    uniques = [[[0], []], [[1], []]]
    engines = [sa.create_engine("sqlite://"), sa.create_engine("sqlite://", query_cache_size=0)]
    m, t = make_table(uniques)
    states = []
    try:
        for eng in engines:
            m.create_all(eng)
            with eng.begin() as c:
                for r in case["table"]:
                    c.execute(sa.insert(t), dict(zip(COLS, r)))
        ref = [list(r) for r in case["table"]]
        for i, (spec, row) in enumerate(zip(case["seq"], case["rows"])):
            cl = {"target": spec["target"], "action": ["U", spec["set"], spec["where"]]}
            c1 = {"clauses": [cl], "uniques": uniques, "table": ref, "params": [{"row": row, "binds": [None, None]}], "bptype": "int", "coltype": "int"}
            stmt = build_stmt(c1, t, sqlite_d)
            outs = []
            for eng in engines:
                try:
                    with eng.begin() as c:
                        c.execute(stmt, dict(zip(COLS, row)))
                    outs.append("ok")
                except Exception as e:  # noqa: BLE001
                    outs.append(exc_enum(e))
                with eng.connect() as c:
                    outs.append(sorted([list(r) for r in c.execute(sa.select(t.c.k, t.c.u, t.c.a, t.c.b))]))
            r = reference(c1)
            want = sorted(ref) if r == "err" else sorted(r[0])
            if r != "err":
                ref = [list(x) for x in r[0]]
            if outs[2] != ("IntegrityError" if r == "err" else "ok") or outs[3] != want:
                return ("c56-cacheless-engine-differs-from-reference", "step %d: cache-less engine %s %s, reference %s" % (i, outs[2], outs[3], want))
            if outs[0] != outs[2] or outs[1] != outs[3]:
                return ("c56-compiled-cache-stale-clause", "step %d (%s): cached engine %s %s, cache-less engine %s %s" % (i, enc_clause(cl), outs[0], outs[1], outs[2], outs[3]))
        return None
    finally:
        for eng in engines:
            eng.dispose()


def cache_key_pairs(ctx, n):
    """PostgreSQL / MySQL (never executed): two statements differing in clause content either
    have different cache keys or the differing value is among the extracted parameters"""
    import sqlalchemy as sa
    from sqlalchemy.dialects import mysql as mysql_d
    from sqlalchemy.dialects import postgresql as pg_d

    rng = ctx.rng
    uniques = [[[0], []], [[1], []]]
    m, t = make_table(uniques)

    def distinguished(s1, s2):
        k1, k2 = s1._generate_cache_key(), s2._generate_cache_key()
        if k1 is None or k2 is None:
            return True
        if k1.key != k2.key:
            return True
        v1 = [b.value for b in k1.bindparams]
        v2 = [b.value for b in k2.bindparams]
        return v1 != v2

    for _ in range(n):
        w1, w2 = rng.sample([1, 2, 3, 50], 2)
        v1, v2 = rng.sample([7, 8, 9], 2)
        pairs = []
        ins = pg_d.insert(t)
        pairs.append(("pg-where-literal", ins.on_conflict_do_update(index_elements=[t.c.k], set_={"a": 1}, where=t.c.a < w1), ins.on_conflict_do_update(index_elements=[t.c.k], set_={"a": 1}, where=t.c.a < w2)))
        pairs.append(("pg-where-shape", ins.on_conflict_do_update(index_elements=[t.c.k], set_={"a": 1}, where=t.c.a < w1), ins.on_conflict_do_update(index_elements=[t.c.k], set_={"a": 1}, where=t.c.a > w1)))
        pairs.append(("pg-where-present", ins.on_conflict_do_update(index_elements=[t.c.k], set_={"a": 1}, where=t.c.a < w1), ins.on_conflict_do_update(index_elements=[t.c.k], set_={"a": 1})))
        pairs.append(("pg-set-literal", ins.on_conflict_do_update(index_elements=[t.c.k], set_={"a": v1}), ins.on_conflict_do_update(index_elements=[t.c.k], set_={"a": v2})))
        pairs.append(("pg-set-column", ins.on_conflict_do_update(index_elements=[t.c.k], set_={"a": v1}), ins.on_conflict_do_update(index_elements=[t.c.k], set_={"b": v1})))
        pairs.append(("pg-target", ins.on_conflict_do_update(index_elements=[t.c.k], set_={"a": v1}), ins.on_conflict_do_update(index_elements=[t.c.u], set_={"a": v1})))
        pairs.append(("pg-index-where", ins.on_conflict_do_nothing(index_elements=[t.c.u], index_where=t.c.a > w1), ins.on_conflict_do_nothing(index_elements=[t.c.u], index_where=t.c.a > w2)))
        pairs.append(("pg-constraint", ins.on_conflict_do_nothing(constraint="uq_u"), ins.on_conflict_do_nothing(constraint="uq_other")))
        mi = mysql_d.insert(t)
        pairs.append(("mysql-set-literal", mi.on_duplicate_key_update(a=v1), mi.on_duplicate_key_update(a=v2)))
        pairs.append(("mysql-set-column", mi.on_duplicate_key_update(a=v1), mi.on_duplicate_key_update(b=v1)))
        pairs.append(("mysql-set-expr", mi.on_duplicate_key_update(a=mi.inserted.a), mi.on_duplicate_key_update(a=mi.inserted.b)))
        pairs.append(("mysql-ordering", mi.on_duplicate_key_update([("a", v1), ("b", v2)]), mi.on_duplicate_key_update([("b", v2), ("a", v1)])))
        for name, s1, s2 in pairs:
            ctx.count("cachekey:" + name)
            if not distinguished(s1, s2):
                ctx.violation("c56-cache-key-ignores:" + name, {"cachekey": name}, "two statements differing in %s share cache key and extracted parameters" % name)

# ---------------------------------------------------------------------------- run
def one(ctx, case, names, cases, impl_out, reqs):
    try:
        obs = run_case(case)
    except Exception as e:  # noqa: BLE001
        import traceback

        ctx.case(("crash", case["seed"]))
        ctx.violation("c56-crash:" + type(e).__name__, case, "".join(traceback.format_exception_only(type(e), e))[:400])
        return
    ref = reference(case)
    nconf = 0 if ref == "err" else sum(1 for o, p in zip(ref[1], case["params"]) if o != p["row"])
    ctx.case({k: case[k] for k in case if k != "seed"}, nontrivial=(ref == "err" or nconf > 0))
    ctx.count("form=" + case["form"])
    ctx.count("clauses=%d" % len(case["clauses"]))
    ctx.count("bound=%s" % uses_bound(case))
    ctx.count("outcome=" + ("constraint-error" if ref == "err" else "conflicts>0" if nconf else "no-conflict"))
    ctx.count("imv=" + ("none" if not obs["imv"] else "row" if obs["imv"][0][2] else "batched"))
    why = oracle(obs)
    if why:
        ctx.violation(classify(case, why[0]) or why[0], case, why[1])
    for nm, il, ml in corr_lines(obs):
        names.append(nm)
        cases.append(case)
        impl_out.append(il)
        reqs.append(ml)
    if nconf and len(case["params"]) > 2:
        ctx.sample({"uniques": case["uniques"], "clauses": [enc_clause(c) for c in case["clauses"]], "table": case["table"], "params": [p["row"] for p in case["params"]], "after": obs["table"]})
    try:
        r = check_renderings(_Classifying(ctx, case), case)
        if r:
            names.append(r[0])
            cases.append(case)
            impl_out.append(r[1])
            reqs.append(r[2])
        check_mysql(ctx, case)
    except Exception as e:  # noqa: BLE001
        ctx.violation("c56-render-crash:" + type(e).__name__, case, repr(e)[:300])


def directed_bound_matrix():
    """always-run cases: executemany with three parameter sets hitting three existing rows,
    a value-less bindparam() in SET only / WHERE only / both, whose value differs per row and
    decides differently for the second row than for the first; every execution form,
    paramstyle, page size and bind typing"""
    table = [[1, None, 10, 1], [2, None, 10, 1], [3, None, 10, 1]]
    params = [
        {"row": [1, None, 111, 1], "binds": [7, 100]},   # WHERE 10 < 100: update
        {"row": [2, None, 222, 1], "binds": [8, 5]},     # WHERE 10 < 5: leave alone
        {"row": [3, None, 333, 1], "binds": [9, 50]},    # WHERE 10 < 50: update
        {"row": [4, None, 444, 1], "binds": [6, 0]},     # no conflict: insert
    ]
    actions = {
        "set": ["U", [[2, ["b", 0]]], ["T"]],
        "where": ["U", [[2, ["e", 2]]], ["<", ["o", 2], ["b", 1]]],
        "both": ["U", [[2, ["b", 0]]], ["<", ["o", 2], ["b", 1]]],
        "where_sum": ["U", [[3, ["+", ["o", 3], ["k", 1]]]], ["!", ["+", ["b", 1], ["k", 0]], ["k", 5]]],
    }
    out = []
    i = 0
    for place, act in actions.items():
        for form in ("rows", "ret", "retsort"):
            for paramstyle in ("qmark", "named", "numeric"):
                for page in (1000, 2, 1):
                    for coltype, bptype in (("int", "int"), ("int", "none"), ("bindexpr", "none"), ("both", "decorated")):
                        i += 1
                        out.append(
                            {
                                "directed": place,
                                "uniques": [[[0], []]],
                                "clauses": [{"target": [[0], []], "action": act}],
                                "table": table,
                                "params": params,
                                "form": form,
                                "page": page,
                                "paramstyle": paramstyle,
                                "coltype": coltype,
                                "bptype": bptype,
                                "seed": 1000 + i,
                            }
                        )
    return out


def run(ctx):
    ctx.rule = (
        "directed (always run): 432 cases = value-less bindparam() in SET only / WHERE only / both / WHERE expression x {executemany, +RETURNING, +RETURNING sorted} x 3 paramstyles x page sizes {1000, 2, 1} x 4 bind typings, three conflicting rows whose own value decides differently from the first row's; random: 4-column table with PK and 0-2 further unique constraints (single / composite), 0-4 existing rows, 1-6 (14 thorough) parameter sets with keys from a "
        "small pool (conflicts on one or several constraints, NULLs), 1-3 ON CONFLICT clauses (+ optional target-less DO NOTHING), SET/WHERE expressions over "
        "excluded / table / literal / bindparam; forms: single, executemany, executemany+RETURNING (batched, shuffled), executemany+RETURNING sorted; "
        "paramstyles qmark/named/numeric; non-trivial = at least one parameter set conflicts; distinct = distinct case"
    )
    ctx.trusted.append("SQLite 3 executes the statements; its upsert semantics are also what the Lean model is validated against")
    ctx.trusted.append("PostgreSQL / MySQL upsert semantics: documented behaviour, never executed")
    n = 900 if ctx.tier == "quick" else 10000
    names, cases, impl_out, reqs = [], [], [], []
    for case in directed_bound_matrix():
        ctx.count("directed=" + case["directed"])
        one(ctx, case, names, cases, impl_out, reqs)
    for _ in range(n):
        one(ctx, gen_case(ctx.rng, ctx.tier), names, cases, impl_out, reqs)
    traverse_obligations(ctx)
    cache_sequences(ctx, 120 if ctx.tier == "quick" else 1500)
    cache_key_pairs(ctx, 3 if ctx.tier == "quick" else 20)
    if ctx.driver_ok():
        model = ctx.driver(reqs)
        for nm in sorted(set(names)):
            idx = [i for i, x in enumerate(names) if x == nm]
            ctx.correspond("corr/c56:%s" % nm, [cases[i] for i in idx], [impl_out[i] for i in idx], [model[i] for i in idx])


def search(ctx, broken):
    sub = type(ctx)(ctx.pid, "thorough", ctx.seed + 1, ctx.level)
    for _ in range(5000):
        one(sub, gen_case(sub.rng, "thorough"), [], [], [], [])
    ctx.violations.extend(sub.violations)


def replay(ctx, obj):
    case = obj["case"]
    if isinstance(case, dict) and "cacheseq" in case:
        bad = run_cache_sequence(case)
        print("replay C56 cache sequence %s -> %s" % (case["cacheseq"], bad))
        return bool(bad)
    if isinstance(case, dict) and "cachekey" in case:
        sub = type(ctx)(ctx.pid, "quick", ctx.seed, ctx.level)
        cache_key_pairs(sub, 3)
        print("replay C56 cache key pairs -> %s" % [v["key"] for v in sub.violations])
        return bool(sub.violations)
    if obj.get("key", "").split(":")[0] in ("c56-pg-compile", "c56-pg-render-missing", "c56-pg-render-target", "c56-pg-render-action", "c56-pg-render-set", "c56-pg-render-where", "c56-pg-plan-exception", "c56-pg-has-upsert-bound-flag", "c56-pg-bound-upsert-batched", "c56-mysql-compile", "c56-mysql-render-missing", "c56-mysql-render-set-order", "c56-mysql-render-inserted-refs", "c56-render-crash"):
        sub = type(ctx)(ctx.pid, "quick", ctx.seed, ctx.level)
        try:
            check_renderings(sub, case)
            check_mysql(sub, case)
        except Exception as e:  # noqa: BLE001
            print("replay C56 rendering crashes: %r" % e)
            return True
        print("replay C56 rendering case -> %s" % [v["key"] for v in sub.violations])
        return bool(sub.violations)
    try:
        obs = run_case(case)
    except Exception as e:  # noqa: BLE001
        print("replay C56 case=%s crashes: %r" % (case, e))
        return True
    why = oracle(obs)
    print("replay C56 case=%s\n  exc=%s table=%s ret=%s\n  reference=%s\n  oracle: %s" % (case, obs["exc"], obs["table"], obs["ret"], reference(case), why))
    return why is not None
