"""C01 — rendered SQL preserves the meaning of the expression tree.

Model:      lean/SaVerif/Model/Expr.lean (construction + rendering, transcribed from
            sql/operators.py, sql/elements.py, sql/default_comparator.py, sql/compiler.py and the
            sqlite / postgresql / mysql compilers), lean/SaVerif/Model/Pratt.lean (what a backend
            does with the text: tokens, operator-precedence parser, well-bracketedness),
            lean/SaVerif/Model/ExprGrammar.lean (backend binding-power tables),
            lean/SaVerif/Gen/ExprTables.lean (REGENERATED from the working tree each run).
Theorems:   lean/SaVerif/Props/C01.lean
Ties:       translator (operator tables), corr/c01:render (model text == real compiler text on five
            dialects, type affinity included), corr/c01:sqlite-grammar (real SQLite groups a token
            sequence the way the model's sqlite grammar table says).
Oracle:     rows of executing the real statement on SQLite == rows of the independent fully
            parenthesised reference rendering of the same API-call tree.
"""
import json

PID = "C01"
LEVEL = "proof"
LEAN = ["SaVerif.Props.C01"]
META = {
    "text": "Lean, three layers. (1) Backend: a backend groups the emitted token sequence with an operator-precedence parser over its binding-power table; proved for EVERY token tree and EVERY grammar: wb g t -> parse g (print t) = t, re-association of associative chains changes neither the text nor the value (print_norm, evalG_norm), and a compositional sufficient condition ok g t -> wb g (norm t) (each node only checks that its operands bind tighter than its own binding powers). (2) SQLAlchemy: construction (self_group / is_precedent / associative flattening / and_-or_ folding / negation rewriting / AsBoolean / _between_impl) and rendering (visit_* + sqlite/postgresql/mysql overrides) are transcribed; the operator tables are REGENERATED from the working tree. End-to-end theorems api_tree_value_bool / api_tree_value_num (for every API-call tree of the fragment, every row, the three-valued value the backend computes from the emitted text IS the meaning of the tree — grouping, flattening, single-clause collapse and negation rewriting included; build_bool_eval, negate_eval, boolConstruct_eval, constructForOp_eval) and api_tree_read_back / render_meaning_preserved: for EVERY API-call tree (NumU/BoolU, any size and nesting) the element `build` constructs is in the core fragment and well grouped (build_num, build_bool: induction through _binary_operate, _boolean_compare, _construct_for_op flattening, and_/or_ _construct, _negate), and (core_render_read_back) every well-grouped element (any size/depth) over + - * % / (truediv: sqlite `l / (r + 0.0)`, postgresql `l / CAST(r AS NUMERIC)`, mysql `l / r`) // (plain `/` for Integer operands where `/` is integer division, else FLOOR(l / r)) unary-minus = != < <= > >= IS IS-NOT AND OR NOT, parentheses and BETWEEN / NOT BETWEEN over numeric trees (one ternary node; the ungrouped `lo AND hi` pair of _between_impl; PARTIAL: the cells of finding between-bound-ungrouped — a bound exposing an operator that does not bind tighter than BETWEEN — are excluded by Core), IN / NOT IN with a non-empty expanding list of literals (`x IN (v1, …)`, `(x NOT IN (…))`; the negation switches the operator of the expanding parameter; three-valued), LIKE / NOT LIKE / ILIKE / NOT ILIKE with or without ESCAPE over string-valued operands (ternary `x LIKE y ESCAPE c` nodes; `lower(x) LIKE lower(y)` outside PostgreSQL; value = the backend's LIKE, abstract in the theorems, SQLite's in the driver), string concatenation (`a || b` chains, MySQL `concat(…)`; on SQLite PARTIAL: the F1 cells — an arithmetic operator exposed under `||` — are excluded by the hypothesis ConcatSafe / CSH, PostgreSQL and MySQL unconditional) and the bracket constructs (scalar subquery, function call, CAST, searched / simple CASE: separator chains `,` AS WHEN THEN ELSE inside brackets) renders to text that SQLite / PostgreSQL / MySQL read back as the same tree, hence (core_render_meaning_preserved) evaluates to the value of the fully parenthesised text under every interpretation with associative + * AND OR; the hypothesis coreCompat (higher regenerated precedence number => binds tighter in the grammar on both sides, naturally self-precedent operators are left-associative chains) is decided by the kernel per grammar; the constructors are proved to establish well-groupedness. For ALL operator pairs (incl. concat, LIKE family, IS DISTINCT, truediv/floordiv forms) the same is decided pairwise per dialect. (3) Semantic rewrites over three-valued logic, all operands: every pair of the regenerated negation table is a true negation except is_/is_not with themselves; every operator of the regenerated _associative set is associative. Ties checked on every run: model text == real compiler text on sqlite/postgresql/mysql/mariadb/default (type affinity included; on a textual difference both texts are re-read by the model grammar), real SQLite groups tokens exactly as the model's sqlite table (also with parentheses dropped at random), construction is a pure function (in the model `build` is a function on immutable values, so extending an expression cannot change an existing one — trivially true in Lean; the tie to the real code is the DAG check: element objects SHARED between several expressions and re-used after being extended, for + * || chains, and_/or_ `&=`-style accumulation and clause lists, must still render and evaluate like the same tree built from fresh leaves), and the property itself is tested by executing the real statement on SQLite against an independent fully parenthesised reference over a table with NULLs, negatives, empty strings.",
    "note": "Known findings (partial theorems + counterexamples in Lean, exact per-tree classification by neutralising the one defective decision): sqlite-concat-parent-arith-child (F1), negate-is-general-operand, between-bound-ungrouped, asbool-operand-ungrouped. The general theorem covers the core fragment incl. subquery / CAST / coalesce / CASE (value of a CAST and of a non-coalesce function abstract: class Abs); the backend's `/` itself is abstract in the value theorems (Val has no non-integer numbers); IS DISTINCT, IN with an empty list or a tuple (C07), BETWEEN with non-numeric operands and LIKE over non-string operands are covered pairwise (depth 2) by kernel decision plus the per-tree runtime verdict (wb, reading == tree) on every generated tree. PostgreSQL/MySQL grammar tables are from documentation and NOT validated (no server); only SQLite executes. Scalar subqueries and literals are atoms; floating point + and * are treated as associative. Trusted: Lean kernel, harness, backend lexers/bracket matching (the model starts from tokens), SQLite's evaluation of fully parenthesised text.",
    "technique": "Lean 4: verified precedence-climbing parser round-trip by structural induction + decide over regenerated operator tables + transcribed constructors; differential correspondence of rendering on 5 dialects; execution oracle on SQLite",
    "design_ref": "DESIGN.md §3 C01, §2 F1",
}

KEYS = {
    "A": "sqlite-concat-parent-arith-child",
    "B": "negate-is-general-operand",
    "C": "between-bound-ungrouped",
    "D": "asbool-operand-ungrouped",
}


def gen(ctx):
    from harness import lib_expr as L

    T = L.read_tables()
    ctx.write_gen("ExprTables", L.gen_tables_lean(T))
    for p in T["problems"]:
        ctx.obligation("translator: " + p, False, p)
    ctx._c01_tables = T


# ------------------------------------------------------------------------- fixed corpus
def corpus():
    c = lambda n: ["col", n]  # noqa
    return [
        ["concat", ["add", ["li", 1], ["li", 2]], ["ls", "3"]],  # F1
        ["concat", ["ls", "3"], ["mul", c("ia"), c("ib")]],
        ["concat", ["neg", c("ia")], c("sa")],
        ["not", ["eq", c("ia"), c("ib")]],
        ["not", ["is", c("ia"), c("ib")]],
        ["not", ["and", [["eq", c("ia"), ["li", 1]], ["eq", c("ib"), ["li", 2]]]]],
        ["not", ["not", ["or", [c("ba"), c("bb")]]]],
        ["sub", c("ia"), ["sub", c("ib"), c("ic")]],
        ["add", c("ia"), ["add", c("ib"), c("ic")]],
        ["add", c("ia"), ["add", c("na"), c("ib")]],
        ["mul", ["add", c("ia"), c("ib")], c("ic")],
        ["truediv", ["mul", c("ia"), c("ib")], ["truediv", c("ia"), c("ib")]],
        ["floordiv", c("ia"), ["floordiv", c("ib"), c("ic")]],
        ["mod", ["neg", c("ia")], c("ib")],
        ["neg", ["neg", c("ia")]],
        ["between", c("ia"), ["add", c("ib"), ["li", 1]], ["eq", c("ib"), ["li", 2]]],
        ["not", ["between", c("ia"), ["li", 1], ["li", 2]]],
        ["like", c("sa"), ["add", c("sb"), ["ls", "x"]], "/"],
        ["not", ["like", c("sa"), ["ls", "a%"], None]],
        ["ilike", c("sa"), c("sb"), None],
        ["add", ["case", None, [[["eq", c("ia"), ["li", 1]], ["add", c("ib"), ["li", 1]]], [c("ba"), ["li", 3]]],
                 ["mul", c("ia"), ["li", 2]]], ["li", 1]],
        ["add", ["cast", "str", ["add", c("ia"), ["li", 1]]], ["ls", "x"]],
        ["eq", ["add", c("ia"), ["li", 1]], ["null"]],
        ["not", ["eq", ["add", c("ia"), ["li", 1]], ["null"]]],
        ["eq", c("ba"), ["true"]],
        ["and", [["isdistinct", c("ia"), c("ib")], c("ba")]],
        ["eq", ["lt", c("ia"), c("ib")], ["lt", c("ib"), c("ia")]],
        ["and", [["true"], ["eq", c("ia"), ["li", 1]]]],
        ["and", [["eq", c("ia"), ["li", 1]], ["false"], ["eq", c("ib"), ["li", 2]]]],
        ["or", [["false"], ["false"]]],
        ["or", [["eq", c("ia"), ["li", 1]], ["true"]]],
        ["not", ["true"]],
        ["not", ["neg", c("ia")]],
        ["not", ["add", c("ia"), c("ib")]],
        ["or", [["and", [c("ba"), c("bb")]], ["and", [c("ba"), ["or", [c("bb"), c("ba")]]]]]],
        ["and", [["and", [["eq", c("ia"), ["li", 1]], ["eq", c("ib"), ["li", 2]]]],
                 ["and", [["eq", c("ia"), ["li", 3]], ["eq", c("ib"), ["li", 4]]]]]],
        ["eq", c("bb"), ["not", c("ba")]],
        ["is", c("bb"), ["not", c("ba")]],
        ["gt", ["ne", c("bb"), c("ba")], ["not", c("bb")]],
        ["lt", ["or", [c("bb")]], ["eq", ["ls", "_"], c("sb")]],
        ["eq", ["not", ["li", 3]], ["not", c("ba")]],
        ["mul", ["subq", c("ia")], ["li", 2]],
        ["mul", ["coalesce", [["add", c("ia"), ["li", 1]], c("ib")]], ["li", 2]],
        ["sub", ["pi", 5], c("ia")],
        ["lt", ["pi", 5], ["add", c("ia"), ["pi", 1]]],
        ["add", ["ps", "x"], c("sa")],
        ["floordiv", ["pi", 7], ["sub", c("ia"), ["pi", 2]]],
        ["lt", c("ia"), ["true"]],  # the API raises
    ]


def leafs_for(kind):
    c = lambda n: ["col", n]  # noqa
    return {
        "int": [c("ia"), c("ib"), c("ic")],
        "str": [c("sa"), c("sb"), ["ls", "a%"]],
        "bool": [c("ba"), c("bb"), c("ba")],
    }[kind]


NODE_KINDS = (
    ["add", "sub", "mul", "truediv", "floordiv", "mod", "concat", "addstr"]
    + ["eq", "ne", "lt", "le", "gt", "ge", "is", "isnot", "isdistinct", "isnotdistinct", "isnull", "isnotnull"]
    + ["like", "notlike", "ilike", "notilike", "likeesc", "between", "notbetween"]
    + ["contains", "startswith", "endswith", "icontains", "notcontains", "notistartswith"]
    + ["and", "or", "not", "notcol", "neg", "case", "casebool", "cast", "coalesce", "and1"]
)


def mk(kind, ops):
    """a node of the given kind over operand trees `ops` (as many as needed are used)"""
    a, b, c = (ops + ops + ops)[:3]
    if kind in ("add", "sub", "mul", "truediv", "floordiv", "mod", "concat"):
        return [kind, a, b]
    if kind == "addstr":
        return ["add", a, b]
    if kind in ("eq", "ne", "lt", "le", "gt", "ge", "is", "isnot", "isdistinct", "isnotdistinct"):
        return [kind, a, b]
    if kind == "isnull":
        return ["is", a, ["null"]]
    if kind == "isnotnull":
        return ["ne", a, ["null"]]
    if kind in ("like", "notlike", "ilike", "notilike"):
        return [kind, a, b, None]
    if kind == "likeesc":
        return ["like", a, b, "/"]
    if kind in ("contains", "startswith", "endswith", "icontains"):
        return [kind, a, b, None]
    if kind == "notcontains":
        return ["not", ["contains", a, b, None]]
    if kind == "notistartswith":
        return ["not", ["istartswith", a, b, "/"]]
    if kind == "between":
        return ["between", a, b, c]
    if kind == "notbetween":
        return ["not", ["between", a, b, c]]
    if kind in ("and", "or"):
        return [kind, [a, b]]
    if kind == "and1":
        return ["and", [a]]
    if kind in ("not", "notcol"):
        return ["not", a]
    if kind == "neg":
        return ["neg", a]
    if kind == "case":
        return ["case", None, [[["col", "ba"], a]], b]
    if kind == "casebool":
        return ["case", None, [[a, ["col", "ia"]]], ["col", "ib"]]
    if kind == "cast":
        return ["cast", "int", a]
    if kind == "coalesce":
        return ["coalesce", [a, b]]
    raise ValueError(kind)


def natural_leaves(kind):
    if kind in ("concat", "addstr", "like", "notlike", "ilike", "notilike", "likeesc", "contains", "startswith",
                "endswith", "icontains", "notcontains", "notistartswith"):
        return leafs_for("str")
    if kind in ("and", "or", "not", "notcol", "casebool", "and1"):
        return leafs_for("bool")
    return leafs_for("int")


def pair_cases():
    """every (parent kind, operand position, child kind): the child is a node over column
    leaves, the remaining operands of the parent are column leaves of the parent's natural
    type (loosely typed on purpose: each cell of the precedence table gets exercised)"""
    from harness import lib_expr as L

    out = []
    for pk in NODE_KINDS:
        pl = natural_leaves(pk)
        arity = 3 if pk in ("between", "notbetween") else (1 if pk in ("not", "notcol", "neg", "cast", "isnull", "isnotnull", "casebool", "and1") else 2)
        for ck in NODE_KINDS:
            child = mk(ck, natural_leaves(ck))
            if pk == "addstr" and not L.sa_str_typed(child):
                continue  # the meaning of `+` depends on the operand types
            for pos in range(arity):
                ops = list(pl[:arity])
                ops[pos] = child
                out.append(mk(pk, ops))
    return out


# ------------------------------------------------------------------------- oracle
class Oracle:
    def __init__(self):
        from harness import lib_expr as L

        self.L = L
        self.db = L.Db()
        self.float_reassoc = 0

    def close(self):
        self.db.close()

    def build(self, u, neutral=None):
        try:
            return self.L.to_sa(u, neutral)
        except Exception as ex:  # noqa
            return "error:" + type(ex).__name__

    def evaluate(self, u):
        """-> (element|error, rendered_rows, reference_rows)"""
        e = self.build(u)
        if isinstance(e, str):
            return e, None, None
        got = self.db.run_sa(e)
        ref = self.db.run_sql(self.L.ref_sql(u))
        return e, got, ref

    def holds(self, u, neutral=None):
        L = self.L
        e = self.build(u, neutral)
        if isinstance(e, str):
            return True
        return L.same_rows(self.db.run_sa(e), self.db.run_sql(L.ref_sql(u)))

    def classify(self, u):
        """key of the known finding that alone explains the mismatch of `u`, else a generic key"""
        L = self.L
        present = L.Neutral("ABCDF")
        self.build(u, present)
        known = sorted(present.hits - {"F"})
        # (rule F, keeping float chains nested, is always allowed on top: a value that went
        #  through a float-to-text conversion is compared exactly)
        for r in known:
            if self.holds(u, L.Neutral(r + "F")):
                return KEYS[r]
        if known and self.holds(u, L.Neutral(present.hits)):
            return KEYS[known[0]]
        return "c01-rendered-vs-reference-mismatch"

    def check(self, u):
        """None if the property holds for `u` on the real code, else (key, detail)"""
        L = self.L
        e, got, ref = self.evaluate(u)
        if isinstance(e, str):
            return None
        if L.same_rows(got, ref):
            return None
        nf = L.Neutral("F")
        if self.holds(u, nf) and nf.hits:
            # the only difference is the re-association of floating point + / *
            self.float_reassoc += 1
            return None
        d = L.first_diff(got, ref)
        detail = {
            "rendered_sql": L.compile_literal(e, "sqlite"),
            "reference_sql": L.ref_sql(u),
            "first_difference": d,
            "table_row": self.db.rows[d["row"] - 1] if d and "row" in d else None,
        }
        return self.classify(u), detail


# ------------------------------------------------------------------------- shared sub-expressions
# "construct is a pure function": building a new expression from an existing one must not change the
# existing one.  In the Lean model this is trivially true (`build` is a function on immutable
# values); the tie to the real code is this check: DAG-shaped inputs, where ONE element object is
# an operand of several later expressions and is re-used after it has been extended.
_FLAT = {
    # operator: (operands to chain, an extension operand, trees that re-use the base)
    "add": (lambda c: [c("ia"), c("ib"), c("ic"), ["li", 5]], lambda c: ["li", 7],
            lambda b, c: [["mul", b, ["li", 2]], ["sub", ["li", 1], b], ["lt", b, c("ia")], ["neg", b],
                          ["coalesce", [b, ["li", 0]]], ["case", None, [[["gt", b, ["li", 0]], b]], ["li", -1]]]),
    "mul": (lambda c: [c("ia"), c("ib"), c("ic"), ["li", 3]], lambda c: ["li", 2],
            lambda b, c: [["add", b, ["li", 1]], ["mod", b, ["li", 7]], ["ge", c("ib"), b], ["cast", "num", b]]),
    "concat": (lambda c: [c("sa"), ["ls", "-"], c("sb"), ["ls", "x"]], lambda c: ["ls", "!"],
               lambda b, c: [["eq", b, ["ls", "a-bx"]], ["concat", ["ls", "<"], b], ["like", b, ["ls", "a%"], None],
                             ["coalesce", [b, ["ls", ""]]]]),
    "and": (lambda c: [["gt", c("ia"), ["li", 0]], ["lt", c("ib"), ["li", 3]], ["is", c("ic"), ["null"]], c("ba")], lambda c: ["eq", c("ia"), c("ib")],
            lambda b, c: [["not", b], ["or", [b, ["eq", c("ic"), ["li", 1]]]], ["case", None, [[b, ["li", 1]]], ["li", 0]]]),
    "or": (lambda c: [["gt", c("ia"), ["li", 0]], ["lt", c("ib"), ["li", 3]], ["is", c("ic"), ["null"]], c("bb")], lambda c: ["ne", c("ia"), c("ib")],
           lambda b, c: [["not", b], ["and", [b, ["eq", c("ic"), ["li", 1]]]], ["case", None, [[b, ["li", 1]]], ["li", 0]]]),
}


def _chain(op, items):
    """left-nested chain as the API calls build it: ((x0 op x1) op x2) ...; and_/or_ accumulate `&=`-style"""
    if op in ("and", "or"):
        acc = [op, [items[0], items[1]]]
        for x in items[2:]:
            acc = [op, [acc, x]]
        return acc
    acc = [op, items[0], items[1]]
    for x in items[2:]:
        acc = [op, acc, x]
    return acc


def _extend(op, base, x):
    return [op, [base, x]] if op in ("and", "or") else [op, base, x]


def dag_sessions(ctx, deep):
    """each session is a list of trees built IN ORDER with one memo: a tree that occurs inside a later
    tree is the same element object there"""
    from harness import lib_expr as L

    c = lambda n: ["col", n]  # noqa
    for op, (mk, mkext, reuse) in _FLAT.items():
        items = mk(c)
        ext = mkext(c)
        for n in (2, 3, 4):
            base = _chain(op, items[:n])
            e1 = _extend(op, base, ext)
            e2 = _extend(op, e1, items[0])
            # the base is extended (twice), THEN re-used; and re-used, THEN extended
            yield "flat-%s-%d" % (op, n), [base, e1] + reuse(base, c) + [e2] + reuse(e1, c)[:2] + [base, e1]
            yield "flat-%s-%d-reuse-first" % (op, n), reuse(base, c)[:2] + [e1, e2] + reuse(base, c)[2:]
            # clause-list form: and_(base, x, y) / or_(...) / base on the right side
            if op in ("and", "or"):
                yield "list-%s-%d" % (op, n), [base, [op, [base, ext, items[0]]], [op, [ext, base]], ["not", base], base]
            else:
                yield "right-%s-%d" % (op, n), [base, [op, ext, base], [op, base, base], base] + reuse(base, c)[:1]
    big = ctx.tier == "thorough" or deep
    g = L.TreeGen(ctx.rng, exotic=0.0)
    for i in range(1500 if big else 80):
        ty = ctx.rng.choice(["int", "int", "str", "bool", "num"])
        base = g.expr(ty, ctx.rng.randint(1, 3))
        sess = [base]
        cur = base
        for _ in range(ctx.rng.randint(2, 5)):
            other = g.expr(ty, ctx.rng.randint(0, 2))
            if ty == "bool":
                t = ctx.rng.choice([["and", [cur, other]], ["or", [cur, other]], ["not", cur], ["and", [other, cur]],
                                    ["case", None, [[cur, ["li", 1]]], None]])
            elif ty == "str":
                t = ctx.rng.choice([["concat", cur, other], ["concat", other, cur], ["eq", cur, other],
                                    ["coalesce", [cur, other]]])
            else:
                t = ctx.rng.choice([["add", cur, other], ["mul", cur, other], ["add", other, cur], ["sub", cur, other],
                                    ["lt", cur, other], ["neg", cur], ["mul", other, cur], ["coalesce", [cur, other]]])
            sess.append(t)
            if L.utype(t) == ty and ctx.rng.random() < 0.7:
                cur = t  # keep extending the extended expression ...
            if ctx.rng.random() < 0.4:
                sess.append(base)  # ... and come back to the first one
        yield "random", sess


def check_session(orc, sess):
    """build the trees of `sess` in order with shared sub-expression objects; afterwards every tree's
    object must render and evaluate like the same tree built from fresh leaves.
    -> list of (index, tree, detail) of the trees whose shared object changed"""
    L = orc.L
    memo = {}
    objs = []
    for t in sess:
        try:
            objs.append(L.to_sa(t, None, memo))
        except Exception as ex:  # noqa
            objs.append("error:" + type(ex).__name__)
    bad = []
    for i, (t, o) in enumerate(zip(sess, objs)):
        fresh = orc.build(t)
        if isinstance(o, str) or isinstance(fresh, str):
            if isinstance(o, str) != isinstance(fresh, str):
                bad.append((i, t, {"shared": o if isinstance(o, str) else "built", "fresh": fresh if isinstance(fresh, str) else "built"}))
            continue
        try:
            a, b = L.compile_literal(o, "sqlite"), L.compile_literal(fresh, "sqlite")
        except Exception as ex:  # noqa
            continue
        if a != b:
            bad.append((i, t, {"shared_object_sql": a, "fresh_build_sql": b}))
            continue
        got, ref = orc.db.run_sa(o), orc.db.run_sa(fresh)
        if not L.same_rows(got, ref):
            bad.append((i, t, {"shared_object_sql": a, "first_difference": L.first_diff(got, ref)}))
    return bad


# ------------------------------------------------------------------------- run
def trees(ctx, deep):
    from harness import lib_expr as L

    for u in corpus():
        yield "corpus", u
    for u in pair_cases():
        yield "pairs", u
    big = ctx.tier == "thorough" or deep
    n = 30000 if big else 1300
    maxd = 6 if big else 5
    # trees of the fragment of the ∀-theorems (api_tree_read_back / api_tree_value_*), deeper than
    # the general generator goes: they get the oracle, every correspondence and `fragment-verdict`
    for _ in range(3000 if big else 300):
        while True:
            x = ctx.rng.random()
            if x < 0.45:
                u = L.frag_bool(ctx.rng, ctx.rng.randint(1, 4))
            elif x < 0.85:
                u = L.frag_num(ctx.rng, ctx.rng.randint(1, 5))
            else:
                u = L.frag_str(ctx.rng, ctx.rng.randint(1, 4))
            # (SQLite's parser stack is finite: the fully parenthesised reference text of a tree
            #  with hundreds of nested CASEs is rejected with "parser stack overflow")
            if len(L.ops_of(u)) <= 120:
                break
        yield "fragment", u
    g = L.TreeGen(ctx.rng, exotic=0.04)
    for _ in range(n):
        ty = ctx.rng.choice(["int", "num", "str", "bool", "bool", "bool"])
        yield "random", g.expr(ty, ctx.rng.randint(1, maxd))


def run(ctx, deep=False):
    from harness import lib_expr as L
    from harness import vlib

    ctx.rule = (
        "fixed corpus + every (parent kind, operand position, child kind) pair over %d node kinds with column leaves "
        "+ seeded random typed trees (depth <= 5 quick / 6 thorough; 4%% loosely typed shapes); each tree is built with the "
        "real API, compiled on 5 dialects (text compared with the model), executed on SQLite over a %d-row table with "
        "NULLs/negatives/empty strings and compared with the fully parenthesised reference; a case is non-trivial when "
        "it has >= 2 operator nodes; distinct = distinct trees"
        % (len(NODE_KINDS), len(L.make_rows(None, 20)))
    )
    ctx.trusted += [
        "SQLite 3.x evaluates fully parenthesised text as written (reference side of the oracle)",
        "backend lexers / bracket matching (the model starts from tokens); PostgreSQL and MySQL binding-power tables are from documentation, not validated",
        "harness/lib_expr.py ref_sql: the meaning assigned to each API call (e.g. String + String is concatenation, == NULL is IS NULL)",
    ]
    ctx.assumptions.append(
        "floating point + and * are treated as associative: a value difference that disappears when the flattened "
        "float chain is kept nested is counted (bucket oracle=float-reassociation-only) but not reported"
    )
    orc = Oracle()
    cases, impl_out, reqs = [], [], []
    gcases, greqs = [], []
    fcases = []
    seen = set()
    nviol = 0
    for src, u in trees(ctx, deep):
        sig = json.dumps(u)
        if sig in seen:
            continue
        seen.add(sig)
        nops = sum(1 for o in L.ops_of(u) if o not in ("col", "li", "ls", "ln", "lb", "null", "true", "false", "pi", "ps"))
        ctx.case(sig, nontrivial=nops >= 2)
        ctx.count("source=" + src)
        ctx.count("depth=%d" % min(L.depth(u), 8))
        ctx.count("root=" + u[0])
        e = orc.build(u)
        built = not isinstance(e, str)
        if not built:
            ctx.count("build=" + e)
        # ---- direct oracle
        if built:
            got = orc.db.run_sa(e)
            ref = orc.db.run_sql(L.ref_sql(u))
            if L.same_rows(got, ref):
                ctx.count("oracle=both-error" if isinstance(got, str) else "oracle=agree")
            else:
                r = orc.check(u)
                if r is None:
                    ctx.count("oracle=float-reassociation-only(not reported)")
                else:
                    key, detail = r
                    ctx.count("oracle=" + key)
                    nviol += 1
                    ctx.violation(key, {"u": u}, detail)
            if len(ctx.samples) < 4 and src == "random" and nops >= 4 and not isinstance(got, str):
                ctx.sample({"tree": u, "sqlite_text": L.compile_literal(e, "sqlite"), "reference": L.ref_sql(u), "rows": got[:5]})
        # ---- correspondence: rendering on every dialect
        w = " ".join(L.wire(u))
        # quick tier: the exhaustive pair trees are compiled on the three backends of the property;
        # mariadb / default (same compilers with other flags) are covered by corpus + random trees
        dls = L.DIALECTS if (src != "pairs" or ctx.tier == "thorough" or deep) else ("sqlite", "postgresql", "mysql")
        for d in dls:
            cases.append({"u": u, "dialect": d})
            if src == "fragment" and d in ("sqlite", "postgresql", "mysql"):
                fcases.append(cases[-1])
            reqs.append("expr render %s %s" % (d, w))
            if not built:
                impl_out.append("error")
            else:
                try:
                    impl_out.append("ok %s %s" % (L.sa_affinity(e), vlib.enc_str(L.compile_literal(e, d))))
                except Exception as ex:  # noqa
                    impl_out.append("compile-error:" + type(ex).__name__)
        # ---- sqlite grammar validation requests (text must be executable: no `?`)
        if built and not ({"isdistinct", "isnotdistinct"} & set(L.ops_of(u))):
            for mask in ((0, ctx.rng.getrandbits(10)) if (src != "pairs" or ctx.tier == "thorough" or deep or ctx.rng.random() < 0.5) else (0,)):
                gcases.append({"u": u, "mask": mask})
                greqs.append("expr parsedrop %d sqlite %s" % (mask, w))
    if ctx.driver_ok():
        model_out = ctx.driver(reqs)
        impl_out, ml_fail = L.reconcile_render(ctx, cases, impl_out, model_out, "C01")
        ctx.correspond("corr/c01:render(model text == compiler text, 5 dialects)", cases, impl_out, model_out)
        for f in ml_fail[:20]:
            # only trees that do not carry one of the known grouping findings
            pres = L.Neutral("ACD")
            orc.build(f["case"]["u"], pres)
            if not pres.hits:
                ctx.violation("c01-model-level-misgrouping-" + f["case"]["dialect"], f["case"], f["detail"])
        # grammar: real SQLite vs the model's reading of the same token text
        gout = ctx.driver(greqs)
        gi, gm, gc = [], [], []
        base_isnot = {}
        for c, o in zip(gcases, gout):
            p = o.split(" ")
            if p[0] != "ok":
                ctx.count("grammar=" + p[0])
                continue
            txt, full = vlib.dec_str(p[1]), vlib.dec_str(p[2])
            k = json.dumps(c["u"])
            if c["mask"] == 0:
                base_isnot[k] = txt.count(" IS NOT ")
            # dropping a parenthesis can create a different *token* ("--" comment, IS + NOT -> IS NOT)
            if "--" in txt or txt.count(" IS NOT ") != base_isnot.get(k, 0):
                ctx.count("grammar=lexical-artifact-skipped")
                continue
            a, b = orc.db.run_sql(txt), orc.db.run_sql(full)
            ctx.count("grammar=checked")
            gc.append({"text": txt, "model_reading": full})
            gi.append("same")
            gm.append("same" if L.same_rows(a, b) else "differs:%s" % json.dumps(L.first_diff(a, b)))
        ctx.correspond("corr/c01:sqlite-grammar(real SQLite grouping == model sqlite table)", gc, gi, gm)
        # model-level verdicts per dialect: wb / reading == tree, and the general theorem's
        # hypotheses (Core, WG) and conclusion (ok) evaluated on the built element
        step = max(1, len(cases) // (6000 if (ctx.tier == "thorough" or deep) else 3000))
        vcases = cases[::step]
        vout = ctx.driver(["expr parse %s %s" % (c["dialect"], " ".join(L.wire(c["u"]))) for c in vcases])
        bad_wg, bad_thm = [], []
        for c, o in zip(vcases, vout):
            p = o.split(" ")
            if p[0] not in ("ok", "noparse"):
                ctx.count("model-verdict/%s=%s" % (c["dialect"], p[0]))
                continue
            wbv = p[1] == "1"
            flags = p[-1]
            ctx.count("model-verdict/%s=%s" % (c["dialect"], "wb" if wbv else "not-wb"))
            if flags[0] == "1":
                ctx.count("model-verdict/core-fragment")
                if flags[1] != "1":
                    bad_wg.append(c)
                if flags[3] != "1":
                    # an F1 cell (arithmetic exposed under || on a grammar where || binds tighter):
                    # excluded from the theorem by its hypothesis CSH, reported by the oracle
                    ctx.count("model-verdict/core-fragment-F1-cell(excluded by CSH)")
                elif flags[1] == "1" and not (flags[2] == "1" and wbv and p[0] == "ok" and p[2] == "1"):
                    bad_thm.append(c)
        ctx.obligation("model: every core element built by the constructors is well grouped (WG)", not bad_wg, json.dumps(bad_wg[:2]))
        ctx.obligation("model: core + WG elements are ok / read back (executable instance of core_render_read_back)", not bad_thm, json.dumps(bad_thm[:2]))
        # executable instance of build_num / build_bool + api_tree_read_back on every fragment tree
        fout = ctx.driver(["expr parse %s %s" % (c["dialect"], " ".join(L.wire(c["u"]))) for c in fcases])
        fbad = []
        for c, o in zip(fcases, fout):
            p = o.split(" ")
            flags = p[-1]
            if len(flags) == 4 and flags[:2] == "11" and flags[3] == "0":
                # Core + WG but not CSH: an F1 cell; the theorem does not speak about it
                ctx.count("fragment-verdict=F1-cell(excluded by CSH)")
                continue
            good = p[0] == "ok" and p[1:] == ["1", "1", "1111"]
            ctx.count("fragment-verdict=%s" % ("read-back" if good else "FAIL"))
            if not good:
                fbad.append({"case": c, "model": o})
        ctx.obligation("model: every fragment tree (NumU/BoolU) builds a Core + WG element that is ok and read back "
                       "(executable instance of api_tree_read_back)", not fbad, json.dumps(fbad[:2]))
    # ---- the Lean semantics (evalNumU / evalBoolU, the meaning used by api_tree_value_*) against
    # the real SQLite, on trees of the theorem's fragment, every row of the table
    if ctx.driver_ok():
        nfrag = 1500 if (ctx.tier == "thorough" or deep) else 400
        ecases, ereqs, eimpl = [], [], []
        rows3 = [(r[1], r[2], r[3], r[6], r[7]) for r in orc.db.rows]
        for _ in range(nfrag):
            x = ctx.rng.random()
            if x < 0.55:
                u = L.frag_bool(ctx.rng, ctx.rng.randint(1, 3), "floor", "str")
            elif x < 0.85:
                u = L.frag_num(ctx.rng, ctx.rng.randint(1, 4), "floor")
            else:
                u = L.frag_str(ctx.rng, ctx.rng.randint(1, 4), "floor", "str")
            ref = orc.db.run_sql(L.ref_sql(u))
            if isinstance(ref, str):
                continue
            ctx.count("eval-corr-tree")
            isb = L.utype(u) == "bool"
            w = " ".join(L.wire(u))
            for (a, b, c, sa_, sb_), v in zip(rows3, ref):
                ecases.append({"u": u, "row": [a, b, c, sa_, sb_]})
                ereqs.append("expr evalu %s %s" % (" ".join(L.wire_val(x) for x in (a, b, c, sa_, sb_)), w))
                if v is None:
                    eimpl.append("ok N")
                elif isb:
                    eimpl.append("ok T" if v == 1 else "ok F")
                elif isinstance(v, str):
                    eimpl.append("ok " + vlib.enc_str(v))
                else:
                    eimpl.append("ok i%d" % v if isinstance(v, int) else "ok other")
        ctx.correspond("corr/c01:eval(Lean meaning of fragment trees == real SQLite, every row)", ecases, eimpl, ctx.driver(ereqs))
    # ---- shared sub-expressions (DAG-shaped inputs): construct is a pure function
    for kind, sess in dag_sessions(ctx, deep):
        ctx.case("dag:" + json.dumps(sess), nontrivial=True)
        ctx.count("dag-session=" + (kind if kind == "random" else kind.split("-")[0] + "-" + kind.split("-")[1]))
        bad = check_session(orc, sess)
        ctx.count("dag-trees-checked", len(sess))
        for i, t, detail in bad[:1]:
            ctx.count("dag=shared-object-changed")
            detail = dict(detail, changed_tree=t, changed_index=i)
            ctx.violation("c01-construct-not-pure-shared-subexpression-changed", {"session": sess, "mode": "dag"}, detail)
    orc.close()
    ctx.exhaustive = False


def search(ctx, broken):
    """an obligation broke and the normal run saw no unknown oracle failure: thorough-size run
    on the real code, starting with the disagreeing trees"""
    orc = Oracle()
    try:
        for dis in ctx.disagreements:
            u = dis["case"].get("u") if isinstance(dis.get("case"), dict) else None
            if u is not None:
                r = orc.check(u)
                if r:
                    ctx.violation(r[0], {"u": u}, r[1])
    finally:
        orc.close()
    sub = type(ctx)(ctx.pid, "thorough", ctx.seed + 1, ctx.level)
    o = Oracle()
    try:
        from harness import lib_expr as L

        seen = set()
        for src, u in trees(sub, True):
            sig = json.dumps(u)
            if sig in seen:
                continue
            seen.add(sig)
            r = o.check(u)
            if r:
                ctx.violation(r[0], {"u": u}, r[1])
    finally:
        o.close()


def replay_model_level(ctx, obj):
    """re-read the compiler's current text of the tree with the model grammar"""
    from harness import lib_expr as L
    from harness import vlib

    c = obj["case"]
    e = L.to_sa(c["u"])
    real = L.compile_literal(e, c["dialect"])
    toks = L.lex_sql(real)
    if toks is None or not ctx.driver_ok():
        print("replay C01 (model-level): cannot lex / no driver")
        return False
    rt, ru = ctx.driver(["expr readtok %s %s" % (c["dialect"], " ".join(toks)),
                         "expr readu %s %s" % (c["dialect"], " ".join(L.wire(c["u"])))])
    rt, ru = rt.split(" "), ru.split(" ")
    bad = rt[0] == "ok" and ru[0] == "ok" and rt[1] != ru[2]
    print("replay C01 (model-level) %s text=%r reading=%s intended=%s" % (
        c["dialect"], real, vlib.dec_str(rt[1]) if rt[1].startswith("s:") else rt[1], vlib.dec_str(ru[2])))
    return bad


def replay(ctx, obj):
    if obj["case"].get("mode") == "model-level":
        return replay_model_level(ctx, obj)
    if obj["case"].get("mode") == "dag":
        orc = Oracle()
        try:
            bad = check_session(orc, obj["case"]["session"])
            print("replay C01 (shared sub-expressions) session of %d trees -> %s" % (
                len(obj["case"]["session"]), json.dumps(bad[:1], default=str)))
            return bool(bad)
        finally:
            orc.close()
    orc = Oracle()
    try:
        u = obj["case"]["u"]
        r = orc.check(u)
        print("replay C01 tree=%s -> %s" % (json.dumps(u), json.dumps(r, default=str)))
        return r is not None
    finally:
        orc.close()
