"""C36 — Attribute history reports exactly the net change since load.

Model       lean/SaVerif/Model/History.lean (History.from_scalar_attribute / from_object_attribute /
            from_collection transcribed literally + committed_state capture of _modified_event + the
            set / delete / collection-event / flush / expire transitions of one attribute)
Theorems    lean/SaVerif/Props/C36.lean
Check       real mapped classes on in-memory SQLite: mutation sequences on a scalar column, a
            many-to-one reference and list / set collections of loaded and new objects; direct
            oracle: history == diff(committed value, current value) with the committed value kept
            by the harness, flush writes exactly the changed columns / rows and leaves an
            all-unchanged history; correspondence of state.dict / committed_state / history / row
            with the model after every operation.
"""
import json

PID = "C36"
LEVEL = "proof"
LEAN = ["SaVerif.Props.C36"]
META = {
    "text": "Lean theorems for ALL mutation sequences of the transcribed attribute machine: the invariant (a clean attribute mirrors the row; the value captured in committed_state at the FIRST modification is the committed value) is preserved by set / del / collection append / remove / bulk replace / expire / load / flush, hence History.from_scalar_attribute / from_object_attribute / from_collection (transcribed literally) return exactly diff(committed, current): set-back-to-original gives no change, added/unchanged/deleted of a collection partition current and committed membership, and after flush the row holds the current value and the history is all-unchanged. Unloaded (expired) originals are reported with deleted = () as the code does.",
    "note": "Hand transcription of one attribute at a time, tied by per-operation correspondence on state.dict, committed_state, the history triple and the row. Backrefs, pending (unloaded) collection mutations, active_history attributes, dict collections and many-to-one relationships that cannot use the identity-map get (deferred history: the original is fetched on demand, against the committed column values) are covered by the direct oracle only. The oracle keeps its own record of the committed value and checks the history against the plain difference; flush is checked through the emitted UPDATE columns and the reloaded rows.",
    "technique": "Lean 4 invariant proof over a transcribed state machine + literal transcription of History.from_* + per-operation differential correspondence with the real ORM on SQLite",
    "design_ref": "DESIGN.md §3 C36",
}

_ENV = {}
NB, NC = 4, 7


def env():
    if "e" in _ENV:
        return _ENV["e"]
    import sqlalchemy as sa
    from sqlalchemy import orm
    from sqlalchemy.pool import StaticPool

    from sqlalchemy.orm.collections import attribute_keyed_dict

    Base = orm.declarative_base()

    class HB(Base):
        __tablename__ = "c36_b"
        id = sa.Column(sa.Integer, primary_key=True)

    class HA(Base):
        __tablename__ = "c36_a"
        id = sa.Column(sa.Integer, primary_key=True)
        x = sa.Column(sa.Integer)
        z = sa.Column(sa.Integer)
        b_id = sa.Column(sa.ForeignKey("c36_b.id"))
        ref = orm.relationship(HB)
        items = orm.relationship("HC", order_by="HC.id")
        tags = orm.relationship("HT", collection_class=set)
        dmap = orm.relationship("HD", collection_class=attribute_keyed_dict("id"))

    class HC(Base):
        __tablename__ = "c36_c"
        id = sa.Column(sa.Integer, primary_key=True)
        a_id = sa.Column(sa.ForeignKey("c36_a.id"))

    class HT(Base):
        __tablename__ = "c36_t"
        id = sa.Column(sa.Integer, primary_key=True)
        a_id = sa.Column(sa.ForeignKey("c36_a.id"))

    class HD(Base):
        __tablename__ = "c36_d"
        id = sa.Column(sa.Integer, primary_key=True)
        a_id = sa.Column(sa.ForeignKey("c36_a.id"))

    eng = sa.create_engine("sqlite://", poolclass=StaticPool)
    Base.metadata.create_all(eng)
    _ENV["e"] = (HA, HB, HC, HT, eng)
    _ENV["HD"] = HD
    _ENV["Base"] = Base
    return _ENV["e"]


def sv(v):
    return "N" if v is None else str(v)


def dots(l):
    return ".".join(l) if l else "-"


def edots(l):
    return ".".join(l) if l else "e"


class Runner:
    """one object A, one attribute under test (`kind`): scalar x, object ref, list items, set tags"""

    def __init__(self, case):
        import sqlalchemy as sa
        from sqlalchemy import orm

        self.sa = sa
        self.case = case
        self.kind = case["kind"]
        self.HA, self.HB, self.HC, self.HT, self.eng = env()
        with self.eng.begin() as c:
            for cls in (self.HC, self.HT, _ENV["HD"], self.HA, self.HB):
                c.execute(cls.__table__.delete())
        self.sess = orm.Session(self.eng, autoflush=False)
        self.bs = [self.HB(id=i) for i in range(1, NB + 1)]
        self.cs = [self.HC(id=i) for i in range(1, NC + 1)]
        self.ts = [self.HT(id=i) for i in range(1, NC + 1)]
        self.sess.add_all(self.bs + self.cs + self.ts)
        init = case["init"]
        self.key = {"scalar": "x", "object": "ref", "list": "items", "set": "tags"}[self.kind]
        if init is not None:
            a = self.HA(id=1, z=0)
            if self.kind == "scalar":
                a.x = init["v"]
            elif self.kind == "object":
                a.ref = self.obj(init["v"])
            elif self.kind == "list":
                a.items = [self.cs[i - 1] for i in init["v"]]
            else:
                a.tags = {self.ts[i - 1] for i in init["v"]}
            self.sess.add(a)
            self.sess.commit()
            self.a = a
            getattr(a, self.key)  # loaded
            a.z
            self.truth = ("row", self.canon_value(init["v"]))
        else:
            self.sess.commit()
            self.a = self.HA(id=1)
            self.sess.add(self.a)
            self.truth = ("norow", None)
        self.known = True  # the committed value was in memory at the first modification
        self.modified = False
        self.model_ops = []
        self.obs = []
        self.violations = []
        self.updates = []

        @sa.event.listens_for(self.eng, "before_cursor_execute")
        def log(conn, cur, stmt, params, ctx, many):
            if stmt.startswith("UPDATE c36_a"):
                self.updates.append(stmt)

        self._log = log

    def obj(self, v):
        return None if v is None else self.bs[v - 1]

    def canon_value(self, v):
        if self.kind in ("scalar", "object"):
            return v
        if self.kind == "list":
            return list(v)
        return sorted(v)

    def ident(self, o):
        return None if o is None else o.id

    # ------------------------------------------------------------------ observation
    def cur(self):
        d = self.sa.inspect(self.a).dict
        if self.key not in d:
            return ("absent", None)
        v = d[self.key]
        if self.kind == "scalar":
            return ("val", v)
        if self.kind == "object":
            return ("val", self.ident(v))
        if self.kind == "list":
            return ("val", [o.id for o in v])
        return ("val", sorted(o.id for o in v))

    def hist(self):
        h = self.sa.inspect(self.a).attrs[self.key].history
        conv = (lambda o: o) if self.kind == "scalar" else self.ident
        res = [[conv(o) for o in part] for part in (h.added, h.unchanged, h.deleted)]
        if self.kind == "set":
            res = [sorted(p) for p in res]
        return res

    def db(self):
        sa = self.sa
        c = self.sess.connection()
        row = c.execute(sa.select(self.HA.__table__).where(self.HA.__table__.c.id == 1)).first()
        if row is None:
            return ("norow", None)
        if self.kind == "scalar":
            return ("row", row.x)
        if self.kind == "object":
            return ("row", row.b_id)
        t = (self.HC if self.kind == "list" else self.HT).__table__
        return ("row", sorted(r[0] for r in c.execute(sa.select(t.c.id).where(t.c.a_id == 1))))

    def observe(self):
        from sqlalchemy.orm.base import NO_VALUE, PASSIVE_NO_RESULT

        st = self.sa.inspect(self.a)
        tag, v = self.cur()
        one = sv if self.kind in ("scalar", "object") else (lambda l: edots([str(x) for x in l]))
        c = "X" if tag == "absent" else one(v)
        if self.key not in st.committed_state:
            o = "-"
        else:
            ov = st.committed_state[self.key]
            if ov is NO_VALUE:
                o = "NV"
            elif ov is PASSIVE_NO_RESULT:
                o = "NR"
            elif self.kind == "scalar":
                o = sv(ov)
            elif self.kind == "object":
                o = sv(self.ident(ov))
            else:
                ids = [x.id for x in ov]
                o = edots([str(x) for x in (ids if self.kind == "list" else sorted(ids))])
        h = self.hist()
        if self.kind in ("scalar", "object"):
            hs = "/".join(dots([sv(x) for x in p]) for p in h)
        else:
            hs = "/".join(edots([str(x) for x in p]) for p in h)
        dtag, dv = self.db()
        if dtag == "norow":
            d = "R"
        elif self.kind in ("scalar", "object"):
            d = sv(dv)
        else:
            d = edots([str(x) for x in dv])
        return "%s~%s~%s~%s" % (c, o, hs, d)

    # ------------------------------------------------------------------ oracle
    def check_history(self, where):
        """history == diff(committed value kept by the harness, current value)"""
        tag, cur = self.cur()
        added, unchanged, deleted = self.hist()
        ttag, truth = self.truth
        if not self.known:
            return  # the committed value was not loaded at the first modification: deleted unknowable
        bad = None
        if self.kind in ("scalar", "object"):
            if tag == "absent":
                if added not in ([], [None]) or unchanged:
                    bad = "attribute has no value but history reports added=%r unchanged=%r" % (added, unchanged)
                elif not self.modified and (added or deleted):
                    bad = "nothing was modified but history reports a change"
            else:
                if added + unchanged != [cur]:
                    bad = "added + unchanged = %r but the current value is %r" % (added + unchanged, cur)
                elif ttag == "row":
                    changed = cur != truth
                    if changed and not added:
                        bad = "value changed %r -> %r but history has no 'added'" % (truth, cur)
                    if not changed and (added or deleted):
                        bad = "value is back at the committed %r but history reports added=%r deleted=%r" % (truth, added, deleted)
                    if changed and deleted not in ([truth], [] if (truth is None and self.kind == "object") else [truth]):
                        bad = "value changed %r -> %r but deleted=%r" % (truth, cur, deleted)
                else:
                    if deleted:
                        bad = "new object but deleted=%r" % (deleted,)
        else:
            if tag == "absent":
                cur = None
            else:
                old = truth if ttag == "row" else []
                want_added = [x for x in cur if x not in old]
                want_unch = [x for x in cur if x in old]
                want_del = [x for x in old if x not in cur]
                if self.kind == "set":
                    want_added, want_unch, want_del = sorted(want_added), sorted(want_unch), sorted(want_del)
                if self.modified and (added, unchanged, sorted(deleted)) != (want_added, want_unch, sorted(want_del)):
                    bad = "history (%r, %r, %r) != diff(committed %r, current %r) = (%r, %r, %r)" % (added, unchanged, deleted, old, cur, want_added, want_unch, want_del)
                if not self.modified and (added or deleted):
                    bad = "nothing was modified but history reports added=%r deleted=%r" % (added, deleted)
        if bad:
            self.violations.append(("history-ne-diff", "%s: %s" % (where, bad)))

    # ------------------------------------------------------------------ operations
    def step(self, op):
        k = op["op"]
        a = self.a
        st = self.sa.inspect(a)
        outcome = "ok"
        mop = None
        loaded_before = self.key in st.dict
        first_mod = self.key not in st.committed_state
        try:
            if k == "set":
                mop = "set:%s" % sv(op["v"])
                if self.kind == "scalar":
                    a.x = op["v"]
                else:
                    a.ref = self.obj(op["v"])
                self.note_mod(loaded_before, first_mod)
            elif k == "del":
                mop = "del"
                try:
                    delattr(a, self.key)
                except AttributeError:
                    outcome = "attr"
                self.note_mod(loaded_before, first_mod)
            elif k == "exp":
                mop = "exp"
                if st.persistent:
                    self.sess.expire(a, [self.key])
                    self.modified = False
                    self.known = True
            elif k == "load":
                mop = "load" if self.kind in ("scalar", "object") else "touch"
                getattr(a, self.key)
            elif k == "flush":
                mop = "flush"
                self.do_flush()
                if self.violations:
                    return None
            elif k == "commit":
                # flush (recorded as its own step), then commit: every attribute is expired
                if self.step({"op": "flush"}) is None:
                    return None
                self.sess.commit()
                self.modified = False
                self.known = True
                mop = "expall"
            elif k == "reado":
                # read ANOTHER column attribute: loads the expired unmodified attributes only; an
                # attribute set / deleted while expired must keep its pending change
                from sqlalchemy.orm.base import NO_VALUE

                was_expired = "z" in st.expired_attributes
                pending = self.key in st.committed_state
                before = (self.cur(), repr(st.committed_state.get(self.key, "absent")), self.hist())
                a.z
                after = (self.cur(), repr(st.committed_state.get(self.key, "absent")), self.hist())
                if pending and before != after:
                    self.violations.append(("read-of-other-attribute-changed-pending-change", "reading obj.z changed attribute %s from (value, committed_state, history) %r to %r" % (self.key, before, after)))
                    return None
                if not was_expired:
                    self.check_history("after %s" % json.dumps(op))
                    return "ok"  # nothing is loaded: not a step of the model
                mop = "lo"
            elif k == "app":
                mop = "app:%d" % op["x"]
                coll = getattr(a, self.key)
                first_mod = self.key not in st.committed_state
                o = (self.cs if self.kind == "list" else self.ts)[op["x"] - 1]
                if self.kind == "list" and o in coll:
                    mop = "touch"  # a row cannot be in the list twice: not generated
                else:
                    coll.append(o) if self.kind == "list" else coll.add(o)
                    self.note_mod(True, first_mod)
            elif k == "rem":
                mop = "rem:%d" % op["x"]
                coll = getattr(a, self.key)
                first_mod = self.key not in st.committed_state
                o = (self.cs if self.kind == "list" else self.ts)[op["x"] - 1]
                try:
                    coll.remove(o)
                except (ValueError, KeyError):
                    pass
                self.note_mod(True, first_mod)
            elif k == "rep":
                mop = "rep:%s" % dots([str(x) for x in op["l"]])
                pool = self.cs if self.kind == "list" else self.ts
                new = [pool[i - 1] for i in op["l"]]
                setattr(a, self.key, new if self.kind == "list" else set(new))
                self.note_mod(True, first_mod)
            else:
                raise ValueError(op)
        except Exception as e:  # noqa: BLE001
            if k == "load" and isinstance(e, KeyError) and "failed to populate" in str(e) and self.key in st.committed_state and self.key not in st.dict:
                self.violations.append(("read-after-del-while-expired-keyerror", "attribute deleted (or set and deleted) while the object was expired, then read: _load_expired skips the modified attribute and get() raises %s" % (e,)))
                return None
            self.violations.append(("op-raised", "%s raised %s: %s" % (json.dumps(op), type(e).__name__, e)))
            return None
        self.model_ops.append(mop)
        self.obs.append(outcome + "/" + self.observe())
        self.check_history("after %s" % json.dumps(op))
        return outcome

    def note_mod(self, loaded_before, first_mod):
        if first_mod:
            # was the committed value in memory when committed_state captured it?
            self.known = loaded_before or self.truth[0] == "norow"
        self.modified = True

    def do_flush(self):
        tag, cur = self.cur()
        ttag, truth = self.truth
        added, unchanged, deleted = self.hist()
        self.updates.clear()
        self.sess.flush()
        st = self.sa.inspect(self.a)
        # what flush must have persisted: the current value (a missing scalar is NULL)
        if tag == "val":
            want = cur if self.kind != "list" else sorted(cur)
        elif self.kind in ("scalar", "object"):
            want = truth if (ttag == "row" and not self.modified) else None
        else:
            want = truth if ttag == "row" else []
            want = sorted(want)
        dtag, dv = self.db()
        if dtag != "row":
            self.violations.append(("flush-no-row", "object has no row after flush"))
            return
        if self.kind == "set" and tag == "val":
            want = sorted(cur)
        if dv != want:
            self.violations.append(("flush-ne-current", "after flush the row holds %r, in memory %r (history before flush %r)" % (dv, want, (added, unchanged, deleted))))
            return
        # net change only: an UPDATE of the column only if the value differs from the committed one
        if ttag == "row" and self.kind in ("scalar", "object") and self.known and tag == "val":
            col = "x" if self.kind == "scalar" else "b_id"
            wrote = any((" %s=" % col) in u for u in self.updates)
            changed = (want != truth)
            if wrote != changed:
                self.violations.append(("flush-not-net-change", "committed %r, flushed %r, UPDATE of %s emitted: %s (%s)" % (truth, want, col, wrote, self.updates)))
                return
        self.truth = ("row", want if self.kind not in ("list",) else (cur if tag == "val" else want))
        self.modified = False
        self.known = True
        h = self.hist()
        if h[0] or h[2]:
            self.violations.append(("history-after-flush", "history after flush still reports added=%r deleted=%r" % (h[0], h[2])))

    def finish(self):
        if self.violations:
            return
        try:
            self.do_flush()
            if self.violations:
                return
            tag, cur = self.cur()
            self.sess.commit()
            v = getattr(self.a, self.key)
            if self.kind == "scalar":
                got = v
            elif self.kind == "object":
                got = self.ident(v)
            else:
                got = sorted(o.id for o in v)
            want = self.truth[1] if self.kind != "list" else sorted(self.truth[1])
            if got != want:
                self.violations.append(("reload-ne-flushed", "reloaded %r, flushed %r" % (got, want)))
        except Exception as e:  # noqa: BLE001
            self.violations.append(("op-raised", "final flush/commit raised %s: %s" % (type(e).__name__, e)))

    def close(self):
        self.sa.event.remove(self.eng, "before_cursor_execute", self._log)
        self.sess.rollback()
        self.sess.close()


class CollRunner:
    """relationship collections (list / set / dict) under every mutator of the collection class,
    especially as the FIRST mutation after load; oracle only: history == diff(committed members,
    current members), flush persists exactly the current membership"""

    def __init__(self, case):
        import sqlalchemy as sa
        from sqlalchemy import orm

        self.sa = sa
        self.case = case
        self.kind = case["ckind"]
        HA, HB, HC, HT, eng = env()
        HD = _ENV["HD"]
        self.cls = {"list": HC, "set": HT, "dict": HD}[self.kind]
        self.key = {"list": "items", "set": "tags", "dict": "dmap"}[self.kind]
        with eng.begin() as c:
            for cl in (HC, HT, HD, HA, HB):
                c.execute(cl.__table__.delete())
        self.sess = orm.Session(eng, autoflush=False)
        self.pool = [self.cls(id=i) for i in range(1, NC + 1)]
        self.sess.add_all(self.pool)
        self.a = HA(id=1, z=0)
        init = case["init"]
        if init is not None:
            setattr(self.a, self.key, self.mk([self.pool[i - 1] for i in init]))
            self.sess.add(self.a)
            self.sess.commit()
            getattr(self.a, self.key)
            self.truth = sorted(init)
        else:
            self.sess.commit()
            self.sess.add(self.a)
            self.truth = []
        self.violations = []
        self.pending_del = False

    def mk(self, objs):
        if self.kind == "list":
            return list(objs)
        if self.kind == "set":
            return set(objs)
        return {o.id: o for o in objs}

    def cur(self):
        d = self.sa.inspect(self.a).dict
        if self.key not in d:
            return None
        c = d[self.key]
        return sorted(o.id for o in (c.values() if self.kind == "dict" else c))

    def rows(self):
        t = self.cls.__table__
        return sorted(r[0] for r in self.sess.connection().execute(self.sa.select(t.c.id).where(t.c.a_id == 1)))

    def check_history(self, where):
        st = self.sa.inspect(self.a)
        cur = self.cur()
        if cur is None:
            return
        h = st.attrs[self.key].history
        got = tuple(sorted(o.id for o in part) for part in (h.added, h.unchanged, h.deleted))
        if self.key in st.committed_state:
            want = (sorted(x for x in cur if x not in self.truth), sorted(x for x in cur if x in self.truth), sorted(x for x in self.truth if x not in cur))
        else:
            want = ([], cur, [])
            if cur != self.truth and st.persistent:
                self.violations.append(("history-ne-diff", "%s: members changed %r -> %r but committed_state has no entry" % (where, self.truth, cur)))
                return
        if got != want:
            self.violations.append(("history-ne-diff", "%s: history %r != diff(committed %r, current %r) = %r" % (where, got, self.truth, cur, want)))

    def do_flush(self, where, commit=False):
        cur = self.cur()
        if commit:
            self.sess.commit()
        else:
            self.sess.flush()
        # `del obj.collection` (no backref) drops the attribute together with its pending changes:
        # nothing is reported by the history, nothing is persisted
        want = cur if cur is not None else self.truth
        rows = self.rows()
        if rows != want:
            self.violations.append(("flush-ne-current", "%s: rows %r, members in memory %r (committed before: %r)" % (where, rows, want, self.truth)))
            return
        self.truth = want
        self.pending_del = False
        st = self.sa.inspect(self.a)
        if self.key in st.dict:
            h = st.attrs[self.key].history
            if h.added or h.deleted:
                self.violations.append(("history-after-flush", "%s: history still reports added=%r deleted=%r" % (where, [o.id for o in h.added], [o.id for o in h.deleted])))

    def step(self, op):
        k = op["op"]
        a = self.a
        P = self.pool
        try:
            if k == "flush":
                self.do_flush("flush")
                return
            if k == "commit":
                self.do_flush("commit", commit=True)
                return
            if k == "exp":
                if self.sa.inspect(a).persistent:
                    self.sess.expire(a, [self.key])
                    self.pending_del = False
                return
            if k == "load":
                getattr(a, self.key)
                return
            if k == "delcoll":
                if self.key in self.sa.inspect(a).dict:
                    delattr(a, self.key)
                    self.pending_del = True
                return
            coll = getattr(a, self.key)
            o = P[op["x"] - 1] if "x" in op else None
            try:
                if k == "rep":
                    setattr(a, self.key, self.mk([P[i - 1] for i in op["l"]]))
                elif self.kind == "list":
                    if k == "add" and not any(y is o for y in coll):
                        coll.append(o)
                    elif k == "remove":
                        coll.remove(o)
                    elif k == "pop":
                        coll.pop(op.get("i", -1))
                    elif k == "delitem":
                        del coll[op.get("i", 0)]
                    elif k == "delslice":
                        del coll[slice(*op["sl"])]
                    elif k == "clear":
                        coll.clear()
                    elif k == "extend":
                        coll.extend([P[i - 1] for i in op["l"] if not any(y is P[i - 1] for y in coll)])
                    elif k == "insert" and not any(y is o for y in coll):
                        coll.insert(op.get("i", 0), o)
                elif self.kind == "set":
                    if k == "add":
                        coll.add(o)
                    elif k == "remove":
                        coll.remove(o)
                    elif k == "discard":
                        coll.discard(o)
                    elif k == "pop":
                        coll.pop()
                    elif k == "clear":
                        coll.clear()
                    elif k == "update":
                        coll.update([P[i - 1] for i in op["l"]])
                    elif k == "diffupd":
                        coll.difference_update([P[i - 1] for i in op["l"]])
                    elif k == "intupd":
                        coll.intersection_update([P[i - 1] for i in op["l"]])
                    elif k == "symupd":
                        coll.symmetric_difference_update([P[i - 1] for i in op["l"]])
                else:
                    if k == "add":
                        coll[o.id] = o
                    elif k == "remove":
                        del coll[o.id]
                    elif k == "pop":
                        coll.pop(o.id)
                    elif k == "discard":
                        coll.pop(o.id, None)
                    elif k == "popitem":
                        coll.popitem()
                    elif k == "clear":
                        coll.clear()
                    elif k == "setdefault":
                        coll.setdefault(o.id, o)
                    elif k == "update":
                        coll.update({P[i - 1].id: P[i - 1] for i in op["l"]})
            except (KeyError, ValueError, IndexError):
                pass
        except Exception as e:  # noqa: BLE001
            self.violations.append(("op-raised", "%s raised %s: %s" % (json.dumps(op), type(e).__name__, str(e)[:200])))
            return
        self.check_history("after %s" % json.dumps(op))

    def finish(self):
        if self.violations:
            return
        try:
            self.do_flush("final flush")
            if self.violations:
                return
            self.sess.commit()
            got = sorted(o.id for o in (getattr(self.a, self.key).values() if self.kind == "dict" else getattr(self.a, self.key)))
            if got != self.truth:
                self.violations.append(("reload-ne-flushed", "reloaded %r, flushed %r" % (got, self.truth)))
        except Exception as e:  # noqa: BLE001
            self.violations.append(("op-raised", "final flush/commit raised %s: %s" % (type(e).__name__, str(e)[:200])))

    def close(self):
        self.sess.rollback()
        self.sess.close()


def deferred_env():
    """many-to-one that cannot use the identity-map get (FK to a non-pk unique column): the old
    value of an unloaded relationship is fetched on demand when history is requested"""
    if "def" in _ENV:
        return _ENV["def"]
    import sqlalchemy as sa
    from sqlalchemy import orm
    from sqlalchemy.pool import StaticPool

    Base = orm.declarative_base()

    class DPar(Base):
        __tablename__ = "c36_dpar"
        id = sa.Column(sa.Integer, primary_key=True)
        code = sa.Column(sa.String(10), unique=True, nullable=False)

    class DChi(Base):
        __tablename__ = "c36_dchi"
        id = sa.Column(sa.Integer, primary_key=True)
        parent_code = sa.Column(sa.ForeignKey("c36_dpar.code"))
        parent = orm.relationship(DPar)
        # custom primaryjoin variant of the same shape
        alt_code = sa.Column(sa.String(10))
        alt = orm.relationship(DPar, primaryjoin="foreign(DChi.alt_code) == DPar.code", viewonly=False, overlaps="parent")

    eng = sa.create_engine("sqlite://", poolclass=StaticPool)
    Base.metadata.create_all(eng)
    _ENV["def"] = (DPar, DChi, eng, Base)
    return _ENV["def"]


CODES = ["A", "B", "C", "D"]


class DeferredRunner:
    """one persistent child; ops on the referencing column and on the relationship; history is
    requested with and without SQL allowed; the committed parent is what the ROW refers to"""

    def __init__(self, case):
        import sqlalchemy as sa
        from sqlalchemy import orm

        self.sa = sa
        self.case = case
        DPar, DChi, eng, Base = deferred_env()
        self.DPar, self.DChi = DPar, DChi
        self.rel, self.col = ("parent", "parent_code") if case["rel"] == "fk" else ("alt", "alt_code")
        with eng.begin() as c:
            c.execute(DChi.__table__.delete())
            c.execute(DPar.__table__.delete())
        with orm.Session(eng) as s0:
            s0.add_all([DPar(id=i + 1, code=cd) for i, cd in enumerate(CODES)])
            s0.flush()
            s0.add(DChi(id=10, **{self.col: case["init"]}))
            s0.commit()
        self.sess = orm.Session(eng, autoflush=False)
        self.pars = {p.code: p for p in self.sess.query(DPar).all()}
        self.child = self.sess.get(DChi, 10)
        self.committed = case["init"]  # code the row refers to
        self.col_dirty = False
        self.violations = []

    def par(self, code):
        return None if code is None else self.pars[code]

    def code_of(self, o):
        return None if o is None else o.code

    def row(self):
        t = self.DChi.__table__
        return self.sess.connection().execute(self.sa.select(t.c[self.col]).where(t.c.id == 10)).scalar()

    def check_hist(self, how, h, sql_allowed):
        st = self.sa.inspect(self.child)
        if self.rel not in st.committed_state:
            return  # relationship not re-assigned: its history is not about a change of it
        cur = st.dict.get(self.rel, "absent")
        if cur == "absent":
            return
        added = [self.code_of(o) for o in h.added]
        unchanged = [self.code_of(o) for o in h.unchanged]
        deleted = [self.code_of(o) for o in h.deleted]
        if added + unchanged != [self.code_of(cur)]:
            self.violations.append(("history-ne-diff", "%s: added %r + unchanged %r != current parent [%r]" % (how, added, unchanged, self.code_of(cur))))
            return
        if not sql_allowed:
            if deleted and deleted != [self.committed]:
                self.violations.append(("history-ne-diff", "%s: deleted %r is not the committed parent %r" % (how, deleted, self.committed)))
            return
        # SQL allowed: deleted ∪ unchanged is exactly the committed parent (None -> nothing)
        want = [] if self.committed is None else [self.committed]
        got = sorted(set(deleted) | (set(unchanged) if self.code_of(cur) == self.committed else set()))
        if self.code_of(cur) == self.committed:
            ok = (deleted == [] and unchanged == [self.committed]) or (self.committed is None and unchanged == [None])
        else:
            ok = deleted == want
        if not ok:
            self.violations.append(("history-ne-diff", "%s: added %r unchanged %r deleted %r; the row refers to parent %r, current parent %r" % (how, added, unchanged, deleted, self.committed, self.code_of(cur))))

    def step(self, op):
        from sqlalchemy.orm import attributes

        k = op["op"]
        ch = self.child
        st = self.sa.inspect(ch)
        try:
            if k == "setcode":
                setattr(ch, self.col, op["v"])
                self.col_dirty = True
            elif k == "setrel":
                setattr(ch, self.rel, self.par(op["v"]))
            elif k == "loadrel":
                if not self.col_dirty:  # a lazy load after a column edit uses the CURRENT column value
                    getattr(ch, self.rel)
            elif k == "exprel":
                self.sess.expire(ch, [self.rel])
            elif k == "expall":
                if not st.modified:
                    self.sess.expire(ch)
                    self.col_dirty = False
            elif k == "hist":
                self.check_hist("attrs.%s.history" % self.rel, st.attrs[self.rel].history, False)
            elif k in ("load_history", "get_history"):
                if self.rel not in st.committed_state and self.rel not in st.dict and self.col_dirty:
                    return  # would lazy-load the relationship by the CURRENT column value (see loadrel)
                if k == "load_history":
                    self.check_hist("load_history()", st.attrs[self.rel].load_history(), True)
                else:
                    self.check_hist("attributes.get_history()", attributes.get_history(ch, self.rel), True)
            elif k == "flush":
                self.do_flush()
        except Exception as e:  # noqa: BLE001
            self.violations.append(("op-raised", "%s raised %s: %s" % (json.dumps(op), type(e).__name__, str(e)[:200])))

    def do_flush(self):
        st = self.sa.inspect(self.child)
        rel_set = self.rel in st.committed_state and self.rel in st.dict
        cur_par = self.code_of(st.dict.get(self.rel)) if rel_set else None
        colval = st.dict.get(self.col, self.committed)
        self.sess.flush()
        row = self.row()
        if rel_set and cur_par != self.committed:
            want = cur_par
        elif not rel_set:
            want = colval
        else:
            want = None  # relationship re-assigned to the committed parent while the column changed: not specified here
        if want is not None or (rel_set and cur_par is None and self.committed is not None) or (not rel_set and colval is None):
            if row != want:
                self.violations.append(("flush-ne-current", "after flush the row refers to %r, expected %r (relationship set: %s, column value %r)" % (row, want, rel_set, colval)))
                return
        self.committed = row
        if self.col_dirty and self.rel in st.dict:
            # the column was written directly: a relationship value loaded earlier is stale until
            # it is expired (the ORM does not refresh it) — do what a user has to do
            self.sess.expire(self.child, [self.rel])
        self.col_dirty = False

    def finish(self):
        if self.violations:
            return
        self.step({"op": "load_history"})
        if not self.violations:
            self.step({"op": "flush"})

    def close(self):
        self.sess.rollback()
        self.sess.close()


def gen_deferred_case(rng, maxops):
    case = {"deferred": True, "rel": rng.choice(["fk", "fk", "alt"]), "init": rng.choice(CODES[:3] + [None]), "ops": []}
    for _ in range(rng.randint(2, maxops)):
        c = rng.random()
        if c < 0.25:
            case["ops"].append({"op": "setcode", "v": rng.choice(CODES + [None])})
        elif c < 0.5:
            case["ops"].append({"op": "setrel", "v": rng.choice(CODES + [None])})
        elif c < 0.58:
            case["ops"].append({"op": "loadrel"})
        elif c < 0.64:
            # (whole-object expiry also expires the referencing column: the original can then not be
            #  resolved against committed values without loading it — not generated)
            case["ops"].append({"op": "exprel"})
        elif c < 0.9:
            case["ops"].append({"op": rng.choice(["hist", "load_history", "get_history"])})
        else:
            case["ops"].append({"op": "flush"})
    return case


def replay_deferred_case(case):
    R = DeferredRunner(case)
    for op in case["ops"]:
        if R.violations:
            break
        R.step(op)
    R.finish()
    return R


COLL_OPS = {
    "list": ["add", "remove", "pop", "delitem", "delslice", "clear", "extend", "insert", "rep", "delcoll"],
    "set": ["add", "remove", "discard", "pop", "clear", "update", "diffupd", "intupd", "symupd", "rep", "delcoll"],
    "dict": ["add", "remove", "pop", "discard", "popitem", "clear", "setdefault", "update", "rep", "delcoll"],
}


def gen_coll_case(rng, maxops):
    kind = rng.choice(["list", "set", "dict", "dict"])
    init = None if rng.random() < 0.2 else sorted(rng.sample(range(1, NC + 1), rng.randint(0, 4)))
    ops = []
    members = list(init or [])
    for _ in range(rng.randint(1, maxops)):
        c = rng.random()
        if c < 0.7:
            k = rng.choice(COLL_OPS[kind])
            op = {"op": k}
            if k in ("add", "remove", "discard", "setdefault", "insert") or (k == "pop" and kind == "dict"):
                op["x"] = rng.choice(members) if members and rng.random() < 0.6 else rng.randint(1, NC)
            if k in ("pop", "delitem", "insert") and kind == "list":
                op["i"] = rng.choice([0, -1, 1, 5])
            if k == "delslice":
                op["sl"] = [rng.choice([None, 0, 1]), rng.choice([None, 1, 2, -1]), rng.choice([None, 1, 2])]
            if k in ("extend", "update", "diffupd", "intupd", "symupd", "rep"):
                op["l"] = sorted(rng.sample(range(1, NC + 1), rng.randint(0, 3)))
            ops.append(op)
        elif c < 0.8:
            ops.append({"op": "flush"})
        elif c < 0.87:
            ops.append({"op": "commit"})
        elif c < 0.93:
            ops.append({"op": "exp"})
        else:
            ops.append({"op": "load"})
    return {"coll": True, "ckind": kind, "init": init, "ops": ops}


def replay_coll_case(case):
    R = CollRunner(case)
    for op in case["ops"]:
        if R.violations:
            break
        R.step(op)
    R.finish()
    return R


def gen_case(rng, maxops):
    kind = rng.choice(["scalar", "scalar", "object", "list", "list", "set"])
    if rng.random() < 0.3:
        init = None
    elif kind == "scalar":
        init = {"v": rng.choice([None, 0, 1, 2, 3])}
    elif kind == "object":
        init = {"v": rng.choice([None, 1, 2, 3])}
    else:
        init = {"v": sorted(rng.sample(range(1, NC + 1), rng.randint(0, 3)))}
    ops = []
    for _ in range(rng.randint(2, maxops)):
        c = rng.random()
        if kind in ("scalar", "object"):
            hi = 3 if kind == "scalar" else NB
            if c < 0.55:
                v = rng.choice([None] + list(range(0 if kind == "scalar" else 1, hi + 1)))
                if init is not None and rng.random() < 0.3:
                    v = init["v"]  # set back to the original
                ops.append({"op": "set", "v": v})
            elif c < 0.63:
                ops.append({"op": "del"})
            elif c < 0.70 and kind == "scalar":
                ops.append({"op": rng.choice(["commit", "reado", "reado"])})
            elif c < 0.78 and kind == "scalar":
                # expiring a relationship attribute goes through the lazy loader / identity map
                # (outside the model); exercised for scalar columns and collections
                ops.append({"op": "exp"})
            elif c < 0.87:
                ops.append({"op": "load"})
            else:
                ops.append({"op": "flush"})
        else:
            if c < 0.35:
                ops.append({"op": "app", "x": rng.randint(1, NC)})
            elif c < 0.6:
                ops.append({"op": "rem", "x": rng.randint(1, NC)})
            elif c < 0.7:
                ops.append({"op": "rep", "l": sorted(rng.sample(range(1, NC + 1), rng.randint(0, 3)))})
            elif c < 0.78:
                ops.append({"op": "exp"})
            elif c < 0.88:
                ops.append({"op": "load"})
            else:
                ops.append({"op": "flush"})
    return {"kind": kind, "init": init, "ops": ops}


def replay_case(case):
    R = Runner(case)
    for op in case["ops"]:
        if R.violations:
            break
        R.step(op)
    R.finish()
    return R


def model_line(case, R):
    ops = ";".join(R.model_ops) if R.model_ops else "-"
    init = case["init"]
    if case["kind"] in ("scalar", "object"):
        return "history scalar %d %s %s" % (1 if case["kind"] == "object" else 0, "F" if init is None else "L:" + sv(init["v"]), ops)
    return "history coll %s %s" % ("F" if init is None else "L:" + dots([str(x) for x in init["v"]]), ops)


def run(ctx, deep=False):
    thorough = ctx.tier == "thorough" or deep
    ctx.rule = (
        "mutation sequences (2..%d ops) on one attribute of a loaded or new object: scalar column (set incl. back to the original / None, del, "
        "expire, load, flush), many-to-one reference (same), list and set collections (append/add, remove, bulk replace, expire, load, flush); "
        "history read after every operation; non-trivial = at least 2 operations" % (16 if thorough else 9)
    )
    ctx.trusted.append("the harness keeps the committed value itself (set at load / flush) and compares the history with the plain difference")
    ctx.trusted.append("SQLite in-memory is the only backend executed")
    cases, impl_out, reqs = [], [], []
    n = 6000 if thorough else 900
    for _ in range(n):
        case = gen_case(ctx.rng, 16 if thorough else 9)
        R = replay_case(case)
        try:
            ctx.case(case, nontrivial=len(case["ops"]) >= 2)
            ctx.count("kind=%s/%s" % (case["kind"], "new" if case["init"] is None else "loaded"))
            for o in case["ops"]:
                ctx.count("op=%s:%s" % (case["kind"], o["op"]))
            if R.violations:
                ctx.violation("c36:" + R.violations[0][0], case, R.violations[0][1])
            if len(case["ops"]) >= 6:
                ctx.sample({"case": case, "final": R.obs[-1] if R.obs else ""}, cap=4)
            if case["kind"] != "set":
                cases.append(case)
                impl_out.append("|".join(R.obs) if R.obs else "-")
                reqs.append(model_line(case, R))
        finally:
            R.close()
    # directed: change an attribute while the whole object is expired (after commit), then read
    # another expired attribute before the flush — the pending change must survive the un-expire
    directed = []
    for v in (0, 2, None):
        for mods in ([{"op": "del"}], [{"op": "set", "v": 1}], [{"op": "set", "v": 1}, {"op": "del"}], [{"op": "set", "v": v}], [{"op": "exp"}, {"op": "del"}]):
            for tail in ([], [{"op": "flush"}], [{"op": "load"}], [{"op": "reado"}, {"op": "flush"}]):
                directed.append({"kind": "scalar", "init": {"v": v}, "ops": [{"op": "commit"}] + mods + [{"op": "reado"}] + tail})
    for case in directed:
        R = replay_case(case)
        try:
            ctx.case(case, nontrivial=True)
            ctx.count("kind=scalar/directed-expired")
            if R.violations:
                ctx.violation("c36:" + R.violations[0][0], case, R.violations[0][1])
            cases.append(case)
            impl_out.append("|".join(R.obs) if R.obs else "-")
            reqs.append(model_line(case, R))
        finally:
            R.close()
    for _ in range(n // 2):
        case = gen_coll_case(ctx.rng, 8 if thorough else 5)
        R = replay_coll_case(case)
        try:
            ctx.case(case, nontrivial=True)
            ctx.count("kind=coll-%s/%s" % (case["ckind"], "new" if case["init"] is None else "loaded"))
            for o in case["ops"]:
                ctx.count("op=coll-%s:%s" % (case["ckind"], o["op"]))
            if R.violations:
                ctx.violation("c36:" + R.violations[0][0], case, R.violations[0][1])
        finally:
            R.close()
    directed_d = [
        {"deferred": True, "rel": r, "init": "A", "ops": [{"op": "setcode", "v": "B"}, {"op": "setrel", "v": "C"}, {"op": h}]}
        for r in ("fk", "alt") for h in ("load_history", "get_history")
    ]
    for case in directed_d + [gen_deferred_case(ctx.rng, 8 if thorough else 6) for _ in range(n // 4)]:
        R = replay_deferred_case(case)
        try:
            ctx.case(case, nontrivial=True)
            ctx.count("kind=deferred-m2o/%s" % case["rel"])
            for o in case["ops"]:
                ctx.count("op=deferred:%s" % o["op"])
            if R.violations:
                ctx.violation("c36:" + R.violations[0][0], case, R.violations[0][1])
        finally:
            R.close()
    if ctx.driver_ok():
        bad = ["history scalar 0 L:5 frob", "history scalar 2 F -", "history coll Q -"]
        ctx.correspond("corr/c36:malformed-rejected", [{"line": l} for l in bad], ["bad-op"] * len(bad), ctx.driver(bad))
        ctx.correspond("corr/c36:dict+committed_state+history+row-vs-Model.History", cases, impl_out, ctx.driver(reqs))


def search(ctx, broken):
    sub = type(ctx)(ctx.pid, "thorough", ctx.seed + 1, ctx.level)
    run(sub, deep=True)
    ctx.violations.extend(sub.violations)


def replay(ctx, obj):
    case = obj["case"]
    if case.get("deferred"):
        R = replay_deferred_case(case)
        try:
            print("replay C36 %s" % json.dumps(case))
            print("oracle:", R.violations[:1] or "holds")
            return bool(R.violations)
        finally:
            R.close()
    if case.get("coll"):
        R = replay_coll_case(case)
        try:
            print("replay C36 %s" % json.dumps(case))
            print("oracle:", R.violations[:1] or "holds")
            return bool(R.violations)
        finally:
            R.close()
    R = replay_case(case)
    try:
        print("replay C36 %s" % json.dumps(case))
        for mop, o in zip(R.model_ops, R.obs):
            print("   %-14s %s" % (mop, o))
        print("oracle:", R.violations[:1] or "holds")
        return bool(R.violations)
    finally:
        R.close()
