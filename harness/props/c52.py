"""C52 — scoped_session gives each scope its own session.

Model     lean/SaVerif/Model/Scoped.lean (ScopedRegistry.__call__/has/clear +
          scoped_session.__call__/remove as an LTS with per-thread pcs)
Theorems  lean/SaVerif/Props/C52.lean (different_scope_different_session,
          returned_is_registered + registered_stable = same_scope_same_session,
          remove_only_current; any #threads, any thread->scope map, all interleavings)
Tie       real scoped_session objects (ScopedRegistry with a scopefunc, and
          ThreadLocalRegistry) driven by 2-4 workers under the deterministic scheduler
          with a switch possible at every line of util/_collections.py and
          orm/scoping.py and inside the session factory; the event trace (call / miss /
          create / ret / rm / has / close / clear, emitted at the linearisation points)
          must be a run of the LTS and the final registry / closed set / returned
          sessions must agree.
Oracle    on the real objects: calls in one scope with no clear() of that scope in
          between return the identical Session object; a Session object is never
          returned in two scopes; remove() closes only Sessions created in its own scope.
"""
import random

PID = "C52"
LEVEL = "proof"
LEAN = ["SaVerif.Props.C52"]
META = {
    "text": "Lean theorems over all reachable states of an LTS transcribed from ScopedRegistry.__call__/has/clear and scoped_session.__call__/remove (any number of threads, any assignment of threads to scopes, every interleaving incl. the KeyError -> createfunc -> setdefault window): a Session is never returned in two scopes, the value returned is the one registered for the scope and stays registered until a clear() of that scope, remove() never touches another scope's entry and closes only its own scope's sessions. Tied to the code by trace inclusion of real scoped_session executions under the deterministic scheduler plus an oracle on object identities.",
    "note": "Modelled-not-verified: dict get/setdefault/del atomicity (one step each), threading.local (per-worker shim). scoped_session(**kw) / configure() / proxied methods are exercised by the oracle only (they go through registry()). A Session created by the loser of a setdefault race is dropped without close() -- observed and counted, not part of the property.",
    "technique": "Lean 4 inductive invariant over an LTS + trace inclusion under a deterministic scheduler",
    "design_ref": "DESIGN.md §3 C52",
}


def gen_case(rng):
    nt = rng.choice([2, 3, 3, 4])
    mode = rng.choice(["scopefunc", "scopefunc", "threadlocal"])
    if mode == "threadlocal":
        scope = list(range(nt))
        nkeys = nt
    else:
        nkeys = rng.choice([1, 2, 2, 3])
        scope = [rng.randrange(nkeys) for _ in range(nt)]
    progs = []
    for _ in range(nt):
        n = rng.randint(1, 4)
        progs.append([rng.choice(["call", "call", "call", "remove", "proxy"]) for _ in range(n)])
    return {"mode": mode, "nkeys": nkeys, "scope": scope, "programs": progs}


def execute(case, chooser):
    """one scheduled run on the real code -> (labels, final canonical string, failures, stats)"""
    import gc
    import warnings

    import sqlalchemy.util._collections as coll
    from sqlalchemy.orm import Session, scoped_session, sessionmaker

    from harness import lib_sched

    sched = lib_sched.Sched(chooser, trace_files=("sqlalchemy/util/_collections.py", "sqlalchemy/orm/scoping.py"), max_steps=5000)
    labels, failures = [], []
    ids = {}
    keep = []
    closed = []
    got = []
    cur = {}  # oracle: scope key -> Session object currently expected
    owner_scope = {}
    ever_scope = {}
    scope = case["scope"]
    stats = {"dropped-setdefault-loser": 0}
    cleared_by = {}

    def sid(s):
        return ids[id(s)]

    def log(w, lab):
        labels.append("%d:%s" % (w.idx, lab))

    class S(Session):
        def close(self_):
            w = sched.cur()
            if w is not None:
                log(w, "close:%d" % sid(self_))
                closed.append(sid(self_))
                if owner_scope[sid(self_)] != scope[w.idx]:
                    failures.append(("c52-remove-closed-foreign-session", "thread %d (scope %d) closed session %d created in scope %d" % (w.idx, scope[w.idx], sid(self_), owner_scope[sid(self_)])))
            Session.close(self_)

    maker = sessionmaker(class_=S)

    def factory(**kw):
        w = sched.cur()
        s = maker(**kw)
        ids[id(s)] = len(keep)
        keep.append(s)
        owner_scope[sid(s)] = scope[w.idx]
        log(w, "create:%d" % sid(s))
        sched.yield_point("in-createfunc")  # createfunc is user code: anything can happen meanwhile
        return s

    def on_trace(w, frame, event, arg):
        qn = frame.f_code.co_qualname
        if qn in ("ScopedRegistry.__call__", "ThreadLocalRegistry.__call__"):
            if event == "call":
                log(w, "call")
            elif event == "return" and arg is not None:
                k = scope[w.idx]
                log(w, "ret:%d" % sid(arg))
                inside_remove = frame.f_back is not None and frame.f_back.f_code.co_qualname == "scoped_session.remove"
                # ---- oracle at the linearisation point
                if cur.get(k) is not None and cur[k] is not arg:
                    failures.append(("c52-same-scope-different-session", "scope %d: call returned session %d while %d is current" % (k, sid(arg), sid(cur[k]))))
                cur[k] = arg
                prev = ever_scope.setdefault(sid(arg), k)
                if prev != k:
                    failures.append(("c52-session-shared-between-scopes", "session %d returned in scope %d and scope %d" % (sid(arg), prev, k)))
                if not inside_remove:
                    got.append("%d>%d" % (w.idx, sid(arg)))
            elif event == "exception" and not getattr(arg[1], "_verif_seen", False):
                try:
                    arg[1]._verif_seen = True
                except Exception:
                    pass
                if type(arg[1]).__name__ in ("KeyError", "AttributeError"):
                    log(w, "miss")
        elif qn == "scoped_session.remove" and event == "call":
            log(w, "rm")
            cleared_by[w.idx] = []
        elif qn == "scoped_session.remove" and event == "return":
            # remove() must have executed the clear() of its own scope (entry deleted, or
            # nothing there to delete)
            observe(w)  # flush the state delta of the step that is just ending
            if scope[w.idx] not in cleared_by.get(w.idx, []):
                failures.append(("c52-remove-did-not-discard", "remove() in scope %d returned without clearing the scope" % scope[w.idx]))
        elif qn in ("ScopedRegistry.has", "ThreadLocalRegistry.has") and event == "return":
            back = frame.f_back
            if back is not None and back.f_code.co_qualname == "scoped_session.remove":
                log(w, "has:%d" % (1 if arg else 0))
        elif qn in ("ScopedRegistry.clear", "ThreadLocalRegistry.clear") and event == "exception":
            # `del` found nothing (KeyError / AttributeError): a clear() that changes nothing
            if not getattr(arg[1], "_verif_seen", False):
                try:
                    arg[1]._verif_seen = True
                except Exception:
                    pass
                log(w, "clear")
                cur[scope[w.idx]] = None
                cleared_by.setdefault(w.idx, []).append(scope[w.idx])

    def snapshot():
        if case["mode"] == "threadlocal":
            return {k: sched.workers[k].locals.get(id(ss.registry.registry), {}).get("value") for k in range(len(sched.workers))}
        return dict(ss.registry.registry)

    last = [{}]

    def observe(w):
        # an entry vanished since the previous hand-over: that was the `del` of clear()
        now = snapshot()
        for k, v in last[0].items():
            if v is not None and now.get(k) is None and w is not None:
                log(w, "clear")
                cur[k] = None
                cleared_by.setdefault(w.idx, []).append(k)
                if k != scope[w.idx]:
                    failures.append(("c52-remove-discarded-foreign-scope", "thread %d (scope %d) removed the registry entry of scope %d" % (w.idx, scope[w.idx], k)))
        last[0] = now

    sched.on_trace = on_trace
    sched.observers.append(observe)
    saved = coll.threading
    coll.threading = sched.threading_shim()
    gc_was = gc.isenabled()
    gc.disable()
    try:
        if case["mode"] == "threadlocal":
            ss = scoped_session(factory)
        else:
            ss = scoped_session(factory, scopefunc=lambda: scope[sched.cur().idx])

        def prog(w):
            for op in case["programs"][w.idx]:
                sched.yield_point("op")
                try:
                    if op == "call":
                        ss()
                    elif op == "proxy":
                        ss.info  # proxied attribute -> registry()
                    else:
                        ss.remove()
                except lib_sched.SchedKilled:
                    raise
                except Exception as e:  # noqa
                    failures.append(("c52-unexpected-exception", "%s raised %s: %s" % (op, type(e).__name__, e)))

        for _ in scope:
            sched.spawn(prog)
        with warnings.catch_warnings():
            warnings.simplefilter("ignore")
            status = sched.run()
        if status != "done":
            failures.append(("c52-no-progress", "scheduler status %s" % status))
        # final registry as the model prints it
        reg = []
        for k in range(case["nkeys"]):
            if case["mode"] == "threadlocal":
                ns = sched.workers[k].locals.get(id(ss.registry.registry), {})
                v = ns.get("value")
            else:
                v = ss.registry.registry.get(k)
            reg.append(str(sid(v)) if v is not None else "-")
        final = "ok reg=%s closed=%s got=%s" % (",".join(reg) or "-", ",".join(map(str, sorted(closed))) or "-", ",".join(got) or "-")
        stats["dropped-setdefault-loser"] = sum(1 for s in keep if sid(s) not in ever_scope)
    finally:
        coll.threading = saved
        for s in keep:
            Session.close(s)
        if gc_was:
            gc.enable()
    return labels, final, failures, stats


def model_line(case, labels):
    return "scoped run %d %s %s" % (case["nkeys"], ",".join(map(str, case["scope"])), ",".join(labels) or "-")


def run(ctx, deep=False):
    from harness import lib_sched

    ctx.rule = (
        "cases = (ScopedRegistry with scopefunc over 1-3 scope keys, or ThreadLocalRegistry) x 2-4 threads (several may share a scope) "
        "x 1-4 ops from {scoped_session(), proxied attribute, remove()} x one schedule (sticky random walk, switch prob 0.05..0.6, "
        "every line of util/_collections.py and orm/scoping.py and the inside of the session factory are switch points); "
        "non-trivial = trace has >= 8 labels; distinct = distinct (case, trace)"
    )
    ctx.trusted.append("harness/lib_sched.py (deterministic scheduler, per-worker threading.local shim)")
    thorough = ctx.tier == "thorough" or deep
    n = 12000 if thorough else 1500
    cases, impl_out, reqs = [], [], []
    for i in range(n):
        rng = random.Random("%s:%d:%d" % (PID, ctx.seed, i))
        case = gen_case(rng)
        seed, p = rng.randrange(1 << 30), rng.choice([0.05, 0.2, 0.4, 0.6])
        chooser = lib_sched.RandomChooser(random.Random(seed), p, 0.0)
        labels, final, failures, stats = execute(case, chooser)
        case = dict(case, choices=list(chooser.choices))
        ctx.case((model_line(case, labels),), nontrivial=len(labels) >= 8)
        ctx.count("mode=" + case["mode"])
        ctx.count("threads=%d" % len(case["scope"]))
        ctx.count("shared-scope" if len(set(case["scope"])) < len(case["scope"]) else "distinct-scopes")
        ctx.count("dropped-setdefault-loser", stats["dropped-setdefault-loser"])
        for l in labels:
            ctx.count("label=" + l.split(":")[1])
        for key, detail in failures[:3]:
            ctx.violation(key, case, detail)
        cases.append(case)
        impl_out.append(final)
        reqs.append(model_line(case, labels))
        if len(labels) > 25:
            ctx.sample({"case": {k: v for k, v in case.items() if k != "choices"}, "trace": ",".join(labels), "final": final})
    if ctx.driver_ok():
        ctx.correspond("corr/c52:scoped_session-trace-inclusion-in-Model.Scoped", cases, impl_out, ctx.driver(reqs))
    ctx.exhaustive = False


def search(ctx, broken):
    sub = type(ctx)(ctx.pid, "thorough", ctx.seed + 1, ctx.level)
    run(sub, deep=True)
    ctx.violations.extend(sub.violations)


def replay(ctx, obj):
    from harness import lib_sched

    c = obj["case"]
    labels, final, failures, _ = execute(c, lib_sched.ReplayChooser(c.get("choices") or []))
    print("replay C52 %s" % {k: v for k, v in c.items() if k != "choices"})
    print("  trace:", ",".join(labels))
    print("  final:", final)
    print("  oracle:", failures or "no violation")
    return bool(failures)
