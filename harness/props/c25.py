"""C25 — the pool never hands one connection to two holders and respects its limits.

Model     lean/SaVerif/Model/Pool.lean   (QueuePool + Queue as an LTS with per-thread pcs)
Theorems  lean/SaVerif/Props/C25.lean    (invariants by induction over steps, any #threads/sizes)
Tie       every execution of the REAL QueuePool under a deterministic cooperative
          scheduler (harness/lib_sched.py: real threads, one runnable at a time, a switch
          possible at every line of pool/impl.py and util/queue.py and at every lock
          operation, virtual clock) yields an event trace (harness/lib_pool.py: labels
          emitted at the linearisation points -- property reads/writes of `_overflow`,
          queue deltas, raise sites) which the Lean driver replays: trace inclusion in the
          LTS + equality of the final state.  Theorem `inv_of_run` then gives the
          invariants at every point of every observed execution.
Oracle    independent of the model, on the live objects at every scheduling point:
          overflow <= max_overflow, open DBAPI connections <= pool_size + max_overflow,
          idle <= pool_size, no connection / record in two live checkouts or both held
          and idle, checkedout() == live checkouts at rest, TimeoutError only after the
          full timeout, a waiter is never left waiting while a connection is idle,
          no deadlock, no unexpected exception.  NullPool / SingletonThreadPool get the
          direct oracle only (exclusivity, no leak).
"""
import hashlib
import json
import os
import random

PID = "C25"
LEVEL = "proof"
LEAN = ["SaVerif.Props.C25"]
META = {
    "text": "Lean theorems over ALL reachable states of a labelled transition system transcribed from QueuePool._do_get/_do_return_conn/_inc_overflow/_dec_overflow and util.queue.Queue (any number of threads, any pool_size/max_overflow, FIFO/LIFO, every interleaving of the atomic steps incl. the unlocked reads of _overflow): overflow <= max_overflow, idle+held+in-flight <= pool_size+max_overflow, idle <= pool_size, each record in at most one place (queue / one holder / in transit), checkedout() = live checkouts at rest, _overflow_lock is a mutex, Empty/timeout only on an empty queue (a returned connection enables the waiter and disables its timeout). Tied to the code by trace inclusion: every run of the real QueuePool under a deterministic line-level scheduler is replayed by the Lean driver as a run of the LTS, plus an independent invariant oracle on the live objects at every scheduling point.",
    "note": "Modelled-not-verified: threading.Lock/RLock/Condition (cooperative re-implementations injected into the module namespaces), deque, the GIL atomicity of `self._overflow += 1` (one step; in max_overflow=-1 mode the code takes no lock), weakref callbacks only at operation boundaries (no re-entrant put inside get), dispose()/recreate()/detach() excluded. AsyncAdaptedQueuePool is covered by C29. Schedules are sampled (seeded random walk + PCT) in quick and additionally explored by preemption-bounded DFS in thorough; the theorems, not the sampling, carry the for-all-interleavings claim, the sampling validates the model.",
    "technique": "Lean 4 inductive invariant over an LTS + trace-inclusion check of real executions under a deterministic scheduler",
    "design_ref": "DESIGN.md §3 C25",
}

KINDS = ("ci", "ci", "ci", "ci", "inv", "soft", "drop")


def gen_program(rng, n):
    ops, held = [], 0
    for _ in range(n):
        if held == 0 or rng.random() < 0.45:
            if rng.random() < 0.12:
                ops.append(["failnext", 1])
            ops.append(["co"])
            held += 1
        else:
            ops.append([rng.choice(KINDS), rng.randrange(3)])
            held -= 1
    return ops


def gen_case(rng, small=False):
    size = rng.choice([0, 1, 1, 1, 2, 2, 3])
    mo = rng.choice([-1, 0, 0, 1, 1, 2])
    cfg = {"size": size, "max_overflow": mo, "lifo": rng.random() < 0.4, "timeout": 5.0}
    nt = rng.choice([2, 2, 3]) if small else rng.choice([2, 3, 3, 4])
    progs = [gen_program(rng, rng.randint(1, 3) if small else rng.randint(2, 5)) for _ in range(nt)]
    return cfg, progs


def gen_strategy(rng):
    x = rng.random()
    if x < 0.6:
        return ["rand", rng.randrange(1 << 30), rng.choice([0.03, 0.1, 0.25, 0.5]), rng.choice([0.0, 0.02, 0.1])]
    return ["pct", rng.randrange(1 << 30), rng.choice([2, 3, 4]), rng.choice([0.0, 0.05])]


def make_chooser(strat, nthreads):
    from harness import lib_sched

    if strat[0] == "rand":
        return lib_sched.RandomChooser(random.Random(strat[1]), strat[2], strat[3])
    if strat[0] == "pct":
        return lib_sched.PCTChooser(random.Random(strat[1]), nthreads, depth=strat[2], est_steps=60 * nthreads, p_early=strat[3])
    if strat[0] == "replay":
        return lib_sched.ReplayChooser(strat[1])
    if strat[0] == "dfs":
        return lib_sched.DFSChooser(strat[1])
    raise ValueError(strat)


def fmt(l):
    return ",".join(str(x) for x in l) if l else "-"


def execute(spec, want_choices=False):
    """run one spec on the real code; returns a JSON-able result"""
    from harness import lib_pool

    kind, cfg, progs, strat = spec["kind"], spec["cfg"], spec["programs"], spec["strat"]
    progs_t = [[tuple(op) for op in p] for p in progs]
    chooser = make_chooser(strat, len(progs))
    if kind in ("QueuePool",):
        r = lib_pool.PoolRun(cfg, progs_t, chooser).run(kind)
        n = len(progs)
        line = "pool run %d %d %d %d %s" % (cfg["size"], cfg["max_overflow"], int(cfg["lifo"]), n, ",".join(r.labels) or "-")
        fin = r.final
        co = r.pool._pool.maxsize - len(fin["queue"]) + fin["overflow"]
        impl = "ok ov=%d q=%s out=%s co=%d pcs=%s" % (fin["overflow"], fmt(fin["queue"]), fmt(fin["live"]), co, "/".join(["idle"] * n))
        if r.status != "done":
            impl = "not-finished " + str(r.status)
    else:
        r = lib_pool.SimplePoolRun(kind, cfg, progs_t, chooser).run()
        line, impl = None, None
    stats = {}
    for o in r.outcomes:
        for x in o:
            stats["outcome=" + x] = stats.get("outcome=" + x, 0) + 1
    for l in r.labels:
        k = l.split(":")[1]
        if k in ("qf", "to", "cf", "qe", "pop", "put"):
            stats["label=" + k] = stats.get("label=" + k, 0) + 1
    stats["forced-timeouts"] = len(r.sched.forced_timeouts)
    res = {
        "line": line,
        "impl": impl,
        "failures": r.oracle_failures,
        "steps": r.sched.steps,
        "stats": stats,
        "sig": hashlib.md5(("|".join(r.labels) + json.dumps(r.outcomes)).encode()).hexdigest()[:16],
        "nlabels": len(r.labels),
    }
    if want_choices or r.oracle_failures or strat[0] == "dfs":
        res["choices"] = list(r.chooser.choices)
    if strat[0] == "dfs":
        res["alts"] = r.chooser.alts
    return res


def _batch(specs):
    """execute specs in order; once 3 of them violated the oracle the rest of the
    batch is skipped (None) -- the property is already refuted, keep the run short"""
    from harness import vlib

    vlib.source_mode()
    out, bad = [], 0
    for s in specs:
        if bad >= 3:
            out.append(None)
            continue
        r = execute(s)
        bad += 1 if r["failures"] else 0
        out.append(r)
    return out


def run_specs(specs, procs=None):
    """execute specs (in parallel worker processes, order preserved)"""
    import multiprocessing as mp

    procs = procs or max(1, min(4, (os.cpu_count() or 2) // 4))
    if len(specs) < 40 or procs <= 1:
        return _batch(specs)
    chunk = max(10, len(specs) // (procs * 4))
    parts = [specs[i : i + chunk] for i in range(0, len(specs), chunk)]
    with mp.get_context("fork").Pool(procs) as pool:
        out = pool.map(_batch, parts)
    return [r for part in out for r in part]


def dfs_specs(kind, cfg, progs, bound, cap, rng):
    """preemption-bounded DFS over schedules of one program set (stateless model
    checking: every schedule re-executes from scratch).  Yields results."""
    stack = [([], 0)]
    seen = set()
    n = 0
    while stack and n < cap:
        prefix, npre = stack.pop()
        spec = {"kind": kind, "cfg": cfg, "programs": progs, "strat": ["dfs", prefix]}
        res = execute(spec)
        n += 1
        ch, alts = res["choices"], res["alts"]
        yield spec, res
        for k in range(len(prefix), len(ch)):
            options, current = alts[k]
            for o in options:
                if o == ch[k] or o.startswith("to:"):
                    continue
                pre = npre + (1 if current in options else 0)
                if pre > bound:
                    continue
                key = tuple(ch[:k]) + (o,)
                if key in seen:
                    continue
                seen.add(key)
                stack.append((list(key), pre))
        if len(stack) > 4 * cap:
            rng.shuffle(stack)
            del stack[cap:]


def _dfs_task(args):
    from harness import vlib

    vlib.source_mode()
    kind, cfg, progs, bound, cap, seed = args
    out = []
    bad = 0
    for spec, res in dfs_specs(kind, cfg, progs, bound, cap, random.Random(seed)):
        bad += 1 if res["failures"] else 0
        if bad > 3:
            break
        res.pop("alts", None)
        if not res["failures"]:
            res.pop("choices", None)
        out.append((spec if res["failures"] else None, res))
    return out


def absorb(ctx, spec, res, cases, impl_out, reqs):
    ctx.case(res["sig"], nontrivial=res["nlabels"] > 10)
    for k, v in res["stats"].items():
        ctx.count(k, v)
    ctx.count("kind=" + spec["kind"])
    ctx.count("threads=%d" % len(spec["programs"]))
    ctx.count("strategy=" + spec["strat"][0])
    if spec["kind"] == "QueuePool":
        c = spec["cfg"]
        ctx.count("cfg size=%d max_overflow=%d" % (c["size"], c["max_overflow"]))
    for key, detail in res["failures"]:
        case = {"kind": spec["kind"], "cfg": spec["cfg"], "programs": spec["programs"], "choices": res.get("choices")}
        ctx.violation(key, case, detail)
    if res["line"] is not None:
        cases.append({"kind": spec["kind"], "cfg": spec["cfg"], "programs": spec["programs"], "strat": spec["strat"]})
        impl_out.append(res["impl"])
        reqs.append(res["line"])


def run(ctx, deep=False):
    ctx.rule = (
        "cases = (pool_size 0..3, max_overflow -1..2, FIFO/LIFO, 2-4 threads x 2-5 ops from "
        "{checkout, close, invalidate, soft-invalidate+close, drop (GC), connect-failure}) x one schedule each "
        "(sticky random walk with switch prob 0.03..0.5 or PCT depth 2..4, early timeouts 0..10%); thorough adds "
        "preemption-bounded DFS (bound 1 exhaustive, bound 2 capped) on small programs; a case is non-trivial when its "
        "trace has > 10 labels; distinct = distinct (label trace, outcomes)"
    )
    ctx.trusted.append("harness/lib_sched.py cooperative Lock/RLock/Condition + virtual clock stand in for threading/time (modelled, not verified)")
    ctx.trusted.append("harness/lib_pool.py label extraction (settrace call/exception events, _overflow property on a harness subclass, queue deltas)")
    ctx.assumptions.append("`self._overflow += 1` executes atomically (single statement, no call) -- CPython with the GIL; free-threaded builds are out of scope")
    ctx.assumptions.append("weakref/GC finalisation of a dropped checkout happens at an operation boundary of the dropping thread (cyclic GC disabled during a run)")
    thorough = ctx.tier == "thorough" or deep
    nq = 8000 if thorough else 800
    specs = []
    for i in range(nq):
        rng = random.Random("%s:%d:%d" % (PID, ctx.seed, i))
        cfg, progs = gen_case(rng)
        specs.append({"kind": "QueuePool", "cfg": cfg, "programs": progs, "strat": gen_strategy(rng)})
    for i in range(nq // 8):
        rng = random.Random("%s:s:%d:%d" % (PID, ctx.seed, i))
        cfg, progs = gen_case(rng)
        st = gen_strategy(rng)
        st[3] = 0.0
        specs.append({"kind": rng.choice(["NullPool", "SingletonThreadPool"]), "cfg": cfg, "programs": progs, "strat": st})
    results = run_specs(specs)
    cases, impl_out, reqs = [], [], []
    for spec, res in zip(specs, results):
        if res is None:
            ctx.count("skipped-after-violations")
            continue
        absorb(ctx, spec, res, cases, impl_out, reqs)
        if res["line"] is not None and len(ctx.samples) < 4 and res["nlabels"] > 40:
            ctx.sample({"cfg": spec["cfg"], "programs": spec["programs"], "strategy": spec["strat"][0], "trace": res["line"].split()[-1][:400], "final": res["impl"]})
    if thorough:
        import multiprocessing as mp

        tasks = []
        for i in range(36):
            rng = random.Random("%s:dfs:%d:%d" % (PID, ctx.seed, i))
            cfg, progs = gen_case(rng, small=True)
            bound, cap = (1, 1500) if i % 3 else (2, 2500)
            tasks.append(("QueuePool", cfg, progs, bound, cap, ctx.seed * 1000 + i))
        with mp.get_context("fork").Pool(max(1, min(4, (os.cpu_count() or 2) // 4))) as pool:
            outs = pool.map(_dfs_task, tasks, chunksize=1)
        for task, out in zip(tasks, outs):
            ctx.count("dfs-configs")
            for spec, res in out:
                spec = spec or {"kind": task[0], "cfg": task[1], "programs": task[2], "strat": ["dfs", None]}
                absorb(ctx, spec, res, cases, impl_out, reqs)
    if ctx.driver_ok():
        ctx.correspond("corr/c25:QueuePool-trace-inclusion-in-Model.Pool", cases, impl_out, ctx.driver(reqs))
    ctx.exhaustive = False
    ctx.explanation = "schedules are sampled / preemption-bounded; the for-all-schedules claim is carried by the Lean induction, the runs validate the model against the code"


def search(ctx, broken):
    """an obligation broke and the normal run saw no invariant violation: re-run the
    disagreeing cases under many more schedules and do a deeper general search"""
    specs = []
    for d in ctx.disagreements[:20]:
        c = d["case"]
        for j in range(150):
            rng = random.Random("%s:search:%d:%d" % (PID, ctx.seed, j))
            specs.append({"kind": c["kind"], "cfg": c["cfg"], "programs": c["programs"], "strat": gen_strategy(rng)})
    results = run_specs(specs)
    for spec, res in zip(specs, results):
        if res is None:
            continue
        for key, detail in res["failures"]:
            ctx.violation(key, {"kind": spec["kind"], "cfg": spec["cfg"], "programs": spec["programs"], "choices": res.get("choices")}, detail)
    if not ctx.violations:
        sub = type(ctx)(ctx.pid, "thorough", ctx.seed + 1, ctx.level)
        run(sub, deep=True)
        ctx.violations.extend(sub.violations)


def replay(ctx, obj):
    c = obj["case"]
    spec = {"kind": c["kind"], "cfg": c["cfg"], "programs": c["programs"], "strat": ["replay", c["choices"] or []]}
    res = execute(spec, want_choices=True)
    print("replay C25 %s cfg=%s programs=%s" % (c["kind"], c["cfg"], c["programs"]))
    print("  trace:", (res["line"] or "").split()[-1][:1500])
    print("  oracle:", res["failures"] or "no violation")
    return bool(res["failures"])
