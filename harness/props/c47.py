"""C47 — with autoflush on, queries see all pending changes.

Model: lean/SaVerif/Model/Autoflush.lean (a Session with pending adds /
modifications / deletes over P(id, a), C(id, pid, a); ORM queries, counts, Core
selects, legacy Query objects made of Table columns / func.count only, Session.get, lazy loads, each with autoflush on / disabled by execution
option / inside no_autoflush).  Theorems: lean/SaVerif/Props/C47.lean.

Direct oracle, two independent parts (neither uses the Lean model):
 1. metamorphic, the property verbatim: the same history is replayed on a second
    Session in which `flush()` is called explicitly before every query / get of an
    absent identity / lazy load and the operation itself runs inside
    `no_autoflush`; every such operation must return exactly what the autoflushing
    Session returned;
 2. reference: the harness applies every add / modification / delete to a plain
    dict at once; an autoflushing operation must return the rows that dict holds.
"""
import os
import shutil
import tempfile
import warnings

PID = "C47"
LEVEL = "proof"
LEAN = ["SaVerif.Props.C47"]
META = {
    "text": "Lean theorems over the session model for ALL states and pending sets: flush applies every pending INSERT (by induction over session.new: insertAll_spec), UPDATE and DELETE, so the flushed database is the pointwise specification `specDb` (flush_eq_spec); flush is idempotent (flush_flush); therefore an autoflushing query / count / Core select / get of an absent identity / lazy load returns exactly what the same operation returns after an explicit flush (autoflush_query_eq_flush_then_query and siblings) and is evaluated over specDb (query_reflects_pending); with autoflush disabled by option or no_autoflush the operation is evaluated over the unflushed database (no_autoflush_sees_db). Tied to orm/session.py, context.py, strategies.py, loading.py by a differential run on real Sessions over SQLite; the property is re-checked verbatim by a metamorphic twin run (explicit flush + no_autoflush) and by a dict reference.",
    "note": "Trusted: Lean kernel; correspondence (sampling + exhaustive short sequences); SQLite. Relationship-collection mutation, cascades and bulk UPDATE/DELETE statements (which also autoflush) are not modelled; lazy loads are exercised on a viewonly one-to-many. The theorem content is mostly definitional once the flush is specified; the tie to the code is the differential + metamorphic run.",
    "technique": "Lean 4 proofs (induction over the pending list, idempotence) + differential correspondence + metamorphic twin execution on SQLite",
    "design_ref": "DESIGN.md §3 C30–C48 (C47)",
}

_W = None
_TMP = None


def _tmpdir():
    global _TMP
    if _TMP is None:
        base = "/dev/shm" if os.path.isdir("/dev/shm") else None
        _TMP = tempfile.mkdtemp(prefix="verif-c47-", dir=base)
        import atexit

        atexit.register(shutil.rmtree, _TMP, True)
    return _TMP


class World:
    def __init__(self):
        import sqlalchemy as sa
        from sqlalchemy.orm import declarative_base, relationship

        self.sa = sa
        self.engine = sa.create_engine("sqlite:///" + os.path.join(_tmpdir(), "c47.db"))
        Base = declarative_base()
        from harness.lib_orm2 import odd_mixin

        Odd = odd_mixin("id", "a")

        class P(Odd, Base):
            __tablename__ = "p"
            id = sa.Column(sa.Integer, primary_key=True, autoincrement=False)
            a = sa.Column(sa.Integer)
            children = relationship("C", viewonly=True, order_by="C.id", lazy="select")

        class C(Odd, Base):
            __tablename__ = "c"
            id = sa.Column(sa.Integer, primary_key=True, autoincrement=False)
            pid = sa.Column(sa.Integer, sa.ForeignKey("p.id"), nullable=True)
            a = sa.Column(sa.Integer)

        self.P, self.C = P, C
        self.cls = [P, C]
        Base.metadata.drop_all(self.engine)
        Base.metadata.create_all(self.engine)

    def reset(self):
        with self.engine.begin() as c:
            c.exec_driver_sql("delete from c")
            c.exec_driver_sql("delete from p")


def world():
    global _W
    if _W is None:
        _W = World()
    return _W


def build_stmt(w, kind, q):
    """kind in q / cnt / core (select on the Table) / lq, lcnt (legacy Query of Table columns only)"""
    sa = w.sa
    P, C = w.P, w.C
    name = q[0]
    if kind in ("lq", "lcnt"):
        return None
    if kind == "core":
        pt, ct = P.__table__, C.__table__
        tabs = [pt, ct]
        if name == "all":
            t = tabs[q[1]]
            return sa.select(t.c.id).order_by(t.c.id)
        if name == "a":
            t = tabs[q[1]]
            return sa.select(t.c.id).where(t.c.a == q[2]).order_by(t.c.id)
        if name == "pid":
            return sa.select(ct.c.id).where(ct.c.pid == q[1]).order_by(ct.c.id)
        return sa.select(pt.c.id).join(ct, ct.c.pid == pt.c.id).where(ct.c.a == q[1]).distinct().order_by(pt.c.id)
    if name == "all":
        T = w.cls[q[1]]
        crit, ent, join = None, T, None
    elif name == "a":
        T = w.cls[q[1]]
        crit, ent, join = (T.a == q[2]), T, None
    elif name == "pid":
        crit, ent, join = (C.pid == q[1]), C, None
    else:
        crit, ent, join = (C.a == q[1]), P, (C, C.pid == P.id)
    if kind == "q":
        st = sa.select(ent)
        if join:
            st = st.join(*join).distinct()
        if crit is not None:
            st = st.where(crit)
        return st.order_by(ent.id)
    st = sa.select(sa.func.count(sa.distinct(ent.id))).select_from(ent)
    if join:
        st = st.join(*join)
    if crit is not None:
        st = st.where(crit)
    return st


def legacy_query(w, sess, kind, q, m):
    """session.query(<columns of the Table> | func.count(<table column>)): no ORM entity anywhere"""
    sa = w.sa
    pt, ct = w.P.__table__, w.C.__table__
    tabs = [pt, ct]
    name = q[0]
    if name == "all":
        t, crit, join = tabs[q[1]], None, None
    elif name == "a":
        t = tabs[q[1]]
        crit, join = (t.c.a == q[2]), None
    elif name == "pid":
        t, crit, join = ct, (ct.c.pid == q[1]), None
    else:
        t, crit, join = pt, (ct.c.a == q[1]), (ct, ct.c.pid == pt.c.id)
    qq = sess.query(t.c.id) if kind == "lq" else sess.query(sa.func.count(sa.distinct(t.c.id)))
    if join:
        qq = qq.join(*join)
    if crit is not None:
        qq = qq.filter(crit)
    if kind == "lq":
        qq = qq.distinct().order_by(t.c.id)
    if m == "opt":
        qq = qq.autoflush(False)
    return qq


def eval_ref(rows, q):
    """reference evaluation over dict (t, id) -> [a, pid]; returns (t, ids)"""
    name = q[0]
    if name == "all":
        return q[1], sorted(i for (t, i) in rows if t == q[1])
    if name == "a":
        return q[1], sorted(i for (t, i), r in rows.items() if t == q[1] and r[0] == q[2])
    if name == "pid":
        return 1, sorted(i for (t, i), r in rows.items() if t == 1 and r[1] == q[1])
    return 0, sorted(
        i for (t, i) in rows if t == 0 and any(t2 == 1 and r[1] == i and r[0] == q[1] for (t2, _), r in rows.items())
    )


READ_KINDS = ("q", "cnt", "core", "lq", "lcnt", "get", "kids")


def run_history(case, twin=False):
    import traceback

    try:
        return _run_history(case, twin)
    except Exception as e:
        tb = traceback.extract_tb(e.__traceback__)
        where = ["%s:%d" % (os.path.basename(f.filename), f.lineno) for f in tb if "sqlalchemy" in f.filename][-3:]
        return ["crash:" + type(e).__name__], [("unexpected-exception", "%s: %s at %s" % (type(e).__name__, str(e)[:200], where))]


def _run_history(case, twin):
    """twin=False: the autoflushing session.  twin=True: explicit flush() before every
    reading operation that the property names, the operation itself under no_autoflush.
    Returns (list of per-op outputs, problems)."""
    import contextlib

    from sqlalchemy import inspect
    from sqlalchemy.exc import IntegrityError
    from sqlalchemy.orm import Session

    w = world()
    w.reset()
    af, ops = case["af"], case["ops"]
    sess = Session(w.engine, autoflush=bool(af) and not twin, expire_on_commit=False)
    keep = []  # strong references: the identity map is weak
    pend = {}
    outs, problems = [], []
    # reference dicts
    flushed = {}  # every pending change applied at once
    committed = {}
    poisoned = [False]

    def ident(k):
        key = inspect(w.cls[k[0]]).identity_key_from_primary_key((k[1],))
        return sess.identity_map.get(key)

    def prune():
        for k, o in list(pend.items()):
            if not inspect(o).pending:
                del pend[k]

    def on_rollback():
        flushed.clear()
        flushed.update({k: list(v) for k, v in committed.items()})
        poisoned[0] = False
        prune()

    def reading(m, present=False):
        """context for a reading op; in the twin run: flush first when the property says the
        autoflushing session would, then forbid autoflush"""
        if twin and af and m == "on" and not present:
            sess.flush()
        if m == "ctx" or twin:
            return sess.no_autoflush
        return contextlib.nullcontext()

    try:
        with warnings.catch_warnings():
            warnings.simplefilter("ignore")
            for op in ops:
                kind = op[0]
                try:
                    if kind == "add":
                        k = (op[1], op[2])
                        if ident(k) is not None or k in pend:
                            outs.append("-")
                            continue
                        T = w.cls[k[0]]
                        o = T(id=k[1], a=op[3]) if k[0] == 0 else T(id=k[1], a=op[3], pid=op[4])
                        sess.add(o)
                        keep.append(o)
                        pend[k] = o
                        if k in flushed:
                            poisoned[0] = True
                        else:
                            flushed[k] = [op[3], op[4] if k[0] == 1 else None]
                        outs.append("d")
                    elif kind in ("seta", "setp"):
                        k = (op[1], op[2])
                        if kind == "setp" and k[0] != 1:
                            outs.append("-")
                            continue
                        o = ident(k)
                        if o is not None and o in sess.deleted:
                            outs.append("-")
                            continue
                        if o is None:
                            o = pend.get(k)
                        if o is None:
                            outs.append("-")
                            continue
                        if kind == "seta":
                            o.a = op[3]
                            if not (poisoned[0] and k in pend):
                                flushed[k][0] = op[3]
                        else:
                            o.pid = op[3]
                            if not (poisoned[0] and k in pend):
                                flushed[k][1] = op[3]
                        outs.append("d")
                    elif kind == "del":
                        k = (op[1], op[2])
                        o = ident(k)
                        if o is None or o in sess.deleted:
                            outs.append("-")
                            continue
                        sess.delete(o)
                        flushed.pop(k, None)
                        outs.append("d")
                    elif kind in ("q", "cnt", "core", "lq", "lcnt"):
                        m, q = op[1], op[2]
                        stmt = build_stmt(w, kind, q)
                        if m == "opt" and stmt is not None:
                            stmt = stmt.execution_options(autoflush=False)
                        with reading(m):
                            if kind == "lq":
                                got = [r[0] for r in legacy_query(w, sess, kind, q, m).all()]
                                outs.append("{" + " ".join(str(x) for x in got) + "}")
                                res = None
                            elif kind == "lcnt":
                                got = legacy_query(w, sess, kind, q, m).scalar()
                                outs.append("#%d" % got)
                                res = None
                            else:
                                res = sess.execute(stmt)
                            if res is None:
                                pass
                            elif kind == "q":
                                objs = res.scalars().all()
                                keep.extend(objs)
                                got = [(o.id, o.a) for o in objs]
                                outs.append("[" + " ".join("%d=%s" % x for x in got) + "]")
                            elif kind == "cnt":
                                got = res.scalar()
                                outs.append("#%d" % got)
                            else:
                                got = [r[0] for r in res]
                                outs.append("{" + " ".join(str(x) for x in got) + "}")
                        prune()
                        # ---- reference
                        flushing = af and (m == "on" or (kind == "core" and m == "opt"))
                        if flushing and not twin:
                            if poisoned[0]:
                                problems.append(("duplicate-insert-not-detected", "op %s" % (op,)))
                            t, ids = eval_ref(flushed, q)
                            exp = [(i, flushed[(t, i)][0]) for i in ids] if kind == "q" else (len(ids) if kind in ("cnt", "lcnt") else ids)
                            if got != exp:
                                problems.append(("query-misses-pending-change", "%s returned %s, pending state says %s" % (op, got, exp)))
                    elif kind == "get":
                        m, k = op[1], (op[2], op[3])
                        present = ident(k) is not None
                        with reading(m, present):
                            kw = {"execution_options": {"autoflush": False}} if m == "opt" else {}
                            o = sess.get(w.cls[k[0]], k[1], **kw)
                        if o is None:
                            outs.append("None")
                        else:
                            keep.append(o)
                            outs.append("o%s%s" % (o.a, "!" if o in sess.deleted else ""))
                        prune()
                        if af and m == "on" and not present and not twin:
                            exp = flushed.get(k)
                            if (o is None) != (exp is None) or (o is not None and o.a != exp[0]):
                                problems.append(("get-misses-pending-change", "get%s -> %s, pending state says %s" % (k, outs[-1], exp)))
                    elif kind == "kids":
                        m, p = op[1], op[2]
                        par = ident((0, p))
                        if par is None or par in sess.deleted:
                            outs.append("-")
                            continue
                        with reading(m):
                            sess.expire(par, ["children"])
                            kids = list(par.children)
                        keep.extend(kids)
                        got = [(c.id, c.a) for c in kids]
                        outs.append("[" + " ".join("%d=%s" % x for x in got) + "]")
                        prune()
                        if af and m == "on" and not twin:
                            _, ids = eval_ref(flushed, ("pid", p))
                            exp = [(i, flushed[(1, i)][0]) for i in ids]
                            if got != exp:
                                problems.append(("lazyload-misses-pending-change", "children(%d) -> %s, pending state says %s" % (p, got, exp)))
                    elif kind == "flush":
                        sess.flush()
                        prune()
                        outs.append("d")
                    elif kind == "commit":
                        sess.commit()
                        prune()
                        committed.clear()
                        committed.update({k: list(v) for k, v in flushed.items()})
                        outs.append("d")
                    else:
                        raise ValueError(op)
                except IntegrityError:
                    sess.rollback()
                    if not poisoned[0] and not twin:
                        problems.append(("unjustified-integrity-error", "op %s" % (op,)))
                    on_rollback()
                    outs.append("integrity")
                    break  # every object is expired now: the history ends here (expiry is C46's subject)
    finally:
        try:
            sess.close()
        except Exception:
            pass
    return outs, problems


# ---------------------------------------------------------------------- encoding
def enc_q(q):
    return ":".join(str(x) for x in q)


def enc_op(op):
    k = op[0]
    if k == "add":
        return "add:%d:%d:%d:%s" % (op[1], op[2], op[3], "N" if op[4] is None else op[4])
    if k == "setp":
        return "setp:%d:%d:%s" % (op[1], op[2], "N" if op[3] is None else op[3])
    if k in ("q", "cnt", "core", "lq", "lcnt"):
        return "%s:%s:%s" % (k, op[1], enc_q(op[2]))
    return ":".join(str(x) for x in op)


def request(case):
    return "autoflush run %d %d %s" % (case["n"], case["af"], ",".join(enc_op(o) for o in case["ops"]) or "-")


# ---------------------------------------------------------------------- generators
def rand_q(rng, n):
    r = rng.random()
    if r < 0.25:
        return ("all", rng.randrange(2))
    if r < 0.6:
        return ("a", rng.randrange(2), rng.randint(0, 2))
    if r < 0.8:
        return ("pid", rng.randrange(n))
    return ("join", rng.randint(0, 2))


def rand_mode(rng):
    return rng.choice(["on", "on", "on", "opt", "ctx"])


def gen_random(rng, tier):
    n = rng.choice([2, 3, 3, 4])
    ops = []
    # some committed base data
    for t in (0, 1):
        for i in range(n):
            if rng.random() < 0.5:
                ops.append(("add", t, i, rng.randint(0, 2), rng.randrange(n) if t == 1 and rng.random() < 0.8 else None))
    ops.append(("commit",))
    if rng.random() < 0.7:
        ops.append(("q", "on", ("all", 0)))
        ops.append(("q", "on", ("all", 1)))
    m = rng.randint(5, 14 if tier == "quick" else 24)
    for _ in range(m):
        t, i = rng.randrange(2), rng.randrange(n)
        r = rng.random()
        if r < 0.14:
            ops.append(("add", t, i, rng.randint(0, 2), rng.randrange(n) if t == 1 and rng.random() < 0.8 else None))
        elif r < 0.28:
            ops.append(("seta", t, i, rng.randint(0, 2)))
        elif r < 0.36:
            ops.append(("setp", 1, i, rng.choice([None] + list(range(n)))))
        elif r < 0.46:
            ops.append(("del", t, i))
        elif r < 0.62:
            ops.append(("q", rand_mode(rng), rand_q(rng, n)))
        elif r < 0.70:
            ops.append(("cnt", rand_mode(rng), rand_q(rng, n)))
        elif r < 0.74:
            ops.append(("core", rng.choice(["on", "on", "ctx"]), rand_q(rng, n)))
        elif r < 0.79:
            ops.append((rng.choice(["lq", "lcnt"]), rand_mode(rng), rand_q(rng, n)))
        elif r < 0.88:
            ops.append(("get", rand_mode(rng), t, i))
        elif r < 0.94:
            ops.append(("kids", rng.choice(["on", "on", "ctx"]), i))
        elif r < 0.96:
            ops.append(("flush",))
        else:
            ops.append(("commit",))
    ops.append(("q", "on", ("all", 0)))
    ops.append(("q", "on", ("all", 1)))
    return n, ops


def small_scope(length):
    import itertools

    prefix = [("add", 0, 0, 1, None), ("add", 1, 0, 1, 0), ("commit",), ("q", "on", ("all", 0)), ("q", "on", ("all", 1))]
    alpha = [
        ("add", 0, 1, 2, None), ("add", 1, 1, 2, 0), ("seta", 1, 0, 2), ("seta", 0, 0, 2), ("setp", 1, 0, None), ("del", 1, 0), ("del", 0, 0),
        ("q", "on", ("a", 1, 2)), ("q", "opt", ("a", 1, 2)), ("q", "on", ("join", 2)), ("cnt", "on", ("pid", 0)), ("cnt", "ctx", ("pid", 0)),
        ("get", "on", 1, 1), ("get", "on", 1, 0), ("kids", "on", 0), ("kids", "ctx", 0), ("core", "on", ("all", 1)), ("lq", "on", ("all", 1)), ("lcnt", "on", ("a", 1, 2)), ("lq", "opt", ("pid", 0)), ("flush",), ("commit",),
    ]
    for seq in itertools.product(alpha, repeat=length):
        yield prefix + list(seq) + [("q", "on", ("all", 1))]


def gen_cases(ctx, deep=False):
    thorough = ctx.tier == "thorough" or deep
    nrand = 5000 if thorough else 600
    for _ in range(nrand):
        n, ops = gen_random(ctx.rng, ctx.tier)
        yield {"n": n, "af": ctx.rng.choice([1, 1, 1, 0]), "ops": ops, "src": "random"}
    for seq in small_scope(2):
        yield {"n": 2, "af": 1, "ops": seq, "src": "small2"}
    for seq in small_scope(3):
        if thorough or ctx.rng.random() < 0.04:
            yield {"n": 2, "af": 1, "ops": seq, "src": "small3"}


def jsonable(case):
    c = dict(case)
    c["ops"] = [[list(x) if isinstance(x, tuple) else x for x in o] for o in case["ops"]]
    return c


def unjson(c):
    return dict(c, ops=[tuple(tuple(x) if isinstance(x, list) else x for x in o) for o in c["ops"]])


def check_case(case):
    """returns (impl_line, problems)"""
    outs, problems = run_history(case, twin=False)
    if case["af"] and not problems:
        touts, tprobs = run_history(case, twin=True)
        problems += [("twin-" + k, d) for k, d in tprobs]
        if len(touts) == len(outs):
            for j, (op, a, b) in enumerate(zip(case["ops"], outs, touts)):
                if op[0] in READ_KINDS and a != b:
                    problems.append(("autoflush-differs-from-explicit-flush",
                                     "op #%d %s: autoflushing session -> %s, flush()-then-query -> %s" % (j, op, a, b)))
                    break
        elif not tprobs:
            problems.append(("autoflush-differs-from-explicit-flush", "histories diverge: %s vs %s" % (outs, touts)))
    return ";".join(outs), problems


def _budget_exhausted(ctx, t0, n):
    """a broken tree can make every history slow (leaks, lock waits): stop generating in time
    and judge what was run"""
    import time

    limit = 70 if ctx.tier == "quick" else 650
    if time.time() - t0 > limit:
        ctx.assumptions.append("time budget reached after %d cases; remaining generated cases not run" % n)
        return True
    return False


def run(ctx, deep=False):
    ctx.rule = (
        "histories of add/set/delete (pending changes) interleaved with ORM queries (filters, join), counts, Core selects, Session.get and lazy "
        "loads, each with autoflush on / execution option off / no_autoflush, plus flush/commit, on a real Session over SQLite (2-4 ids x 2 "
        "tables); random (seeded) + all 2-op (4% quick / all thorough 3-op) sequences over a 22-letter alphabet; every autoflush=True history is run "
        "twice (autoflush vs explicit flush + no_autoflush); non-trivial = at least one reading operation executed with pending changes"
    )
    import time

    t0 = time.time()
    cases, impl_out, reqs = [], [], []
    for case in gen_cases(ctx, deep):
        if _budget_exhausted(ctx, t0, len(cases)):
            break
        line, problems = check_case(case)
        jc = jsonable(case)
        ctx.case((case["af"], jc["ops"]), nontrivial=True)
        ctx.count("src=" + case["src"])
        ctx.count("af=%d" % case["af"])
        if "integrity" in line:
            ctx.count("outcome-seen=integrity")
        for key, detail in problems:
            ctx.violation(key, jc, detail)
        cases.append(jc)
        if len(ctx.violations) >= 25:  # enough evidence; a broken tree can make every history slow
            impl_out.append(line)
            reqs.append(request(case))
            break
        impl_out.append(line)
        reqs.append(request(case))
        if case["src"] == "random" and len(ctx.samples) < 4:
            ctx.sample({"case": jc, "impl": line})
    if ctx.driver_ok():
        ctx.correspond("corr/c47:session-on-sqlite-vs-Model.Autoflush", cases, impl_out, ctx.driver(reqs))
        bad = ["autoflush run 2 1 add:2:0:1:N", "autoflush run 2 1 q:on:pid:7", "autoflush run 2 2 -", "autoflush run 2 1 kids:opt:0", "autoflush run 2 1 q:maybe:all:0"]
        ctx.correspond("corr/c47:malformed-rejected", [{"req": b} for b in bad], ["bad-op"] * len(bad), ctx.driver(bad))


def search(ctx, broken):
    for d in ctx.disagreements:
        c = d.get("case")
        if isinstance(c, dict) and "ops" in c:
            _, problems = check_case(unjson(c))
            for key, detail in problems:
                ctx.violation(key, c, detail)
    if ctx.violations:
        return
    sub = type(ctx)(ctx.pid, "thorough", ctx.seed + 1, ctx.level)
    run(sub, deep=True)
    ctx.violations.extend(sub.violations)


def replay(ctx, obj):
    case = unjson(obj["case"])
    line, problems = check_case(case)
    print("replay C47 %s\n  impl: %s\n  oracle: %s" % (request(case), line, problems))
    return bool(problems)
