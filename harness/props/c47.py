"""C47 — with autoflush on, queries see all pending changes.

Model: lean/SaVerif/Model/Autoflush.lean (a Session with pending adds /
modifications / deletes over P(id, a), C(id, pid, a); statements of ten kinds —
ORM entity select, ORM count, Core select / Core count on the Table, text() ids /
text() count, select(exists().where(<ORM criteria>)), exists().where(…).select(),
legacy Query of Table columns / func.count only — each run through EVERY entry
point that applies — Session.execute(s).all(), Session.scalars(s).all(),
Session.scalar(s); Query.all(), .first(), .one_or_none() / .scalar(), .count() —
plus Session.get and lazy loads, each with autoflush on / disabled by execution
option / inside no_autoflush).  Theorems: lean/SaVerif/Props/C47.lean.

Translator (gen): reads the CURRENT orm/session.py by ast, walks
Session._execute_internal symbolically along the path of a statement without the
ORM compile-state plugin (compile_state_cls None) for _scalar_result True / False
and records whether self._autoflush() (#9809) is called before the statement
reaches the connection (the `return conn.scalar(...)` fast path resp.
conn.execute(...)); builds every statement kind on the real library and records
which carry compile_state_plugin == "orm" -> lean/SaVerif/Gen/AutoflushCfg.lean,
which the model's autoflush decision table uses and Props/C47.lean proves
obligations about.

Direct oracle, two independent parts (neither uses the Lean model):
 1. metamorphic, the property verbatim: the same history is replayed on a second
    Session in which `flush()` is called explicitly before every statement / get of
    an absent identity / lazy load and the operation itself — same statement, same
    entry point — runs inside `no_autoflush`; every such operation must return
    exactly what the autoflushing Session returned;
 2. reference: the harness applies every add / modification / delete to a plain
    dict at once; an autoflushing operation must return what that dict holds, in
    the form of its entry point (list / first element or None / MultipleResultsFound
    / row count).
Violation keys name the entry point (scalar-entrypoint-misses-pending-change, …).
"""
import os
import shutil
import tempfile
import warnings

PID = "C47"
LEVEL = "proof"
LEAN = ["SaVerif.Props.C47"]
META = {
    "text": "Lean theorems over the session model for ALL states and pending sets: flush applies every pending INSERT (by induction over session.new: insertAll_spec), UPDATE and DELETE, so the flushed database is the pointwise specification `specDb` (flush_eq_spec); flush is idempotent (flush_flush); the autoflush decision of Session._execute_internal + orm_pre_session_exec is an explicit table over (statement carries the ORM plugin?, entry point, mode, Session.autoflush) whose ordering facts (the Core autoflush of #9809 precedes the conn.scalar fast path and conn.execute) and plugin column are regenerated from the current source by a translator and proved as obligations (core_autoflush_precedes_scalar_fast_path, core_autoflush_precedes_execute, kind_plugin_table, flushes_table); therefore, for EVERY statement kind (ORM entities, ORM count, Core select/count on the Table, text(), Core exists() over ORM criteria, legacy Query) and EVERY entry point (Session.execute / scalars / scalar, Query.all / first / one_or_none / scalar / count), an autoflushing statement returns and leaves exactly what the same statement through the same entry point returns after an explicit flush, also when run inside no_autoflush (autoflush_query_eq_flush_then_query, ..._no_autoflush, and siblings for get of an absent identity and lazy loads), is evaluated over specDb (query_reflects_pending), and Session.scalar(stmt) is the head of Session.execute(stmt) in every state (scalar_eq_head_of_execute, scalars_eq_execute, first_eq_head_of_all); with autoflush disabled the statement is evaluated over the unflushed database (no_autoflush_sees_db), except that plugin-less statements ignore the execution option (core_ignores_autoflush_option). Tied to orm/session.py, context.py, query.py, strategies.py, loading.py by a differential run on real Sessions over SQLite; the property is re-checked verbatim by a metamorphic twin run (explicit flush + no_autoflush, same entry point) and by a dict reference.",
    "note": "Trusted: Lean kernel; correspondence (sampling + exhaustive short sequences + the exhaustive write x kind x entry point x mode matrix); SQLite; the translator's symbolic walk of _execute_internal (branches on do_orm_execute hooks / session-wide execution options are assumed not taken; an undecidable branch containing an autoflush or connection call is reported as an unrecognised shape). Relationship-collection mutation, cascades, do_orm_execute hooks, bulk UPDATE/DELETE statements (which also autoflush), Session.scalars/scalar with executemany parameters and AsyncSession / scoped_session proxies are not modelled; lazy loads are exercised on a viewonly one-to-many. The theorem content is mostly definitional once the flush and the decision table are specified; the tie to the code is the translator + differential + metamorphic run. No _partial theorems.",
    "technique": "Lean 4 proofs (induction over the pending list, idempotence, decision table regenerated by an ast translator) + differential correspondence + metamorphic twin execution on SQLite",
    "design_ref": "DESIGN.md §3 C30–C48 (C47)",
}

_W = None
_TMP = None


def _tmpdir():
    global _TMP
    if _TMP is None:
        base = "/dev/shm" if os.path.isdir("/dev/shm") else None
        _TMP = tempfile.mkdtemp(prefix="verif-c47-", dir=base)
        import atexit

        atexit.register(shutil.rmtree, _TMP, True)
    return _TMP


KINDS = ("q", "cnt", "core", "ccnt", "txt", "tcnt", "ex", "exs", "lq", "lcnt")
LEGACY_KINDS = ("lq", "lcnt")
# Lean names of the kinds (Model/Autoflush.lean `Kind`, Gen/AutoflushCfg.lean `plugin<Name>`)
KIND_LEAN = {"q": "Entity", "cnt": "Count", "core": "Core", "ccnt": "CoreCount", "txt": "Text", "tcnt": "TextCount",
             "ex": "ExistsSel", "exs": "ExistsDot", "lq": "Legacy", "lcnt": "LegacyCount"}
SHAPE = {"q": "ent", "cnt": "num", "core": "id", "ccnt": "num", "txt": "id", "tcnt": "num", "ex": "flag", "exs": "flag", "lq": "id", "lcnt": "num"}
VIAS20 = ("execute", "scalars", "scalar")
VIAS_LEGACY = {"lq": ("all", "first", "one", "count"), "lcnt": ("all", "first", "one")}
DEFAULT_VIA = {"lq": "all", "lcnt": "one"}


def vias_of(kind):
    return VIAS_LEGACY[kind] if kind in LEGACY_KINDS else VIAS20


def core_path_events(fn, scalar_result):
    """Symbolic walk of Session._execute_internal along the path a statement WITHOUT the ORM
    compile-state plugin takes (compile_state_cls is None, no do_orm_execute hooks), with
    `_scalar_result` fixed: the ordered list of 'AF' (self._autoflush()), 'SCALAR'
    (conn.scalar(...)), 'EXEC' (conn.execute(...)) events up to the first `return`.
    Returns None when a branch whose test cannot be decided contains one of those calls."""
    import ast

    env = {"compile_state_cls": False, "_scalar_result": bool(scalar_result)}

    def ev(t):
        if isinstance(t, ast.Name):
            return env.get(t.id)
        if isinstance(t, ast.UnaryOp) and isinstance(t.op, ast.Not):
            v = ev(t.operand)
            return None if v is None else not v
        if isinstance(t, ast.BoolOp):
            vs = [ev(x) for x in t.values]
            if isinstance(t.op, ast.And):
                return False if any(v is False for v in vs) else (None if any(v is None for v in vs) else True)
            return True if any(v is True for v in vs) else (None if any(v is None for v in vs) else False)
        if (
            isinstance(t, ast.Compare)
            and len(t.ops) == 1
            and isinstance(t.left, ast.Name)
            and t.left.id == "compile_state_cls"
            and isinstance(t.comparators[0], ast.Constant)
            and t.comparators[0].value is None
        ):
            if isinstance(t.ops[0], ast.IsNot):
                return False
            if isinstance(t.ops[0], ast.Is):
                return True
        return None

    def calls(node):
        out = []
        for n in ast.walk(node):
            if isinstance(n, ast.Call) and isinstance(n.func, ast.Attribute) and isinstance(n.func.value, ast.Name):
                who, what = n.func.value.id, n.func.attr
                if who == "self" and what == "_autoflush":
                    out.append((n.lineno, n.col_offset, "AF"))
                elif who == "conn" and what == "scalar":
                    out.append((n.lineno, n.col_offset, "SCALAR"))
                elif who == "conn" and what == "execute":
                    out.append((n.lineno, n.col_offset, "EXEC"))
        return [e[2] for e in sorted(out)]

    events = []

    class Unrecognised(Exception):
        pass

    def walk(stmts):
        for st in stmts:
            if isinstance(st, ast.If):
                v = ev(st.test)
                if v is None:
                    if calls(st):
                        raise Unrecognised()
                    continue
                if walk(st.body if v else st.orelse):
                    return True
            else:
                events.extend(calls(st))
                if isinstance(st, ast.Return):
                    return True
        return False

    try:
        walk(fn.body)
    except Unrecognised:
        return None
    return events


def parse_execute_internal():
    """(coreAutoflushBeforeScalarFastPath, coreAutoflushBeforeExecute) read off the current
    orm/session.py, or None where the shape is not recognised"""
    import ast

    from harness import vlib

    src = open(os.path.join(vlib.REPO, "lib", "sqlalchemy", "orm", "session.py")).read()
    fns = [
        n
        for n in ast.walk(ast.parse(src))
        if isinstance(n, ast.FunctionDef)
        and n.name == "_execute_internal"
        and not any(isinstance(d, ast.Name) and d.id == "overload" for d in n.decorator_list)
    ]
    if len(fns) != 1:
        return None, None
    res = []
    for scalar_result in (True, False):
        evs = core_path_events(fns[0], scalar_result)
        db = [i for i, e in enumerate(evs or []) if e in ("SCALAR", "EXEC")]
        res.append(None if not db else ("AF" in evs[: db[0]]))
    return res[0], res[1]


Q_SHAPES = (("all", 0), ("all", 1), ("a", 0, 1), ("a", 1, 1), ("pid", 0), ("join", 1))


def plugin_table():
    """kind -> does the real statement carry compile_state_plugin == 'orm' (None: the q-shapes of
    one kind disagree)"""
    from sqlalchemy.orm import Session

    w = world()
    sess = Session(w.engine)
    tab = {}
    try:
        for kind in KINDS:
            vals = set()
            for q in Q_SHAPES:
                if kind in LEGACY_KINDS:
                    stmt = legacy_query(w, sess, kind, q, "on")._statement_20()
                else:
                    stmt = build_stmt(w, kind, q)[0]
                vals.add(stmt._propagate_attrs.get("compile_state_plugin", None) == "orm")
            tab[kind] = vals.pop() if len(vals) == 1 else None
    finally:
        sess.close()
    return tab


def gen(ctx):
    """Translator -> lean/SaVerif/Gen/AutoflushCfg.lean: (1) ordering facts of
    Session._execute_internal on the Core path (ast of the current orm/session.py), (2) which of
    the generated statement kinds carry the ORM compile-state plugin (real statements)."""
    before_scalar, before_exec = parse_execute_internal()
    ctx.obligation(
        "translator: Session._execute_internal, Core path with _scalar_result=True, reaches conn.scalar()/conn.execute() through decidable branches",
        before_scalar is not None,
        "shape not recognised; coreAutoflushBeforeScalarFastPath cannot be regenerated",
    )
    ctx.obligation(
        "translator: Session._execute_internal, Core path with _scalar_result=False, reaches conn.execute() through decidable branches",
        before_exec is not None,
        "shape not recognised; coreAutoflushBeforeExecute cannot be regenerated",
    )
    tab = plugin_table()
    ctx.obligation(
        "translator: every generated statement kind is uniformly ORM-plugin or plugin-less",
        all(v is not None for v in tab.values()),
        "kinds with mixed compile_state_plugin: %s" % sorted(k for k, v in tab.items() if v is None),
    )
    if before_scalar is None or before_exec is None or any(v is None for v in tab.values()):
        return
    b = lambda x: "true" if x else "false"  # noqa: E731
    ctx.write_gen(
        "AutoflushCfg",
        "namespace SaVerif.Gen.AutoflushCfg\n"
        "/-- orm/session.py `Session._execute_internal`, path of a statement without the ORM compile-state\n"
        "    plugin and `_scalar_result=True` (Session.scalar): `self._autoflush()` (#9809) is called before\n"
        "    the statement reaches the connection (`return conn.scalar(...)` fast path) -/\n"
        "def coreAutoflushBeforeScalarFastPath : Bool := %s\n"
        "/-- same path with `_scalar_result=False` (Session.execute / .scalars): `self._autoflush()` is\n"
        "    called before `conn.execute(...)` -/\n"
        "def coreAutoflushBeforeExecute : Bool := %s\n"
        "/-- harness/props/c47.py statement kinds: `stmt._propagate_attrs[\"compile_state_plugin\"] == \"orm\"` -/\n"
        % (b(before_scalar), b(before_exec))
        + "".join("def plugin%s : Bool := %s\n" % (KIND_LEAN[k], b(tab[k])) for k in KINDS)
        + "end SaVerif.Gen.AutoflushCfg\n",
    )


class World:
    def __init__(self):
        import sqlalchemy as sa
        from sqlalchemy.orm import declarative_base, relationship

        self.sa = sa
        self.engine = sa.create_engine("sqlite:///" + os.path.join(_tmpdir(), "c47.db"))
        Base = declarative_base()
        from harness.lib_orm2 import odd_mixin

        Odd = odd_mixin("id", "a")

        class P(Odd, Base):
            __tablename__ = "p"
            id = sa.Column(sa.Integer, primary_key=True, autoincrement=False)
            a = sa.Column(sa.Integer)
            children = relationship("C", viewonly=True, order_by="C.id", lazy="select")

        class C(Odd, Base):
            __tablename__ = "c"
            id = sa.Column(sa.Integer, primary_key=True, autoincrement=False)
            pid = sa.Column(sa.Integer, sa.ForeignKey("p.id"), nullable=True)
            a = sa.Column(sa.Integer)

        self.P, self.C = P, C
        self.cls = [P, C]
        Base.metadata.drop_all(self.engine)
        Base.metadata.create_all(self.engine)

    def reset(self):
        with self.engine.begin() as c:
            c.exec_driver_sql("delete from c")
            c.exec_driver_sql("delete from p")


def world():
    global _W
    if _W is None:
        _W = World()
    return _W


def text_sql(q):
    """(sql selecting the ids, params) — the Core text() form of query q"""
    name = q[0]
    if name == "all":
        return "select id from %s order by id" % ("p", "c")[q[1]], {}
    if name == "a":
        return "select id from %s where a = :v order by id" % ("p", "c")[q[1]], {"v": q[2]}
    if name == "pid":
        return "select id from c where pid = :v order by id", {"v": q[1]}
    return "select distinct p.id from p join c on c.pid = p.id where c.a = :v order by p.id", {"v": q[1]}


def build_stmt(w, kind, q):
    """-> (statement, params).  kind: q (ORM entities) / cnt (ORM count) / core (select on the
    Table) / ccnt (Core count on the Table) / txt, tcnt (text()) / ex (select(exists().where(<ORM
    criteria>))) / exs (exists().where(<ORM criteria>).select()); lq, lcnt are legacy Query
    objects (legacy_query)"""
    sa = w.sa
    P, C = w.P, w.C
    name = q[0]
    if kind in LEGACY_KINDS:
        return None, None
    if kind in ("txt", "tcnt"):
        sql, params = text_sql(q)
        if kind == "tcnt":
            sql = "select count(*) from (%s)" % sql
        return sa.text(sql), params
    if kind in ("core", "ccnt"):
        pt, ct = P.__table__, C.__table__
        tabs = [pt, ct]
        if name == "all":
            t, crit, join = tabs[q[1]], None, None
        elif name == "a":
            t = tabs[q[1]]
            crit, join = (t.c.a == q[2]), None
        elif name == "pid":
            t, crit, join = ct, (ct.c.pid == q[1]), None
        else:
            t, crit, join = pt, (ct.c.a == q[1]), (ct, ct.c.pid == pt.c.id)
        if kind == "core":
            st = sa.select(t.c.id)
            if join:
                st = st.join(*join).distinct()
            if crit is not None:
                st = st.where(crit)
            return st.order_by(t.c.id), {}
        st = sa.select(sa.func.count(sa.distinct(t.c.id))).select_from(t)
        if join:
            st = st.join(*join)
        if crit is not None:
            st = st.where(crit)
        return st, {}
    if name == "all":
        T = w.cls[q[1]]
        crit, ent, join = None, T, None
    elif name == "a":
        T = w.cls[q[1]]
        crit, ent, join = (T.a == q[2]), T, None
    elif name == "pid":
        crit, ent, join = (C.pid == q[1]), C, None
    else:
        crit, ent, join = (C.a == q[1]), P, (C, C.pid == P.id)
    if kind in ("ex", "exs"):
        # Core exists(): FROM is derived from the ORM criteria
        ex = sa.exists()
        if join:
            ex = ex.where(join[1])
        ex = ex.where(crit if crit is not None else ent.id >= 0)
        return (sa.select(ex) if kind == "ex" else ex.select()), {}
    if kind == "q":
        st = sa.select(ent)
        if join:
            st = st.join(*join).distinct()
        if crit is not None:
            st = st.where(crit)
        return st.order_by(ent.id), {}
    st = sa.select(sa.func.count(sa.distinct(ent.id))).select_from(ent)
    if join:
        st = st.join(*join)
    if crit is not None:
        st = st.where(crit)
    return st, {}


def legacy_query(w, sess, kind, q, m):
    """session.query(<columns of the Table> | func.count(<table column>)): no ORM entity anywhere"""
    sa = w.sa
    pt, ct = w.P.__table__, w.C.__table__
    tabs = [pt, ct]
    name = q[0]
    if name == "all":
        t, crit, join = tabs[q[1]], None, None
    elif name == "a":
        t = tabs[q[1]]
        crit, join = (t.c.a == q[2]), None
    elif name == "pid":
        t, crit, join = ct, (ct.c.pid == q[1]), None
    else:
        t, crit, join = pt, (ct.c.a == q[1]), (ct, ct.c.pid == pt.c.id)
    qq = sess.query(t.c.id) if kind == "lq" else sess.query(sa.func.count(sa.distinct(t.c.id)))
    if join:
        qq = qq.join(*join)
    if crit is not None:
        qq = qq.filter(crit)
    if kind == "lq":
        qq = qq.distinct().order_by(t.c.id)
    if m == "opt":
        qq = qq.autoflush(False)
    return qq


def eval_ref(rows, q):
    """reference evaluation over dict (t, id) -> [a, pid]; returns (t, ids)"""
    name = q[0]
    if name == "all":
        return q[1], sorted(i for (t, i) in rows if t == q[1])
    if name == "a":
        return q[1], sorted(i for (t, i), r in rows.items() if t == q[1] and r[0] == q[2])
    if name == "pid":
        return 1, sorted(i for (t, i), r in rows.items() if t == 1 and r[1] == q[1])
    return 0, sorted(
        i for (t, i) in rows if t == 0 and any(t2 == 1 and r[1] == i and r[0] == q[1] for (t2, _), r in rows.items())
    )


READ_KINDS = KINDS + ("get", "kids")


def op_via(op):
    """entry point of a statement op (kind, mode, q[, via]); 3-tuples are the former shape"""
    return op[3] if len(op) > 3 else DEFAULT_VIA.get(op[0], "execute")


def show_val(shape, x):
    if shape == "ent":
        return "%d=%s" % (x.id, x.a)
    if shape == "id":
        return "%d" % x
    if shape == "num":
        return "#%d" % x
    return "T" if x else "F"


def show_list(shape, xs):
    return "[" + " ".join(show_val(shape, x) for x in xs) + "]"


def show_one(shape, x):
    return "None" if x is None else "(" + show_val(shape, x) + ")"


def run_stmt(w, sess, kind, q, m, via, keep):
    """run one statement op through its entry point on the real Session; -> (canonical output,
    is the statement plugin-less (Core) for Session._execute_internal)"""
    from sqlalchemy.exc import MultipleResultsFound

    shape = SHAPE[kind]
    if kind in LEGACY_KINDS:
        qq = legacy_query(w, sess, kind, q, m)
        if via == "all":
            return show_list(shape, [r[0] for r in qq.all()]), False
        if via == "first":
            r = qq.first()
            return show_one(shape, None if r is None else r[0]), False
        if via == "count":
            return show_one("num", qq.count()), False
        try:
            if kind == "lcnt":
                return show_one(shape, qq.scalar()), False
            r = qq.one_or_none()
            return show_one(shape, None if r is None else r[0]), False
        except MultipleResultsFound:
            return "multi", False
    stmt, params = build_stmt(w, kind, q)
    is_core = stmt._propagate_attrs.get("compile_state_plugin", None) != "orm"
    if m == "opt":
        stmt = stmt.execution_options(autoflush=False)
    if via == "execute":
        xs = [r[0] for r in sess.execute(stmt, params).all()]
    elif via == "scalars":
        xs = sess.scalars(stmt, params).all()
    else:
        x = sess.scalar(stmt, params)
        if shape == "ent" and x is not None:
            keep.append(x)
        return show_one(shape, x), is_core
    if shape == "ent":
        keep.extend(xs)
    return show_list(shape, xs), is_core


def expected_out(flushed, kind, q, via):
    """the canonical output the pending state (dict reference) demands"""
    t, ids = eval_ref(flushed, q)
    shape = SHAPE[kind]

    class E:  # entity stand-in
        def __init__(self, i, a):
            self.id, self.a = i, a

    if shape == "ent":
        xs = [E(i, flushed[(t, i)][0]) for i in ids]
    elif shape == "id":
        xs = ids
    elif shape == "num":
        xs = [len(ids)]
    else:
        xs = [bool(ids)]
    if via in ("execute", "scalars", "all"):
        return show_list(shape, xs)
    if via in ("scalar", "first"):
        return show_one(shape, xs[0] if xs else None)
    if via == "count":
        return show_one("num", len(xs))
    return "multi" if len(xs) > 1 else show_one(shape, xs[0] if xs else None)


MISS_KEY = {
    "execute": "query-misses-pending-change",
    "all": "query-misses-pending-change",
    "scalars": "scalars-entrypoint-misses-pending-change",
    "scalar": "scalar-entrypoint-misses-pending-change",
    "first": "legacy-first-misses-pending-change",
    "one": "legacy-one-misses-pending-change",
    "count": "legacy-count-misses-pending-change",
}
DIFF_KEY = {
    "execute": "autoflush-differs-from-explicit-flush",
    "all": "autoflush-differs-from-explicit-flush",
    "scalars": "scalars-entrypoint-differs-from-explicit-flush",
    "scalar": "scalar-entrypoint-differs-from-explicit-flush",
    "first": "legacy-first-differs-from-explicit-flush",
    "one": "legacy-one-differs-from-explicit-flush",
    "count": "legacy-count-differs-from-explicit-flush",
}


def run_history(case, twin=False):
    import traceback

    try:
        return _run_history(case, twin)
    except Exception as e:
        tb = traceback.extract_tb(e.__traceback__)
        where = ["%s:%d" % (os.path.basename(f.filename), f.lineno) for f in tb if "sqlalchemy" in f.filename][-3:]
        return ["crash:" + type(e).__name__], [("unexpected-exception", "%s: %s at %s" % (type(e).__name__, str(e)[:200], where))]


def _run_history(case, twin):
    """twin=False: the autoflushing session.  twin=True: explicit flush() before every
    reading operation that the property names, the operation itself under no_autoflush.
    Returns (list of per-op outputs, problems)."""
    import contextlib

    from sqlalchemy import inspect
    from sqlalchemy.exc import IntegrityError
    from sqlalchemy.orm import Session

    w = world()
    w.reset()
    af, ops = case["af"], case["ops"]
    sess = Session(w.engine, autoflush=bool(af) and not twin, expire_on_commit=False)
    keep = []  # strong references: the identity map is weak
    pend = {}
    outs, problems = [], []
    # reference dicts
    flushed = {}  # every pending change applied at once
    committed = {}
    poisoned = [False]

    def ident(k):
        key = inspect(w.cls[k[0]]).identity_key_from_primary_key((k[1],))
        return sess.identity_map.get(key)

    def prune():
        for k, o in list(pend.items()):
            if not inspect(o).pending:
                del pend[k]

    def on_rollback():
        flushed.clear()
        flushed.update({k: list(v) for k, v in committed.items()})
        poisoned[0] = False
        prune()

    def reading(m, present=False, core=False):
        """context for a reading op; in the twin run: flush first when the property says the
        autoflushing session would (a statement without the ORM plugin has no autoflush execution
        option: #9809, it flushes unless inside no_autoflush), then forbid autoflush"""
        if twin and af and (m == "on" or (core and m == "opt")) and not present:
            sess.flush()
        if m == "ctx" or twin:
            return sess.no_autoflush
        return contextlib.nullcontext()

    try:
        with warnings.catch_warnings():
            warnings.simplefilter("ignore")
            for op in ops:
                kind = op[0]
                try:
                    if kind == "add":
                        k = (op[1], op[2])
                        if ident(k) is not None or k in pend:
                            outs.append("-")
                            continue
                        T = w.cls[k[0]]
                        o = T(id=k[1], a=op[3]) if k[0] == 0 else T(id=k[1], a=op[3], pid=op[4])
                        sess.add(o)
                        keep.append(o)
                        pend[k] = o
                        if k in flushed:
                            poisoned[0] = True
                        else:
                            flushed[k] = [op[3], op[4] if k[0] == 1 else None]
                        outs.append("d")
                    elif kind in ("seta", "setp"):
                        k = (op[1], op[2])
                        if kind == "setp" and k[0] != 1:
                            outs.append("-")
                            continue
                        o = ident(k)
                        if o is not None and o in sess.deleted:
                            outs.append("-")
                            continue
                        if o is None:
                            o = pend.get(k)
                        if o is None:
                            outs.append("-")
                            continue
                        if kind == "seta":
                            o.a = op[3]
                            if not (poisoned[0] and k in pend):
                                flushed[k][0] = op[3]
                        else:
                            o.pid = op[3]
                            if not (poisoned[0] and k in pend):
                                flushed[k][1] = op[3]
                        outs.append("d")
                    elif kind == "del":
                        k = (op[1], op[2])
                        o = ident(k)
                        if o is None or o in sess.deleted:
                            outs.append("-")
                            continue
                        sess.delete(o)
                        flushed.pop(k, None)
                        outs.append("d")
                    elif kind in KINDS:
                        m, q, via = op[1], op[2], op_via(op)
                        if via not in vias_of(kind):
                            raise ValueError(op)
                        core = kind not in LEGACY_KINDS and build_stmt(w, kind, q)[0]._propagate_attrs.get("compile_state_plugin", None) != "orm"
                        with reading(m, core=core):
                            got, _ = run_stmt(w, sess, kind, q, m, via, keep)
                        outs.append(got)
                        prune()
                        # ---- reference
                        flushing = af and (m == "on" or (core and m == "opt"))
                        if flushing and not twin:
                            if poisoned[0]:
                                problems.append(("duplicate-insert-not-detected", "op %s" % (op,)))
                            exp = expected_out(flushed, kind, q, via)
                            if got != exp:
                                problems.append((MISS_KEY[via], "%s returned %s, pending state says %s" % (op, got, exp)))
                    elif kind == "get":
                        m, k = op[1], (op[2], op[3])
                        present = ident(k) is not None
                        with reading(m, present):
                            kw = {"execution_options": {"autoflush": False}} if m == "opt" else {}
                            o = sess.get(w.cls[k[0]], k[1], **kw)
                        if o is None:
                            outs.append("None")
                        else:
                            keep.append(o)
                            outs.append("o%s%s" % (o.a, "!" if o in sess.deleted else ""))
                        prune()
                        if af and m == "on" and not present and not twin:
                            exp = flushed.get(k)
                            if (o is None) != (exp is None) or (o is not None and o.a != exp[0]):
                                problems.append(("get-misses-pending-change", "get%s -> %s, pending state says %s" % (k, outs[-1], exp)))
                    elif kind == "kids":
                        m, p = op[1], op[2]
                        par = ident((0, p))
                        if par is None or par in sess.deleted:
                            outs.append("-")
                            continue
                        with reading(m):
                            sess.expire(par, ["children"])
                            kids = list(par.children)
                        keep.extend(kids)
                        got = [(c.id, c.a) for c in kids]
                        outs.append("[" + " ".join("%d=%s" % x for x in got) + "]")
                        prune()
                        if af and m == "on" and not twin:
                            _, ids = eval_ref(flushed, ("pid", p))
                            exp = [(i, flushed[(1, i)][0]) for i in ids]
                            if got != exp:
                                problems.append(("lazyload-misses-pending-change", "children(%d) -> %s, pending state says %s" % (p, got, exp)))
                    elif kind == "flush":
                        sess.flush()
                        prune()
                        outs.append("d")
                    elif kind == "commit":
                        sess.commit()
                        prune()
                        committed.clear()
                        committed.update({k: list(v) for k, v in flushed.items()})
                        outs.append("d")
                    else:
                        raise ValueError(op)
                except IntegrityError:
                    sess.rollback()
                    if not poisoned[0] and not twin:
                        problems.append(("unjustified-integrity-error", "op %s" % (op,)))
                    on_rollback()
                    outs.append("integrity")
                    break  # every object is expired now: the history ends here (expiry is C46's subject)
    finally:
        try:
            sess.close()
        except Exception:
            pass
    return outs, problems


# ---------------------------------------------------------------------- encoding
def enc_q(q):
    return ":".join(str(x) for x in q)


def enc_op(op):
    k = op[0]
    if k == "add":
        return "add:%d:%d:%d:%s" % (op[1], op[2], op[3], "N" if op[4] is None else op[4])
    if k == "setp":
        return "setp:%d:%d:%s" % (op[1], op[2], "N" if op[3] is None else op[3])
    if k in KINDS:
        return "%s:%s:%s:%s" % (k, op[1], op_via(op), enc_q(op[2]))
    return ":".join(str(x) for x in op)


def request(case):
    return "autoflush run %d %d %s" % (case["n"], case["af"], ",".join(enc_op(o) for o in case["ops"]) or "-")


# ---------------------------------------------------------------------- generators
def rand_q(rng, n):
    r = rng.random()
    if r < 0.25:
        return ("all", rng.randrange(2))
    if r < 0.6:
        return ("a", rng.randrange(2), rng.randint(0, 2))
    if r < 0.8:
        return ("pid", rng.randrange(n))
    return ("join", rng.randint(0, 2))


def rand_mode(rng):
    return rng.choice(["on", "on", "on", "opt", "ctx"])


CORE_KINDS = ("core", "ccnt", "txt", "tcnt", "ex", "exs")


def rand_read(rng, n):
    """a statement op: kind x entry point x mode x query"""
    r = rng.random()
    if r < 0.30:
        kind = "q"
    elif r < 0.45:
        kind = "cnt"
    elif r < 0.85:
        kind = rng.choice(CORE_KINDS)
    else:
        kind = rng.choice(LEGACY_KINDS)
    vias = vias_of(kind)
    # Session.execute is the entry point of about half of the 2.0-style statements
    via = vias[0] if rng.random() < 0.4 else rng.choice(vias)
    return (kind, rand_mode(rng), rand_q(rng, n), via)


def gen_random(rng, tier):
    n = rng.choice([2, 3, 3, 4])
    ops = []
    # some committed base data
    for t in (0, 1):
        for i in range(n):
            if rng.random() < 0.5:
                ops.append(("add", t, i, rng.randint(0, 2), rng.randrange(n) if t == 1 and rng.random() < 0.8 else None))
    ops.append(("commit",))
    if rng.random() < 0.7:
        ops.append(("q", "on", ("all", 0), "execute"))
        ops.append(("q", "on", ("all", 1), "execute"))
    m = rng.randint(5, 14 if tier == "quick" else 24)
    for _ in range(m):
        t, i = rng.randrange(2), rng.randrange(n)
        r = rng.random()
        if r < 0.14:
            ops.append(("add", t, i, rng.randint(0, 2), rng.randrange(n) if t == 1 and rng.random() < 0.8 else None))
        elif r < 0.28:
            ops.append(("seta", t, i, rng.randint(0, 2)))
        elif r < 0.36:
            ops.append(("setp", 1, i, rng.choice([None] + list(range(n)))))
        elif r < 0.46:
            ops.append(("del", t, i))
        elif r < 0.79:
            ops.append(rand_read(rng, n))
        elif r < 0.88:
            ops.append(("get", rand_mode(rng), t, i))
        elif r < 0.94:
            ops.append(("kids", rng.choice(["on", "on", "ctx"]), i))
        elif r < 0.96:
            ops.append(("flush",))
        else:
            ops.append(("commit",))
    ops.extend(probes(rng.randrange(2), rng.randint(0, 2)))
    ops.append(("q", "on", ("all", 0), "execute"))
    ops.append(("q", "on", ("all", 1), "execute"))
    return n, ops


def probes(t, v):
    """observation of the DATABASE as it is (counts inside no_autoflush): exposes whether the
    operations before it flushed — the twin session, which flushes explicitly wherever the property
    says an autoflush happens, must show the same"""
    return [("cnt", "ctx", ("all", t), "execute"), ("ccnt", "ctx", ("a", t, v), "scalars")]


SMALL_PREFIX = [("add", 0, 0, 1, None), ("add", 1, 0, 1, 0), ("commit",), ("q", "on", ("all", 0), "execute"), ("q", "on", ("all", 1), "execute")]
SMALL_WRITES = [
    ("add", 0, 1, 2, None), ("add", 1, 1, 2, 0), ("seta", 1, 0, 2), ("seta", 0, 0, 2), ("setp", 1, 0, None), ("del", 1, 0), ("del", 0, 0),
]
SMALL_READS = [
    ("q", "on", ("a", 1, 2), "scalar"), ("ccnt", "on", ("a", 1, 2), "scalar"), ("txt", "on", ("pid", 0), "scalar"), ("ex", "on", ("a", 1, 2), "scalar"),
    ("q", "on", ("a", 1, 2), "execute"), ("q", "opt", ("a", 1, 2), "execute"), ("q", "on", ("join", 2), "execute"), ("cnt", "on", ("pid", 0), "execute"),
    ("cnt", "ctx", ("pid", 0), "execute"), ("get", "on", 1, 1), ("get", "on", 1, 0), ("kids", "on", 0), ("kids", "ctx", 0),
    ("core", "on", ("all", 1), "execute"), ("lq", "on", ("all", 1), "all"), ("lcnt", "on", ("a", 1, 2), "one"), ("lq", "opt", ("pid", 0), "all"),
]
SMALL_OTHER = [("flush",), ("commit",)]


def small_scope(length):
    import itertools

    alpha = SMALL_WRITES + SMALL_READS + SMALL_OTHER
    for seq in itertools.product(alpha, repeat=length):
        yield SMALL_PREFIX + list(seq) + probes(1, 2) + [("q", "on", ("all", 1), "execute")]


def entry_matrix(thorough=False):
    """every statement kind x every entry point (mode on), as the FIRST statement after each single
    pending change (and after two pairs of changes), followed by the same statement through the
    list entry point: exhaustive in (write, kind, via); the modes opt / ctx for three of the nine
    change sets (quick) or all of them (thorough)"""
    qs = {0: ("all", 1), 1: ("a", 1, 2), 2: ("pid", 0), 3: ("join", 2)}
    writes = [[w] for w in SMALL_WRITES] + [[("add", 1, 1, 2, 0), ("seta", 1, 0, 2)], [("del", 1, 0), ("add", 0, 1, 2, None)]]
    j = 0
    for wi, ws in enumerate(writes):
        for kind in KINDS:
            for via in vias_of(kind):
                for m in ("on", "opt", "ctx") if (thorough or wi in (1, 2, 5)) else ("on",):
                    q = qs[j % 4]
                    j += 1
                    yield SMALL_PREFIX + ws + [(kind, m, q, via)] + probes(1, 2) + [(kind, "on", q, vias_of(kind)[0]), ("q", "on", ("all", 1), "execute")]


def gen_cases(ctx, deep=False):
    thorough = ctx.tier == "thorough" or deep
    nrand = 5000 if thorough else 400
    for _ in range(nrand):
        n, ops = gen_random(ctx.rng, ctx.tier)
        yield {"n": n, "af": ctx.rng.choice([1, 1, 1, 0]), "ops": ops, "src": "random"}
    for seq in entry_matrix(thorough):
        yield {"n": 2, "af": 1, "ops": seq, "src": "entry-matrix"}
    nfix = len(SMALL_PREFIX)
    for seq in small_scope(2):
        # every (pending change, reading operation) pair; the other pairs sampled in the quick tier
        if thorough or (seq[nfix] in SMALL_WRITES and seq[nfix + 1] in SMALL_READS) or ctx.rng.random() < 0.4:
            yield {"n": 2, "af": 1, "ops": seq, "src": "small2"}
    for seq in small_scope(3):
        if thorough or ctx.rng.random() < 0.015:
            yield {"n": 2, "af": 1, "ops": seq, "src": "small3"}


def jsonable(case):
    c = dict(case)
    c["ops"] = [[list(x) if isinstance(x, tuple) else x for x in o] for o in case["ops"]]
    return c


def unjson(c):
    return dict(c, ops=[tuple(tuple(x) if isinstance(x, list) else x for x in o) for o in c["ops"]])


def check_case(case):
    """returns (impl_line, problems)"""
    outs, problems = run_history(case, twin=False)
    if case["af"] and not problems:
        touts, tprobs = run_history(case, twin=True)
        problems += [("twin-" + k, d) for k, d in tprobs]
        if len(touts) == len(outs):
            for j, (op, a, b) in enumerate(zip(case["ops"], outs, touts)):
                if op[0] in READ_KINDS and a != b:
                    key = DIFF_KEY[op_via(op)] if op[0] in KINDS else "autoflush-differs-from-explicit-flush"
                    if op[1] == "ctx":
                        # the observing op cannot flush: an earlier autoflushing operation did not do what flush() does
                        prev = [o for o in case["ops"][:j] if o[0] in READ_KINDS and (o[1] == "on" or (o[1] == "opt" and o[0] in CORE_KINDS))]
                        if prev:
                            key = "unflushed-state-after-autoflushing-%s" % (
                                "%s-via-%s" % (prev[-1][0], op_via(prev[-1])) if prev[-1][0] in KINDS else prev[-1][0]
                            )
                    problems.append((key, "op #%d %s: autoflushing session -> %s, flush()-then-query -> %s" % (j, op, a, b)))
                    break
        elif not tprobs:
            problems.append(("autoflush-differs-from-explicit-flush", "histories diverge: %s vs %s" % (outs, touts)))
    return ";".join(outs), problems


def _budget_exhausted(ctx, t0, n):
    """a broken tree can make every history slow (leaks, lock waits): stop generating in time
    and judge what was run"""
    import time

    limit = 70 if ctx.tier == "quick" else 650
    if time.time() - t0 > limit:
        ctx.assumptions.append("time budget reached after %d cases; remaining generated cases not run" % n)
        return True
    return False


def run(ctx, deep=False):
    ctx.rule = (
        "histories of add/set/delete (pending changes) interleaved with statements of 10 kinds (ORM entity select with filters/join, ORM count, "
        "Core select and Core count on the Table, text() ids and text() count, select(exists().where(ORM criteria)), exists().where().select(), "
        "legacy Query ids / count) each through every applicable entry point (Session.execute().all(), Session.scalars().all(), Session.scalar(); "
        "Query.all/first/one_or_none|scalar/count), Session.get and lazy loads, each with autoflush on / execution option off / no_autoflush, plus "
        "flush/commit, on a real Session over SQLite (2-4 ids x 2 tables); random (seeded) + the exhaustive matrix {9 pending-change sets} x {kind x "
        "entry point} (mode on; x {3 modes} for 3 of the sets quick / all thorough) with the statement as the FIRST one after the change + 2-op "
        "(all change-then-read pairs + 40% of the rest quick / all thorough) and 3-op (1.5% quick / all thorough) sequences over a 26-letter alphabet, every generated history ending with no_autoflush count probes that expose whether the operations before them flushed; every autoflush=True history is run twice (autoflush vs explicit flush + no_autoflush); "
        "non-trivial = at least one reading operation executed with pending changes"
    )
    ctx.trusted.append(
        "translator of harness/props/c47.py: symbolic walk of Session._execute_internal (Core path; event-hook and session-option branches assumed not taken)"
    )
    import time

    t0 = time.time()
    cases, impl_out, reqs = [], [], []
    for case in gen_cases(ctx, deep):
        if _budget_exhausted(ctx, t0, len(cases)):
            break
        line, problems = check_case(case)
        jc = jsonable(case)
        ctx.case((case["af"], jc["ops"]), nontrivial=True)
        ctx.count("src=" + case["src"])
        ctx.count("af=%d" % case["af"])
        for op in case["ops"]:
            if op[0] in KINDS:
                ctx.count("stmt=%s/%s" % (op[0], op_via(op)))
        if "integrity" in line:
            ctx.count("outcome-seen=integrity")
        for key, detail in problems:
            ctx.violation(key, jc, detail)
        cases.append(jc)
        if len(ctx.violations) >= 25:  # enough evidence; a broken tree can make every history slow
            impl_out.append(line)
            reqs.append(request(case))
            break
        impl_out.append(line)
        reqs.append(request(case))
        if case["src"] == "random" and len(ctx.samples) < 4:
            ctx.sample({"case": jc, "impl": line})
    if ctx.driver_ok():
        ctx.correspond("corr/c47:session-on-sqlite-vs-Model.Autoflush", cases, impl_out, ctx.driver(reqs))
        bad = [
            "autoflush run 2 1 add:2:0:1:N", "autoflush run 2 1 q:on:execute:pid:7", "autoflush run 2 2 -", "autoflush run 2 1 kids:opt:0",
            "autoflush run 2 1 q:maybe:execute:all:0", "autoflush run 2 1 q:on:all:0", "autoflush run 2 1 q:on:all:all:0",
            "autoflush run 2 1 lq:on:scalar:all:0", "autoflush run 2 1 lcnt:on:count:all:0", "autoflush run 2 1 zz:on:execute:all:0",
            "autoflush run 2 1 txt:on:sideways:all:0", "autoflush run 2 1 ex:on:scalar", "autoflush run 2 1 ccnt:on:scalar:a:2:1",
        ]
        ctx.correspond("corr/c47:malformed-rejected", [{"req": b} for b in bad], ["bad-op"] * len(bad), ctx.driver(bad))


def search(ctx, broken):
    for d in ctx.disagreements:
        c = d.get("case")
        if isinstance(c, dict) and "ops" in c:
            _, problems = check_case(unjson(c))
            for key, detail in problems:
                ctx.violation(key, c, detail)
    if ctx.violations:
        return
    sub = type(ctx)(ctx.pid, "thorough", ctx.seed + 1, ctx.level)
    run(sub, deep=True)
    ctx.violations.extend(sub.violations)


def replay(ctx, obj):
    case = unjson(obj["case"])
    line, problems = check_case(case)
    print("replay C47 %s\n  impl: %s\n  oracle: %s" % (request(case), line, problems))
    return bool(problems)
