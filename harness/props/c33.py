"""C33 — Session commit/rollback/savepoint keep the session consistent with the database.

Model:    lean/SaVerif/Model/Sess.lean (Session / SessionTransaction: _take_snapshot,
          _restore_snapshot, _remove_snapshot, commit / rollback / close state machine,
          _register_persistent / _register_altered / _remove_newly_deleted, _expunge_states,
          over an abstract table with a SAVEPOINT stack)
Theorems: lean/SaVerif/Props/C33.lean
Tie:      histories of add / modify / primary-key switch / delete / flush / load /
          begin / begin_nested / commit / rollback / close and SessionTransaction handle
          commit / rollback / close on a REAL Session over a SQLite file database, with
          expire_on_commit on and off; after every op: lifecycle state, new/dirty/deleted
          membership, identity key and the LOADED attribute values (read from __dict__, no
          refresh) of every object, rows this session's connection sees, rows other
          connections see.
Oracle:   an independent reference model (rows + per-object state with one snapshot per
          transaction scope) and the consistency predicate of the property itself:
          a persistent, non-dirty object's loaded values equal its row, every persistent
          object has a row, deleted objects have none.
"""
PID = "C33"
LEVEL = "translation_validation"
LEAN = ["SaVerif.Props.C33"]
META = {
    "text": "A hand-transcribed Lean model of the Session/SessionTransaction snapshot machinery (M-SESS: _take_snapshot/_restore_snapshot/_remove_snapshot, commit/rollback/close of the transaction stack, _register_persistent/_register_altered/_remove_newly_deleted, _expunge_states, reduced flush over one table with a SAVEPOINT stack) is compared step by step with a REAL Session on SQLite (expire_on_commit on and off, Session(autoflush=True|False), no_autoflush blocks): lifecycle state, new/dirty/deleted membership, identity key and loaded attribute values of every object, rows seen by the session's connection and by others. The property itself is checked by an independent reference model (rows + per-object state with a snapshot per scope) and a consistency predicate (persistent objects have a row, loaded non-dirty values equal it, deleted objects have none). Lean theorems: (session_rows_invariant, by induction over EVERY history incl. out-of-order handle operations) the transaction stack is always savepoints-on-one-root and whenever no transaction is left the session's connection sees exactly the committed rows (session_end_states: Session.commit()/rollback() always reach that state); (begin_nested_ignores_autoflush, savepoint_scope_starts_empty, flushObj_outer_untouched) begin_nested() writes the enclosing scope's pending work BEFORE the SAVEPOINT whatever the autoflush setting, the new savepoint transaction starts with nothing accounted to it, and a flush registers objects with the innermost transaction only; for ALL model states: a root rollback leaves no transaction, the committed rows and NO loaded value or pending change on any identity-map object (root_rollback_expires_all); a savepoint rollback restores exactly the rows of the SAVEPOINT and pops exactly that transaction (nested_rollback_restores_rows); evaluated coherence of long innermost-first histories; three counterexample theorems.",
    "note": "The full statement (coherence after every step of every innermost-first history) is NOT proved in Lean; it is carried by the differential run and the oracle. It is false without restrictions - three genuine defects found and replayed on the real code: rolling back an OUTER SessionTransaction while an inner savepoint is open (e.g. an exception leaving `with session.begin():` with a begin_nested() still open) closes the inner one without restoring its snapshot (outer_rollback_counterexample, known finding outer-rollback-skips-inner-snapshot, F20); a primary key switched in the transaction and again inside a released savepoint is restored to the intermediate key by a later rollback (key_switch_merge_counterexample, nested-key-switch-loses-original-key, F21); an object added and key-switched in a rolled-back transaction ends up detached instead of transient (rolled_back_new_object_counterexample, F23). Modelled-not-verified: the unit of work is reduced to one table and single-row INSERT/UPDATE/DELETE; flush failures, relationships, cascades, expunge/merge/refresh APIs and events are not modelled; SQLite via sqlite3 autocommit=False.",
    "technique": "per-step differential correspondence of a hand-transcribed Lean model against a real Session on SQLite + reference-model oracle; Lean theorems on the scope-ending functions for all states and counterexamples by evaluation",
    "design_ref": "DESIGN.md §3 C30-C33 (C33)",
}

KEY_F20 = "outer-rollback-skips-inner-snapshot"
KEY_F21 = "nested-key-switch-loses-original-key"
KEY_F23 = "rolled-back-new-object-with-key-switch-left-detached"


# ---------------------------------------------------------------- reference model
class Ref:
    """rows + per-object (status, key) with one snapshot per open transaction scope"""

    def __init__(self, autoflush=True):
        self.autoflush = autoflush
        self.committed = {}
        self.rows = {}
        self.objs = []  # dict(status, key, pk, v, dirty, marked)
        self.scopes = []  # list of dict(h, rows, objs=[(status,key)])  outermost first; [0] = root
        self.nh = 0
        self.key = None
        self.f21_risk = {}  # obj -> number of scopes in which its key was switched

    def _begin_root(self):
        if not self.scopes:
            self.scopes.append({"h": self.nh, "rows": dict(self.rows), "objs": [(o["status"], o["key"]) for o in self.objs], "nested": False, "switched": set()})
            self.nh += 1

    def _flush(self):
        for i, o in enumerate(self.objs):
            if o["status"] == "P":
                o["status"], o["key"] = "S", o["pk"]
                self.rows[o["pk"]] = o["v"]
                o["dirty"] = False
            elif o["status"] == "S" and o["marked"]:
                del self.rows[o["key"]]
                o["status"], o["marked"], o["dirty"] = "D", False, False
            elif o["status"] == "S" and o["dirty"]:
                if o["pk"] != o["key"]:
                    del self.rows[o["key"]]
                    o["key"] = o["pk"]
                    self.scopes[-1]["switched"].add(i)
                self.rows[o["key"]] = o["v"]
                o["dirty"] = False

    def _restore(self, sc):
        self.rows = dict(sc["rows"])
        d = self.scopes.index(sc)
        self.f23 = set()
        for x in self.scopes[d:]:
            self.f23 |= x["switched"]
        for i, o in enumerate(self.objs):
            if i < len(sc["objs"]):
                st, key = sc["objs"][i]
                o["status"], o["key"] = st, key
                if st == "T":
                    o["key"] = None
            elif o["status"] != "T":
                o["status"], o["key"] = "T", None
            o["dirty"] = o["marked"] = False
            if o["key"] is not None:
                o["pk"] = o["key"]
                o["v"] = self.rows.get(o["key"])

    def _end_all(self, commit):
        if commit:
            self._flush()
            self.committed = dict(self.rows)
            for o in self.objs:
                if o["status"] == "D":
                    o["status"] = "X"
        else:
            self._restore(self.scopes[0])
            self.rows = dict(self.committed)
        self.scopes = []

    def step(self, tok, loaded=False):
        """-> expectation dict(raises=bool) or None (outside what the property speaks about);
        `loaded`: for L<o>, the attribute is already loaded (no SELECT, hence no autobegin)"""
        self.key = None
        t0 = tok[0]
        if t0 == "A":
            o, pk, v = (int(x) for x in tok[1:].split(":"))
            self._begin_root()
            self.objs.append({"status": "P", "key": None, "pk": pk, "v": v, "dirty": False, "marked": False})
            return {"raises": False}
        if t0 in "MK":
            o, val = (int(x) for x in tok[1:].split(":"))
            ob = self.objs[o]
            if ob["status"] not in ("P", "S"):
                return None
            if ob["status"] == "S":
                self._begin_root()
                if t0 == "K" and not loaded and self.autoflush:
                    # the old primary key must be loaded first: SELECT, preceded by autoflush
                    self._flush()
                ob["dirty"] = True
            ob["v" if t0 == "M" else "pk"] = val
            return {"raises": False}
        if t0 == "D":
            ob = self.objs[int(tok[1:])]
            if ob["status"] != "S":
                return None
            self._begin_root()
            ob["marked"] = True
            return {"raises": False}
        if t0 == "L":
            ob = self.objs[int(tok[1:])]
            if ob["status"] not in ("S", "P", "T"):
                return None
            if ob["status"] == "S" and not loaded:
                self._begin_root()
                if self.autoflush:
                    self._flush()  # autoflush before the SELECT
            return {"raises": False}
        if tok == "F":
            if any(o["status"] == "P" or (o["status"] == "S" and (o["dirty"] or o["marked"])) for o in self.objs):
                self._begin_root()
                self._flush()
            return {"raises": False}
        if tok == "b":
            if self.scopes:
                return {"raises": True}
            self._begin_root()
            return {"raises": False}
        if tok in ("Z0", "Z1"):
            self.autoflush = tok == "Z1"
            return {"raises": False}
        if tok == "n":
            # work pending in the enclosing scope belongs to the enclosing scope: it is
            # written before the SAVEPOINT whatever the autoflush setting is
            self._begin_root()
            self._flush()
            self.scopes.append({"h": self.nh, "rows": dict(self.rows), "objs": [(o["status"], o["key"]) for o in self.objs], "nested": True, "switched": set()})
            self.nh += 1
            return {"raises": False}
        if tok == "C":
            if not self.scopes:
                # a transaction begun and ended inside commit(): its handle is never seen
                self.scopes.append({"h": -1, "rows": dict(self.rows), "objs": [(o["status"], o["key"]) for o in self.objs], "nested": False, "switched": set()})
            self._end_all(True)
            return {"raises": False}
        if tok == "R":
            if self.scopes:
                self._end_all(False)
            return {"raises": False}
        if tok == "X":
            # expunge_all() first (persistent -> detached, pending -> transient), then the
            # transaction is closed: the database rolls back, the objects are left alone
            for o in self.objs:
                if o["status"] in ("S", "D"):
                    o["status"] = "X"
                elif o["status"] == "P":
                    o["status"], o["key"] = "T", None
                o["dirty"] = o["marked"] = False
            self.rows = dict(self.committed)
            self.scopes = []
            return {"raises": False}
        if t0 == "x":
            return None  # SessionTransaction.close() called directly: not a documented way to end a scope
        if t0 in "cr":
            h = int(tok[1:])
            idx = [i for i, sc in enumerate(self.scopes) if sc["h"] == h]
            if not idx:
                return None  # ended handle: outside this property
            d = idx[0]
            if t0 == "c":
                self._flush()
                self._f21_check(d)
                if d == 0:
                    self._end_all(True)
                else:
                    for sc in self.scopes[d:]:
                        self.scopes[d - 1]["switched"] |= sc["switched"]
                    del self.scopes[d:]
                return {"raises": False}
            if d != len(self.scopes) - 1:
                self.key = KEY_F20
            if d == 0:
                self._end_all(False)
            else:
                self._restore(self.scopes[d])
                del self.scopes[d:]
            return {"raises": False}
        return None

    def _f21_check(self, d):
        """releasing scopes >= d (d >= 1 keeps a parent): an object whose key was switched both
        in a released scope and in an enclosing still-open scope is the F21 pattern"""
        if d == 0:
            return
        inner = set()
        for sc in self.scopes[d:]:
            inner |= sc["switched"]
        outer = set()
        for sc in self.scopes[:d]:
            outer |= sc["switched"]
        if inner & outer:
            self.f21 = True

    f21 = False
    f23 = frozenset()


def oracle(ops, records, autoflush=True):
    """-> (key, step, why) or None"""
    from harness import lib_sess

    ref = Ref(autoflush)
    prev = None
    for i, (tok, rec) in enumerate(zip(ops, records)):
        loaded = False
        if tok[0] in "LK" and prev is not None:
            po = prev["objs"].split(",")
            n = int(tok[1:].split(":")[0])
            loaded = n < len(po) and po[n].split(":")[3 if tok[0] == "L" else 2] != "E"
        exp = ref.step(tok, loaded)
        if exp is None:
            return None
        o = lib_sess.parse_record(rec)
        prev = o
        res = o["res"]
        key = ref.key or (KEY_F21 if ref.f21 else "c33-oracle")
        if res.startswith("EXC:") or res.startswith("DBAPI:"):
            return (key, i, "step %d (%s) let an internal error escape: %s" % (i, tok, res))
        if exp["raises"] and res == "ok":
            return ("c33-oracle", i, "step %d (%s) did not raise" % (i, tok))
        if not exp["raises"] and res != "ok":
            return (key, i, "step %d (%s) raised %s" % (i, tok, res))
        fr = lambda d: ",".join("%d=%s" % kv for kv in sorted(d.items())) or "-"  # noqa: E731
        # (1) rows: never excused by a known finding
        if o["committed"] != fr(ref.committed):
            return ("c33-oracle", i, "step %d (%s): other connections see %s, reference model %s" % (i, tok, o["committed"], fr(ref.committed)))
        if o["working"] != fr(ref.rows):
            return ("c33-oracle", i, "step %d (%s): the session's connection sees %s, reference model %s" % (i, tok, o["working"], fr(ref.rows)))
        rows = ref.rows
        # (2) per object: state, identity, loaded values against the database
        objs = o["objs"].split(",") if o["objs"] != "-" else []
        for n, (s, ro) in enumerate(zip(objs, ref.objs)):
            head, k, lid, lv = s.split(":")
            st, in_new, in_dirty, in_deleted = head[0], head[1], head[2], head[3]
            want = ro["status"]
            # with expire_on_commit=False a deleted object is left in the "deleted" state after
            # the commit instead of becoming detached; both mean "gone" here
            if st == "X" and want == "T" and n in ref.f23:
                return (KEY_F23, i, "step %d (%s): object %d, added and key-switched inside the rolled-back scope, is detached (identity key %s restored) instead of transient" % (i, tok, n, k))
            if st != want and not (want == "X" and st == "D"):
                return (key, i, "step %d (%s): object %d is %s, reference model %s" % (i, tok, n, st, want))
            if st == "S":
                if k == "N" or int(k) not in rows:
                    return (key, i, "step %d (%s): persistent object %d has identity key %s but the session's connection sees rows %s" % (i, tok, n, k, fr(rows)))
                if ro["key"] is not None and int(k) != ro["key"]:
                    return (key, i, "step %d (%s): object %d has identity key %s, reference model %s" % (i, tok, n, k, ro["key"]))
                if in_dirty == "0" and in_deleted == "0":
                    if lv != "E" and str(rows[int(k)]) != lv:
                        return (key, i, "step %d (%s): object %d holds loaded v=%s but its row has v=%s (stale, not expired)" % (i, tok, n, lv, rows[int(k)]))
                    if lid != "E" and lid != k:
                        return (key, i, "step %d (%s): object %d holds loaded id=%s but identity key %s" % (i, tok, n, lid, k))
            if st == "D" and want == "D" and k != "N" and int(k) in rows:
                return (key, i, "step %d (%s): object %d is in the deleted state but row %s exists" % (i, tok, n, k))
        f = o["flags"]
        if (f[0] == "1") != bool(ref.scopes):
            return (key, i, "step %d (%s): in_transaction()=%s, reference model %s" % (i, tok, f[0], bool(ref.scopes)))
        if (f[1] == "1") != (len(ref.scopes) > 1):
            return (key, i, "step %d (%s): in_nested_transaction()=%s, reference model %s" % (i, tok, f[1], len(ref.scopes) > 1))
    return None


# ---------------------------------------------------------------- generator
def gen_history(rng, world, n):
    pk = 1
    val = 10
    for _ in range(n):
        sa_inspect = world.sa.inspect
        live = [i for i, it in enumerate(world.objs) if sa_inspect(it).persistent and it not in world.sess.deleted]
        pend = [i for i, it in enumerate(world.objs) if sa_inspect(it).pending]
        nh = len(world.handles)
        active = [i for i, h in enumerate(world.handles) if h.is_active]
        r = rng.random()
        val += 1
        if r < 0.17 or not world.objs:
            yield "A%d:%d:%d" % (len(world.objs), pk, val)
            pk += 1
        elif r < 0.29 and (live or pend):
            yield "M%d:%d" % (rng.choice(live + pend), val)
        elif r < 0.37 and live:
            yield "K%d:%d" % (rng.choice(live), pk)
            pk += 1
        elif r < 0.44 and live:
            yield "D%d" % rng.choice(live)
        elif r < 0.53:
            yield "F"
        elif r < 0.59 and live:
            yield "L%d" % rng.choice(live)
        elif r < 0.71:
            yield "n"
        elif r < 0.77:
            yield "C"
        elif r < 0.82:
            yield "R"
        elif r < 0.83:
            yield "X"
        elif r < 0.84:
            yield "b"
        elif r < 0.865:
            # a `with session.no_autoflush:` block begins / ends
            yield "Z0" if world.sess.autoflush else "Z1"
        elif active:
            # mostly the innermost scope, sometimes an outer one
            h = active[-1] if rng.random() < 0.7 else rng.choice(active)
            yield rng.choice("ccrr") + str(h)
        else:
            yield "F"


def run_history(rng, n, eoc, af=True):
    from harness import lib_sess

    w = lib_sess.SWorld(eoc, "c33", af)
    ops, recs = [], []
    try:
        for tok in gen_history(rng, w, n):
            ops.append(tok)
            recs.append(w.step(tok))
    finally:
        w.dispose()
    return ops, recs


def replay_ops(ops, eoc, af=True):
    from harness import lib_sess

    return lib_sess.run_ops(ops, eoc, "c33r", af)


FIXED = [
    "A0:1:10;F;C;n;M0:11;A1:2:20;F;K0:5;F;D1;F;r2;L0;C",
    "A0:1:10;A1:2:20;C;D1;n;M0:11;F;R;L0;L1",
    "A0:1:10;n;A1:2:20;n;A2:3:30;F;r2;c1;C",
    "A0:1:10;C;M0:11;n;M0:12;F;r2;L0;C;L0",
    "A0:1:10;C;K0:5;n;M0:12;c2;R;L0",
    # F20: outer scope rolled back while an inner savepoint is open
    "A0:1:10;C;n;n;A1:2:20;F;M0:11;F;r2;L0",
    "A0:1:10;C;n;M0:11;F;r1;L0",
    # F21: key switched in the transaction and again in a released savepoint, then rollback
    "A0:1:10;C;K0:5;F;n;K0:6;F;c2;R;L0",
    # attribute assigned on an expired object without loading it (blind write) inside a
    # savepoint that is rolled back; then flush / commit of the enclosing transaction
    "A0:1:10;C;n;M0:11;r2;F;C;L0",
    "A0:1:10;A1:2:20;C;L1;n;M0:11;M1:21;r2;C;L0;L1",
]

FIXED_AF = [
    "A0:1:10;C;M0:11;A1:2:20;n;F;r2;L0;C;L0",
    "A0:1:10;C;M0:11;A1:2:20;n;A2:3:30;F;r2;C;L0;L1",
    "A0:1:10;C;Z0;M0:11;A1:2:20;n;F;r2;Z1;C;L0",
    "A0:1:10;C;Z0;D0;n;A1:2:20;F;r2;C",
    "A0:1:10;C;K0:5;n;M0:12;F;r2;L0;C",
    "A0:1:10;C;Z0;M0:11;L0;n;M0:12;L0;c2;R;L0",
]


def run(ctx, deep=False):
    from harness import lib_sess

    ctx.rule = (
        "histories (<=12 ops quick, <=18 thorough, plus 16 scripted) of add/modify/pk-switch/delete/flush/load/begin/begin_nested/"
        "commit/rollback/close and SessionTransaction handle commit/rollback/close (mostly innermost, sometimes outer) on a real Session, "
        "expire_on_commit on and off x Session(autoflush=True|False) x no_autoflush blocks beginning and ending anywhere; every op's record compared with the Lean model and checked by the oracle; "
        "non-trivial = uses a savepoint together with a rollback"
    )
    ctx.trusted.append("sqlite3 (autocommit=False) and SQLite SAVEPOINT semantics (abstract table in the model)")
    ctx.trusted.append("harness/lib_sess.py observation (reads Session._transaction stack, instance __dict__)")
    big = ctx.tier == "thorough" or deep
    cases, impl_out, reqs = [], [], []

    def check(ops, recs, eoc, af=True):
        case = {"ops": ops, "eoc": eoc, "af": af}
        ctx.case(str(eoc) + str(af) + ";".join(ops), nontrivial=("n" in ops and any(t == "R" or t[0] == "r" for t in ops)))
        ctx.count("expire_on_commit=%s" % eoc)
        ctx.count("autoflush=%s" % af)
        for t in ops:
            ctx.count("op=" + (t if t[0] == "Z" else t[0]))
        bad = oracle(ops, recs, af)
        if bad:
            ctx.violation(bad[0], {"ops": ops[: bad[1] + 1], "eoc": eoc, "af": af}, bad[2])
            if bad[0] in (KEY_F20, KEY_F21, KEY_F23):
                # beyond a known defect the session is in a state the model does not follow
                # (e.g. flushing an object whose row is gone): compare up to that step only
                ops, recs = ops[: bad[1] + 1], recs[: bad[1] + 1]
                case = {"ops": ops, "eoc": eoc, "af": af}
        cases.append(case)
        impl_out.append("|".join(recs) if recs else "-")
        reqs.append("sesstxn runa %d %d %s" % (1 if eoc else 0, 1 if af else 0, ";".join(ops) if ops else "-"))

    for s in FIXED:
        for eoc in (True, False):
            ops = s.split(";")
            check(ops, replay_ops(ops, eoc), eoc)
    # autoflush disabled (Session(autoflush=False) / a no_autoflush block) when begin_nested()
    # meets unflushed work of the enclosing scope, a flush inside the savepoint, its rollback
    for s in FIXED_AF:
        for eoc in (True, False):
            for af in (True, False):
                ops = s.split(";")
                check(ops, replay_ops(ops, eoc, af), eoc, af)
    n = 8000 if big else 1400
    maxlen = 18 if big else 12
    for i in range(n):
        eoc = ctx.rng.random() < 0.6
        af = ctx.rng.random() < 0.65
        ops, recs = run_history(ctx.rng, ctx.rng.randint(3, maxlen), eoc, af)
        check(ops, recs, eoc, af)
        if i % 300 == 0:
            ctx.sample({"expire_on_commit": eoc, "autoflush": af, "ops": ";".join(ops), "last": recs[-1]})
    if ctx.driver_ok() and MODEL_READY:
        ctx.correspond("corr/c33:Session-vs-Model.Sess", cases, impl_out, ctx.driver(reqs))


MODEL_READY = True


def search(ctx, broken):
    for d in ctx.disagreements:
        c = d["case"]
        recs = replay_ops(c["ops"], c["eoc"], c.get("af", True))
        bad = oracle(c["ops"], recs, c.get("af", True))
        if bad:
            ctx.violation(bad[0], {"ops": c["ops"][: bad[1] + 1], "eoc": c["eoc"], "af": c.get("af", True)}, bad[2])
    sub = type(ctx)(ctx.pid, "thorough", ctx.seed + 1, ctx.level)
    run(sub, deep=True)
    ctx.violations.extend(sub.violations)


def replay(ctx, obj):
    c = obj["case"]
    recs = replay_ops(c["ops"], c["eoc"], c.get("af", True))
    bad = oracle(c["ops"], recs, c.get("af", True))
    print("replay C33 expire_on_commit=%s autoflush=%s ops=%s" % (c["eoc"], c.get("af", True), ";".join(c["ops"])))
    for t, r in zip(c["ops"], recs):
        print("  %-9s %s" % (t, r))
    print("oracle:", bad)
    return bad is not None
