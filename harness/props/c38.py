"""C38 — instrumented collections behave exactly like the Python types they wrap.

Models: lean/SaVerif/Model/PySeq.lean (Python list semantics incl. slice.indices + the
_list_decorators), lean/SaVerif/Model/PySetDict.lean (_set_decorators, _dict_decorators,
KeyFuncDict.set/remove) — every operation returns contents, append/remove event log and
return value / exception.
Theorems: lean/SaVerif/Props/C38.lean
Correspondence: (a) the plain-list / plain-set / plain-dict models and sliceIndices against
CPython itself; (b) the instrumented models against real relationship collections of a mapped
class (InstrumentedList, InstrumentedSet, attribute_keyed_dict) with append/remove listeners.
Direct oracle: the builtin list/set/dict run side by side on the same operation: same
contents, return value, exception type; events account exactly for the membership change.
"""
PID = "C38"
LEVEL = "proof"
LEAN = ["SaVerif.Props.C38"]
META = {
    "text": "Lean theorems for lists of any length and any operation arguments: slice.indices(len) is always in range and every position of range(*indices) is a valid index (so the extended-slice loop never raises IndexError); the step-1 slice assignment (delete loop + insert loop, including `value is self`) equals list slice assignment; instrumented_list_refines_list_partial: every operation (append, remove, insert, __setitem__/__delitem__ by index and by any slice, pop, clear, extend/+=, *=, reverse) has the contents, return value and exception of the builtin list, and along any operation sequence the two go through the same states (induction); instrumented_list_events_account_partial: old + appended = new + removed as multisets. Both are _partial with exact guards, the excluded regions G3/G4/G5 being proved real by counterexample theorems and replayed on the real code (known findings). Sets and dicts are FULL theorems: whenever the builtin operation succeeds the instrumented set/dict ends with the same members / items (same order), raises nothing and fires exactly one append per new member and one remove per lost member (sets) / accounts for every value entering or leaving (dicts, KeyFuncDict.set/remove, |=); when the builtin raises, the instrumented one raises, unchanged and silent; instrumented_set_history_refines_set / instrumented_dict_history_refines_dict lift this to arbitrary operation histories by induction. Models are validated on every run against CPython's own list/set/dict and slice.indices, and against real relationship collections (InstrumentedList, InstrumentedSet, attribute_keyed_dict) with append/remove listeners; the builtin type runs side by side as the direct oracle.",
    "note": "_partial theorems: instrumented_list_refines_list_partial (ContentsGuard: not a non-iterable value on a non-empty step-1 slice [G3]; extended slice not from an iterator [G4]), instrumented_list_events_account_partial (EventsGuard: additionally *= needs n = 1 [G5]; remove() of an absent item fires nothing since the G1 fix); `del l[slice]` is covered for every start/stop/step (delslice_events_are_the_slice: the range positions are distinct and valid, so the removed items are exactly l[slice]); instrumented_list_history_events_account_partial lifts the accounting to whole histories by induction. Known finding outside the model: InstrumentedSet.update is not variadic [G6]. Trusted: Lean kernel; CPython list/set/dict semantics as modelled (validated differentially); set.pop's choice of member is taken from the observation; fire_append_wo_mutation / pre-remove events are not modelled (only append/remove).",
    "technique": "Lean 4 refinement proofs (instrumented operation = builtin operation + exact event accounting, for all lengths / indices / slices) + exhaustive small-scope and random differential correspondence with real relationship collections and with CPython's own list/set/dict + side-by-side builtin oracle",
    "design_ref": "DESIGN.md §3 C38",
}


def run(ctx, deep=False):
    from harness import lib_pyseq as P

    thorough = ctx.tier == "thorough" or deep
    ctx.rule = (
        "slice.indices: all (len<=6, start/stop in None,-8..8, step in None,-3..3) in thorough, seeded 15% in quick; list: random "
        "sequences (1-6 ops quick / 1-10 thorough) over lists of 0-6 items (duplicates allowed) with indices/slices from "
        "{None,-7..7} x steps {None,+-1,+-2,+-3,0} and values list/tuple/generator/the list itself/non-iterable, plus every slice "
        "assignment and deletion over start/stop in {None,-6,-5,-2,-1,0,1,2,4,5,6}, step in {None,-2,-1,1,2,0}, 0-3 new items on "
        "lists of length 0-5 (thorough) / a seeded quarter of a slightly smaller grid (quick); set and keyed dict: random "
        "sequences with arguments set/frozenset/instrumented set/list/generator/itself/non-iterable, methods and in-place "
        "operators, update via mapping/pairs/keywords; every case is non-trivial; distinct = distinct request line"
    )
    ctx.trusted.append("CPython list/set/dict semantics (modelled in Lean; validated against CPython by corr/c38:plain-*)")

    # ------------------------------------------------------------ slice.indices vs model
    cases, impl_out, reqs = [], [], []
    vals = [None] + list(range(-8, 9))
    steps = [None, -3, -2, -1, 0, 1, 2, 3]
    for n in range(0, 7):
        for a in vals:
            for b in vals:
                for c in steps:
                    if not thorough and ctx.rng.random() > 0.15:
                        continue
                    try:
                        r = slice(a, b, c).indices(n)
                        out = "%d,%d,%d" % r
                    except ValueError:
                        out = "E:ValueError"
                    cases.append({"kind": "indices", "len": n, "slice": [a, b, c]})
                    impl_out.append(out)
                    reqs.append("pyseq indices %d %s %s %s" % (n, P.opt(a), P.opt(b), P.opt(c)))
    ctx.count("indices.cases", len(cases))
    if ctx.driver_ok():
        ctx.correspond("corr/c38:slice.indices-vs-Model.PySeq.sliceIndices", cases, impl_out, ctx.driver(reqs))

    # ------------------------------------------------------------ list
    seqs = []
    for _ in range(6000 if thorough else 1500):
        seqs.append(P.gen_list_sequence(ctx.rng, maxlen=10 if thorough else 6))
    if thorough:
        seqs += list(P.exhaustive_slices(maxlen=5))
    else:
        ex = list(P.exhaustive_slices(maxlen=4, idxs=(None, -6, -5, -1, 0, 1, 2, 4, 6), steps=(None, -2, -1, 1, 2, 0), maxval=2))
        seqs += [e for e in ex if ctx.rng.random() < 0.25]
    cases, impl_out, reqs = [], [], []
    pcases, pimpl, preqs = [], [], []
    hangs = 0
    for i, (init, ops) in enumerate(seqs):
        if hangs >= 2:
            break
        trace, req, fails = P.run_list_sequence(init, ops)
        line = "pyseq list %s %s" % (P.dots(init) or "-", " ".join(req))
        ctx.case(line, nontrivial=True)
        for op in ops:
            ctx.count("list.op=" + op[0])
            if op[0] == "setslice":
                ctx.count("list.setslice.step=%s" % op[3])
                ctx.count("list.setslice.value=" + op[4][0])
        for key, detail, k in fails:
            hangs += key.endswith("does-not-terminate")
            ctx.violation(key, {"kind": "list", "init": init, "ops": ops[: k + 1]}, detail)
        cases.append({"kind": "list", "init": init, "ops": ops})
        impl_out.append(" ".join(trace))
        reqs.append("pyseq list %s %s" % (P.dots(init) or "-", " ".join(req[: len(trace)])))
        pcases.append({"kind": "plist", "init": init, "ops": ops})
        pimpl.append(" ".join(P.run_plain_list(init, ops)))
        preqs.append("pyseq plist %s %s" % (P.dots(init) or "-", " ".join(req)))
        if i < 2:
            ctx.sample({"list_init": init, "ops": ops, "trace": trace})
    if ctx.driver_ok():
        ctx.correspond("corr/c38:plain-list-model-vs-CPython", pcases, pimpl, ctx.driver(preqs))
        ctx.correspond("corr/c38:InstrumentedList-vs-Model.PySeq", cases, impl_out, ctx.driver(reqs))

    # ------------------------------------------------------------ set
    cases, impl_out, reqs = [], [], []
    pcases, pimpl, preqs = [], [], []
    hangs = 0
    for i in range(5000 if thorough else 1200):
        if hangs >= 2:
            break
        init, ops = P.gen_set_sequence(ctx.rng, maxlen=10 if thorough else 6)
        trace, req, fails = P.run_set_sequence(init, ops)
        line = "pyseq set %s %s" % (P.dots(init) or "-", " ".join(req))
        ctx.case(line, nontrivial=True)
        for op in ops:
            ctx.count("set.op=" + op[0])
        for key, detail, k in fails:
            hangs += key.endswith("does-not-terminate")
            ctx.violation(key, {"kind": "set", "init": init, "ops": ops[: k + 1]}, detail)
        if not req:
            continue
        cases.append({"kind": "set", "init": init, "ops": ops})
        impl_out.append(" ".join(trace))
        reqs.append(line)
        pcases.append({"kind": "pset", "init": init, "req": req})
        pimpl.append(" ".join(P.run_plain_set(init, req)))
        preqs.append("pyseq pset %s %s" % (P.dots(init) or "-", " ".join(req)))
        if i < 1:
            ctx.sample({"set_init": init, "ops": ops, "trace": trace})
    if ctx.driver_ok():
        ctx.correspond("corr/c38:plain-set-model-vs-CPython", pcases, pimpl, ctx.driver(preqs))
        ctx.correspond("corr/c38:InstrumentedSet-vs-Model.PySetDict", cases, impl_out, ctx.driver(reqs))

    # ------------------------------------------------------------ dict
    cases, impl_out, reqs = [], [], []
    pcases, pimpl, preqs = [], [], []
    hangs = 0
    for i in range(5000 if thorough else 1200):
        if hangs >= 2:
            break
        init, ops = P.gen_dict_sequence(ctx.rng, maxlen=10 if thorough else 6)
        trace, req, fails, ops = P.run_dict_sequence_full(init, ops)  # ops: execution-time arguments resolved
        itok = ",".join("%d=%d" % kv for kv in init) or "-"
        line = "pyseq dict %s %s" % (itok, " ".join(req))
        ctx.case(line, nontrivial=True)
        for op in ops:
            ctx.count("dict.op=" + op[0] + ("/" + op[1] if op[0] == "update" else ""))
        for key, detail, k in fails:
            hangs += key.endswith("does-not-terminate")
            ctx.violation(key, {"kind": "dict", "init": init, "ops": ops[: k + 1]}, detail)
        cases.append({"kind": "dict", "init": init, "ops": ops})
        impl_out.append(" ".join(trace))
        reqs.append("pyseq dict %s %s" % (itok, " ".join(req[: len(trace)])))
        pcases.append({"kind": "pdict", "init": init, "ops": ops})
        pimpl.append(" ".join(P.run_plain_dict(init, ops)))
        preqs.append("pyseq pdict %s %s" % (itok, " ".join(req)))
        if i < 1:
            ctx.sample({"dict_init": init, "ops": ops, "trace": trace})
    if ctx.driver_ok():
        ctx.correspond("corr/c38:plain-dict-model-vs-CPython", pcases, pimpl, ctx.driver(preqs))
        ctx.correspond("corr/c38:KeyFuncDict-vs-Model.PySetDict", cases, impl_out, ctx.driver(reqs))
    # ------------------------------------------------------------ whole-collection assignment (bulk_replace)
    for kind in ("list", "set", "dict"):
        for _ in range(600 if thorough else 150):
            old = ctx.rng.sample(range(P.NITEMS), ctx.rng.randint(0, 5))
            new = ctx.rng.sample(range(P.NITEMS), ctx.rng.randint(0, 5))
            ctx.case(("assign", kind, old, new), nontrivial=True)
            ctx.count("assign." + kind)
            r = P.run_bulk_replace(kind, old, new)
            if r:
                ctx.violation(r[0], {"kind": "assign", "coll": kind, "old": old, "new": new}, r[1])
    ctx.exhaustive = thorough


def search(ctx, broken):
    sub = type(ctx)(ctx.pid, "thorough", ctx.seed + 1, ctx.level)
    run(sub, deep=True)
    ctx.violations.extend(sub.violations)


def replay(ctx, obj):
    from harness import lib_pyseq as P

    c = obj["case"]
    kind = c["kind"]
    if kind == "list":
        trace, req, fails = P.run_list_sequence(c["init"], [_detuple(o) for o in c["ops"]])
    elif kind == "set":
        trace, req, fails = P.run_set_sequence(c["init"], c["ops"])
    elif kind == "dict":
        trace, req, fails = P.run_dict_sequence([tuple(p) for p in c["init"]], c["ops"])
    elif kind == "assign":
        r = P.run_bulk_replace(c["coll"], c["old"], c["new"])
        print("replay C38 assign %s old=%s new=%s -> %s" % (c["coll"], c["old"], c["new"], r))
        return r is not None
    else:
        raise ValueError(kind)
    want = obj.get("key")
    print("replay C38 %s init=%s %s\n  trace: %s\n  oracle: %s" % (kind, c["init"], " ".join(req), " ".join(trace), fails))
    return any(f[0] == want for f in fails) if want else bool(fails)


def _detuple(o):
    return o
