"""C17 — lambda statements never reuse stale closure values.

Model      lean/SaVerif/Model/Lambda.lean (closure variables classified bound /
           structural at first analysis; lambda cache keyed by code + structural values;
           bound values re-extracted per invocation)
Theorems   lean/SaVerif/Props/C17.lean
run():     lambda templates (one code object each) invoked over random histories of
           closure values — scalars, strings, lists for IN (varying length), columns,
           tables, None, object attributes, chained add_criteria, lambda criteria in
           where(), ORM with_loader_criteria — on one SQLite engine (shared compiled
           cache + shared lambda cache):
             direct oracle   SQL with values substituted and rows equal those of the
                             equivalent statement built directly from the same values
             correspondence  lambda-cache hit/miss and the extracted bound values per
                             invocation vs the Lean model (histories whose variables keep
                             their kind)
"""
import json

PID = "C17"
LEVEL = "proof"
LEAN = ["SaVerif.Props.C17"]
META = {
    "text": "Lean theorem lambda_invocation_eq_direct: for ANY history of invocations of a lambda whose closure variables keep their kind (bound literal vs structural), with any user function that is parametric in its literal variables, every invocation through the lambda cache (analysis done once at the first call, cache keyed by code + structural values, bound values re-extracted from the current closure) yields the statement and parameters of the directly built statement for the CURRENT closure values; proved by induction over the history with a cache invariant; the stability hypothesis is necessary (kind_change_counterexample). chain_invocation_eq_direct: for any history of linked-lambda chains (optional middle links, alternative roots) a cache keyed by an injective function of the whole path of code objects yields the directly built statement; truncated_key_counterexample shows (parent code, own code) is not enough. Tied to sql/lambdas.py by a differential run: lambda-cache hit/miss pattern and extracted bound values per invocation vs model; the property itself is checked on the real code by comparing SQL (values substituted) and rows of every invocation with the directly built statement on SQLite, for 45 lambda templates over random value histories.",
    "note": "Trusted / not modelled: CPython closure and code-object mechanics, AnalyzedCode bytecode rewriting and PyWrapper attribute tracking are covered by the differential only; the model's parametricity hypothesis (the user function uses literal closure values only as bound values) is an assumption about the generated templates. Known findings: integer index on a closure sequence raises TypeError at construction; helper functions from one factory (same code, different defaults) share a cache entry; a closure variable whose value is None is rendered as a bound parameter (`col = ?` with NULL) where the directly built statement renders `col IS NULL` — see known_findings.d/C17.json.",
    "technique": "Lean 4 induction over invocation histories with a cache invariant + differential correspondence (hit/miss, extracted values) + direct-construct oracle on SQLite",
    "design_ref": "DESIGN.md §3 C17",
}

KEY_KIND = "closure-value-none-bound-instead-of-is-null"


class Env:
    def __init__(self):
        import sqlalchemy as sa
        from harness import lib_binds as lb

        global SA
        SA = sa
        self.sa, self.lb = sa, lb
        self.fx = lb.Fixture()
        self.T, self.U = self.fx.mapped()
        self.e = lb.sqlite_engine("qmark", self.fx, record_pre=False, query_cache_size=500)
        self.cap = []

        @sa.event.listens_for(self.e, "before_cursor_execute")
        def _b(conn, cursor, statement, parameters, context, executemany):
            self.cap.append((statement, parameters))


SA = None  # the sqlalchemy module, as a *global* of the lambdas (set by Env)


class Holder:
    """object whose attributes are read inside a lambda"""

    def __init__(self, **kw):
        self.__dict__.update(kw)


# --------------------------------------------------------------------------- templates
# every template: f(env, v) -> (lambda statement, direct statement); `v` is a dict of
# JSON values; "col"/"tab" values are names resolved here.  The lambda bodies live in
# ONE code object per template (the whole point of the property).
def _col(env, name):
    return env.fx.t.c[name]


def t_scalar(env, v):
    t = env.fx.t
    a = v["a"]
    return SA.lambda_stmt(lambda: SA.select(t.c.id, t.c.x).where(t.c.x > a).order_by(t.c.id)), SA.select(t.c.id, t.c.x).where(t.c.x > a).order_by(t.c.id)


def t_two_scalars(env, v):
    t = env.fx.t
    a, b = v["a"], v["b"]
    return (
        SA.lambda_stmt(lambda: SA.select(t.c.id).where(t.c.x > a).where(t.c.y < b).order_by(t.c.id)),
        SA.select(t.c.id).where(t.c.x > a).where(t.c.y < b).order_by(t.c.id),
    )


def t_same_scalar_twice(env, v):
    t = env.fx.t
    a = v["a"]
    return (
        SA.lambda_stmt(lambda: SA.select(t.c.id).where(SA.or_(t.c.x == a, t.c.y == a)).order_by(t.c.id)),
        SA.select(t.c.id).where(SA.or_(t.c.x == a, t.c.y == a)).order_by(t.c.id),
    )


def t_string(env, v):
    t = env.fx.t
    s = v["s"]
    return SA.lambda_stmt(lambda: SA.select(t.c.id, t.c.s).where(t.c.s >= s).order_by(t.c.id)), SA.select(t.c.id, t.c.s).where(t.c.s >= s).order_by(t.c.id)


def t_in_list(env, v):
    t = env.fx.t
    vals = list(v["vals"])
    return SA.lambda_stmt(lambda: SA.select(t.c.id).where(t.c.x.in_(vals)).order_by(t.c.id)), SA.select(t.c.id).where(t.c.x.in_(vals)).order_by(t.c.id)


def t_in_list_and_scalar(env, v):
    t = env.fx.t
    vals, a = list(v["vals"]), v["a"]
    return (
        SA.lambda_stmt(lambda: SA.select(t.c.id).where(t.c.y >= a).where(t.c.x.not_in(vals)).order_by(t.c.id)),
        SA.select(t.c.id).where(t.c.y >= a).where(t.c.x.not_in(vals)).order_by(t.c.id),
    )


def t_column(env, v):
    t = env.fx.t
    c, a = _col(env, v["col"]), v["a"]
    return SA.lambda_stmt(lambda: SA.select(t.c.id).where(c > a).order_by(t.c.id)), SA.select(t.c.id).where(c > a).order_by(t.c.id)


def t_order_column(env, v):
    t = env.fx.t
    c, a = _col(env, v["col"]), v["a"]
    return (
        SA.lambda_stmt(lambda: SA.select(t.c.id, c).where(t.c.x > a).order_by(c.desc(), t.c.id)),
        SA.select(t.c.id, c).where(t.c.x > a).order_by(c.desc(), t.c.id),
    )


def t_table(env, v):
    tb = env.fx.t if v["tab"] == "t" else env.fx.u
    a = v["a"]
    return SA.lambda_stmt(lambda: SA.select(tb.c.id).where(tb.c.id > a).order_by(tb.c.id)), SA.select(tb.c.id).where(tb.c.id > a).order_by(tb.c.id)


def t_none(env, v):
    t = env.fx.t
    a = v["n"]
    return SA.lambda_stmt(lambda: SA.select(t.c.id).where(t.c.y == a).order_by(t.c.id)), SA.select(t.c.id).where(t.c.y == a).order_by(t.c.id)


def t_add_criteria(env, v):
    t = env.fx.t
    a, b = v["a"], v["b"]
    st = SA.lambda_stmt(lambda: SA.select(t.c.id, t.c.x))
    st += lambda s: s.where(t.c.x > a)
    st += lambda s: s.where(t.c.y <= b).order_by(t.c.id)
    return st, SA.select(t.c.id, t.c.x).where(t.c.x > a).where(t.c.y <= b).order_by(t.c.id)


def t_add_criteria_column(env, v):
    t = env.fx.t
    a, c = v["a"], _col(env, v["col"])
    st = SA.lambda_stmt(lambda: SA.select(t.c.id))
    st += lambda s: s.where(c >= a)
    st += lambda s: s.order_by(c, t.c.id)
    return st, SA.select(t.c.id).where(c >= a).order_by(c, t.c.id)


def t_conditional_chain(env, v):
    t = env.fx.t
    a, b = v["a"], v["b"]
    st = SA.lambda_stmt(lambda: SA.select(t.c.id))
    d = SA.select(t.c.id)
    if v["flag"]:
        st += lambda s: s.where(t.c.x > a)
        d = d.where(t.c.x > a)
    st += lambda s: s.where(t.c.y >= b).order_by(t.c.id)
    return st, d.where(t.c.y >= b).order_by(t.c.id)


G_VAL = 0  # a module global read inside a lambda (bound value tracked through fn.__globals__)


def t_global_literal(env, v):
    global G_VAL
    t = env.fx.t
    G_VAL = v["a"]
    b = v["b"]
    return (
        SA.lambda_stmt(lambda: SA.select(t.c.id).where(t.c.x > G_VAL).where(t.c.y < b).order_by(t.c.id)),
        SA.select(t.c.id).where(t.c.x > G_VAL).where(t.c.y < b).order_by(t.c.id),
    )


def t_local_from_attr(env, v):
    t = env.fx.t
    h = Holder(lo=v["a"], hi=v["b"])
    lo, hi = h.lo, h.hi
    return (
        SA.lambda_stmt(lambda: SA.select(t.c.id).where(t.c.x.between(lo, hi)).order_by(t.c.id)),
        SA.select(t.c.id).where(t.c.x.between(lo, hi)).order_by(t.c.id),
    )


def t_limit(env, v):
    t = env.fx.t
    a, n = v["a"], v["lim"]
    return (
        SA.lambda_stmt(lambda: SA.select(t.c.id).where(t.c.x > a).order_by(t.c.id).limit(n)),
        SA.select(t.c.id).where(t.c.x > a).order_by(t.c.id).limit(n),
    )


def t_where_lambda(env, v):
    t = env.fx.t
    a, b = v["a"], v["b"]
    return (
        SA.select(t.c.id).where(lambda: t.c.x > a).where(lambda: t.c.y < b).order_by(t.c.id),
        SA.select(t.c.id).where(t.c.x > a).where(t.c.y < b).order_by(t.c.id),
    )


def t_where_lambda_in(env, v):
    t = env.fx.t
    vals, a = list(v["vals"]), v["a"]
    return (
        SA.select(t.c.id).where(lambda: t.c.x.in_(vals)).where(lambda: t.c.y >= a).order_by(t.c.id),
        SA.select(t.c.id).where(t.c.x.in_(vals)).where(t.c.y >= a).order_by(t.c.id),
    )


def t_case(env, v):
    t = env.fx.t
    a, b, c = v["a"], v["b"], v["c"]
    return (
        SA.lambda_stmt(lambda: SA.select(t.c.id, SA.case((t.c.x > a, b), else_=c)).order_by(t.c.id)),
        SA.select(t.c.id, SA.case((t.c.x > a, b), else_=c)).order_by(t.c.id),
    )


def t_update(env, v):
    t = env.fx.t
    a, b = v["a"], v["b"]
    return (
        SA.lambda_stmt(lambda: SA.update(t).where(t.c.x > a).values(y=b)),
        SA.update(t).where(t.c.x > a).values(y=b),
    )


def t_orm_entity(env, v):
    T = env.T
    a = v["a"]
    return (
        SA.lambda_stmt(lambda: SA.select(T.id, T.x).where(T.x > a).order_by(T.id)),
        SA.select(T.id, T.x).where(T.x > a).order_by(T.id),
    )


def t_orm_loader_criteria(env, v):
    from sqlalchemy import orm

    T, U = env.T, env.U
    a, b = v["a"], v["b"]
    return (
        SA.select(T).where(T.x > a).options(orm.selectinload(T.us), orm.with_loader_criteria(U, lambda cls: cls.v > b)).order_by(T.id),
        SA.select(T).where(T.x > a).options(orm.selectinload(T.us.and_(U.v > b))).order_by(T.id),
    )


def t_join_table(env, v):
    t, u = env.fx.t, env.fx.u
    a = v["a"]
    c = u.c.v if v["col"] == "x" else u.c.tid
    return (
        SA.lambda_stmt(lambda: SA.select(t.c.id, c).join_from(t, u, u.c.tid == t.c.id).where(c > a).order_by(t.c.id, u.c.id)),
        SA.select(t.c.id, c).join_from(t, u, u.c.tid == t.c.id).where(c > a).order_by(t.c.id, u.c.id),
    )


def t_closure_expr(env, v):
    t = env.fx.t
    crit = t.c.x > v["a"]
    return SA.lambda_stmt(lambda: SA.select(t.c.id).where(crit).order_by(t.c.id)), SA.select(t.c.id).where(crit).order_by(t.c.id)


def t_closure_expr_str(env, v):
    t = env.fx.t
    crit = t.c.s >= v["s"]
    b = v["b"]
    return (
        SA.lambda_stmt(lambda: SA.select(t.c.id).where(crit).where(t.c.y <= b).order_by(t.c.id)),
        SA.select(t.c.id).where(crit).where(t.c.y <= b).order_by(t.c.id),
    )


def t_closure_expr_in(env, v):
    t = env.fx.t
    crit = t.c.x.in_(list(v["vals"]))
    a = v["a"]
    st = SA.lambda_stmt(lambda: SA.select(t.c.id).where(crit))
    st += lambda s: s.where(t.c.y >= a).order_by(t.c.id)
    return st, SA.select(t.c.id).where(crit).where(t.c.y >= a).order_by(t.c.id)


def t_three_columns(env, v):
    t = env.fx.t
    c1, c2, c3 = _col(env, v["col"]), _col(env, v["col2"]), _col(env, v["col3"])
    a = v["a"]
    return (
        SA.lambda_stmt(lambda: SA.select(t.c.id, c1, c2).where(c3 > a).order_by(t.c.id)),
        SA.select(t.c.id, c1, c2).where(c3 > a).order_by(t.c.id),
    )


class Tag(str):
    """a literal (str) closure value that also carries attributes"""


def _tag(s, n, m):
    tg = Tag(s)
    tg.n = n
    tg.m = m
    return tg


def t_direct_and_attr(env, v):
    # the SAME closure variable used directly as a bound value and through an attribute
    t = env.fx.t
    tg = _tag(v["s"], v["a"], v["b"])
    return (
        SA.lambda_stmt(lambda: SA.select(t.c.id).where(SA.or_(t.c.s == tg, t.c.x > tg.n)).order_by(t.c.id)),
        SA.select(t.c.id).where(SA.or_(t.c.s == str(tg), t.c.x > tg.n)).order_by(t.c.id),
    )


def t_two_attrs(env, v):
    t = env.fx.t
    tg = _tag(v["s"], v["a"], v["b"])
    return (
        SA.lambda_stmt(lambda: SA.select(t.c.id).where(t.c.x > tg.n).where(t.c.y < tg.m).where(t.c.s != tg).order_by(t.c.id)),
        SA.select(t.c.id).where(t.c.x > tg.n).where(t.c.y < tg.m).where(t.c.s != str(tg)).order_by(t.c.id),
    )


def t_index(env, v):
    t = env.fx.t
    pair = (v["a"], v["b"])
    return (
        SA.lambda_stmt(lambda: SA.select(t.c.id).where(t.c.x > pair[0]).where(t.c.y < pair[1]).order_by(t.c.id)),
        SA.select(t.c.id).where(t.c.x > pair[0]).where(t.c.y < pair[1]).order_by(t.c.id),
    )


def t_list_direct_and_index(env, v):
    t = env.fx.t
    vals = list(v["vals"]) or [1000]
    return (
        SA.lambda_stmt(lambda: SA.select(t.c.id).where(SA.or_(t.c.x.in_(vals), t.c.y > vals[0])).order_by(t.c.id)),
        SA.select(t.c.id).where(SA.or_(t.c.x.in_(vals), t.c.y > vals[0])).order_by(t.c.id),
    )


def t_dict_index(env, v):
    t = env.fx.t
    d = {"lo": v["a"], "hi": v["b"]}
    return (
        SA.lambda_stmt(lambda: SA.select(t.c.id).where(t.c.x.between(d["lo"], d["hi"])).order_by(t.c.id)),
        SA.select(t.c.id).where(t.c.x.between(d["lo"], d["hi"])).order_by(t.c.id),
    )


# helper functions held in the closure ("strategy" functions returning SQL constructs)
def _crit_x(t):
    return t.c.x > 1200


def _crit_y(t):
    return t.c.y < 2010


def _crit_both(t):
    return SA.and_(t.c.x > 1100, t.c.y >= 2005)


def _ord_x(t):
    return t.c.x.desc()


def _ord_y(t):
    return t.c.y


HELPERS = {"cx": _crit_x, "cy": _crit_y, "cb": _crit_both}
ORDERS = {"ox": _ord_x, "oy": _ord_y}


def t_helper_fn(env, v):
    t = env.fx.t
    f = HELPERS[v["fn"]]
    a = v["a"]
    return (
        SA.lambda_stmt(lambda: SA.select(t.c.id).where(f(t)).where(t.c.id > a).order_by(t.c.id)),
        SA.select(t.c.id).where(f(t)).where(t.c.id > a).order_by(t.c.id),
    )


def t_helper_order(env, v):
    t = env.fx.t
    f, g = HELPERS[v["fn"]], ORDERS[v["ord"]]
    st = SA.lambda_stmt(lambda: SA.select(t.c.id, t.c.x, t.c.y).where(f(t)))
    st += lambda s: s.order_by(g(t), t.c.id)
    return st, SA.select(t.c.id, t.c.x, t.c.y).where(f(t)).order_by(g(t), t.c.id)


def _mk_default_helper(k):
    def helper(t, k=k):  # same code object for every k, different defaults
        return t.c.x > k

    return helper


def t_helper_defaults(env, v):
    t = env.fx.t
    f = _mk_default_helper(v["a"])
    return (
        SA.lambda_stmt(lambda: SA.select(t.c.id).where(f(t)).order_by(t.c.id)),
        SA.select(t.c.id).where(f(t)).order_by(t.c.id),
    )


def t_nested_lambda(env, v):
    t = env.fx.t
    a, b = v["a"], v["b"]
    return (
        SA.lambda_stmt(lambda: SA.select(t.c.id).where(lambda: t.c.x > a).where(t.c.y < b).order_by(t.c.id)),
        SA.select(t.c.id).where(t.c.x > a).where(t.c.y < b).order_by(t.c.id),
    )


ROOT_OPTS = {
    "default": {},
    "tbv_false": {"track_bound_values": False},
    "tracking_false": {"enable_tracking": False},
    "tcv_false": {"track_closure_variables": False},
    "track_on": None,  # track_on=[t], filled in below
}
LINKS = ["wa", "wb", "ws", "win", "wc", "wa2"]


_CHAIN_SRC = r'''
def t_chain_@@(env, v):
    """general chain builder: a root created with (possibly non-default) per-lambda options,
    extended by any sub-sequence of optional links with `+` or add_criteria, followed by
    identical trailing links.  Every `lambda` below is ONE code object for the whole run."""
    t = env.fx.t
    a, b, s, vals = v["a"], v["b"], v["s"], list(v["vals"])
    c = _col(env, v["col"])
    kw = ROOT_OPTS["@@"]
    if kw is None:
        kw = {"track_on": [t]}
    if v["root"] == "r1":
        st = SA.lambda_stmt(lambda: SA.select(t.c.id, t.c.x), **kw)
        d = SA.select(t.c.id, t.c.x)
    else:
        st = SA.lambda_stmt(lambda: SA.select(t.c.id), **kw)
        d = SA.select(t.c.id)
    if "%%" == "plus":
        plus = lambda st_, fn: st_ + fn  # noqa: E731
    elif "%%" == "iadd":

        def plus(st_, fn):
            st_ += fn
            return st_

    else:
        plus = lambda st_, fn: st_.add_criteria(fn)  # noqa: E731
    for link in v["links"]:
        if link == "wa":
            st = plus(st, lambda q: q.where(t.c.x > a))
            d = d.where(t.c.x > a)
        elif link == "wa2":
            st = plus(st, lambda q: q.where(t.c.x != a))
            d = d.where(t.c.x != a)
        elif link == "wb":
            st = plus(st, lambda q: q.where(t.c.y < b))
            d = d.where(t.c.y < b)
        elif link == "ws":
            st = plus(st, lambda q: q.where(t.c.s >= s))
            d = d.where(t.c.s >= s)
        elif link == "win":
            st = plus(st, lambda q: q.where(t.c.x.in_(vals)))
            d = d.where(t.c.x.in_(vals))
        elif link == "wc":
            st = plus(st, lambda q: q.where(c > a))
            d = d.where(c > a)
    # identical trailing links
    st = plus(st, lambda q: q.order_by(c.desc()))
    st = plus(st, lambda q: q.order_by(t.c.id))
    d = d.order_by(c.desc()).order_by(t.c.id)
    return st, d
'''


_COPIES = []


def _make_chain(opt, form):
    """one copy of the chain builder per (root option, link form): its lambdas are distinct
    code objects, so the links are analysed for the first time (AnalyzedCode is cached per
    code object) under exactly that option and form"""
    ns = {"SA": None, "ROOT_OPTS": ROOT_OPTS, "_col": _col}
    # code objects compare BY VALUE (file name excluded): shift every copy by a different number
    # of lines so that its lambdas are different keys of AnalyzedCode._fns / the lambda cache
    _COPIES.append((opt, form))
    code = compile("\n" * (200 * len(_COPIES)) + _CHAIN_SRC.replace("@@", opt).replace("%%", form), "<c17-chain-%s-%s-%d>" % (opt, form, len(_COPIES)), "exec")

    def fn(env, v, _ns=ns, _code=code):
        if "t_chain_" + opt not in _ns:
            exec(_code, _ns)
        _ns["SA"] = SA
        return _ns["t_chain_" + opt](env, v)

    return fn


TEMPLATES = {
    "chain_default_plus": (_make_chain("default", "plus"), ["a", "b2", "s", "vals", "col", "root", "links"]),
    "chain_default_add_criteria": (_make_chain("default", "add_criteria"), ["a", "b2", "s", "vals", "col", "root", "links"]),
    "chain_tbv_false_plus": (_make_chain("tbv_false", "plus"), ["a", "b2", "s", "vals", "col", "root", "links"]),
    "chain_tbv_false_add_criteria": (_make_chain("tbv_false", "add_criteria"), ["a", "b2", "s", "vals", "col", "root", "links"]),
    "chain_tracking_false_plus": (_make_chain("tracking_false", "plus"), ["a", "b2", "s", "vals", "col", "root", "links"]),
    "chain_tracking_false_add_criteria": (_make_chain("tracking_false", "add_criteria"), ["a", "b2", "s", "vals", "col", "root", "links"]),
    "chain_tcv_false_plus": (_make_chain("tcv_false", "plus"), ["a", "b2", "s", "vals", "col", "root", "links"]),
    "chain_tcv_false_add_criteria": (_make_chain("tcv_false", "add_criteria"), ["a", "b2", "s", "vals", "col", "root", "links"]),
    "chain_track_on_plus": (_make_chain("track_on", "plus"), ["a", "b2", "s", "vals", "col", "root", "links"]),
    "chain_track_on_add_criteria": (_make_chain("track_on", "add_criteria"), ["a", "b2", "s", "vals", "col", "root", "links"]),
    "direct_and_attr": (t_direct_and_attr, ["s", "a", "b2"]),
    "two_attrs": (t_two_attrs, ["s", "a", "b2"]),
    "index": (t_index, ["a", "b2"]),
    "list_direct_and_index": (t_list_direct_and_index, ["vals"]),
    "helper_fn": (t_helper_fn, ["fn", "a_small"]),
    "helper_order": (t_helper_order, ["fn", "ord"]),
    "helper_defaults": (t_helper_defaults, ["a"]),
    "nested_lambda": (t_nested_lambda, ["a", "b2"]),
    "closure_expr": (t_closure_expr, ["a"]),
    "closure_expr_str": (t_closure_expr_str, ["s", "b2"]),
    "closure_expr_in": (t_closure_expr_in, ["vals", "a2"]),
    "three_columns": (t_three_columns, ["col", "col2", "col3", "a"]),
    "scalar": (t_scalar, ["a"]),
    "two_scalars": (t_two_scalars, ["a", "b2"]),
    "same_scalar_twice": (t_same_scalar_twice, ["a"]),
    "string": (t_string, ["s"]),
    "in_list": (t_in_list, ["vals"]),
    "in_list_and_scalar": (t_in_list_and_scalar, ["vals", "a2"]),
    "column": (t_column, ["col", "a"]),
    "order_column": (t_order_column, ["col", "a"]),
    "table": (t_table, ["tab", "a_small"]),
    "none": (t_none, ["n"]),
    "add_criteria": (t_add_criteria, ["a", "b2"]),
    "add_criteria_column": (t_add_criteria_column, ["a", "col"]),
    "conditional_chain": (t_conditional_chain, ["a", "b2", "flag"]),
    "global_literal": (t_global_literal, ["a", "b2"]),
    "local_from_attr": (t_local_from_attr, ["a", "b_hi"]),
    "limit": (t_limit, ["a", "lim"]),
    "where_lambda": (t_where_lambda, ["a", "b2"]),
    "where_lambda_in": (t_where_lambda_in, ["vals", "a2"]),
    "case": (t_case, ["a", "b_any", "c_any"]),
    "update": (t_update, ["a", "b_any"]),
    "orm_entity": (t_orm_entity, ["a"]),
    "orm_loader_criteria": (t_orm_loader_criteria, ["a", "b_v"]),
    "join_table": (t_join_table, ["a", "col"]),
}


def gen_values(rng, kinds, stable=True):
    from harness import lib_binds as lb

    v = {}
    for k in kinds:
        if k == "a":
            v["a"] = rng.choice(lb.X_VALUES) + rng.choice([0, 1, -1, 40, -40])
        elif k == "a2":
            v["a"] = rng.choice(lb.Y_VALUES) + rng.choice([0, 1, -1])
        elif k == "a_small":
            v["a"] = rng.randint(0, 9)
        elif k == "b2":
            v["b"] = rng.choice(lb.Y_VALUES) + rng.choice([0, 1, 6])
        elif k == "b_hi":
            v["b"] = rng.choice(lb.X_VALUES) + rng.choice([0, 200, 500])
        elif k in ("b_any", "c_any"):
            v[k[0]] = rng.randint(4000, 8999)
        elif k == "b_v":
            v["b"] = rng.choice(lb.X_VALUES)
        elif k == "s":
            v["s"] = rng.choice(lb.S_VALUES)
        elif k == "vals":
            v["vals"] = [rng.choice(lb.X_VALUES) for _ in range(rng.choice([0, 1, 2, 3, 5]))]
        elif k in ("col", "col2", "col3"):
            v[k] = rng.choice(["x", "y"])
        elif k == "tab":
            v["tab"] = rng.choice(["t", "u"])
        elif k == "n":
            v["n"] = rng.choice(lb.Y_VALUES) if stable else rng.choice([None, rng.choice(lb.Y_VALUES)])
        elif k == "root_opt":
            v["root_opt"] = rng.choice(sorted(ROOT_OPTS))
        elif k == "root":
            v["root"] = rng.choice(["r1", "r2"])
        elif k == "form":
            v["form"] = rng.choice(["plus", "plus", "add_criteria"])
        elif k == "links":
            v["links"] = [l for l in LINKS if rng.random() < 0.45]
        elif k == "fn":
            v["fn"] = rng.choice(["cx", "cy", "cb"])
        elif k == "ord":
            v["ord"] = rng.choice(["ox", "oy"])
        elif k == "flag":
            v["flag"] = rng.random() < 0.5
        elif k == "lim":
            v["lim"] = rng.randint(1, 9)
    return v


# --------------------------------------------------------------------------- execution
def execute(env, stmt, dml, orm):
    from sqlalchemy.orm import Session

    del env.cap[:]
    out = {}
    try:
        if orm:
            with Session(env.e) as s:
                objs = s.execute(stmt).unique().scalars().all()
                out["rows"] = [(o.id, o.x, tuple((u.id, u.v) for u in o.us)) for o in objs]
                s.rollback()
        else:
            with env.e.connect() as c:
                tx = c.begin()
                try:
                    r = c.execute(stmt)
                    out["rows"] = [tuple(x) for x in r.fetchall()] if r.returns_rows else None
                    n = len(env.cap)
                    if dml:
                        out["snap"] = [tuple(x) for x in c.exec_driver_sql("select id, x, y, s from t order by id").fetchall()]
                        del env.cap[n:]
                finally:
                    tx.rollback()
        out["status"] = "ok"
    except Exception as ex:
        out["status"] = "err " + type(getattr(ex, "orig", None) or ex).__name__
        out["msg"] = str(ex).split("\n")[0][:200]
    sql = []
    for s_, p in env.cap:
        try:
            sql.append(env.lb.substitute("qmark", s_, p))
        except Exception:
            sql.append("%s %% %r" % (s_, p))
    out["sql"] = sql
    return out


def kinds_of(v):
    return tuple((k, "none" if x is None else type(x).__name__) for k, x in sorted(v.items()))


KEY_EVICT = "lambda-cache-eviction-of-earlier-link-stale-value"


def eviction_probe(ctx, env, record=True):
    """known finding, exercised deterministically: the lambda cache is a bounded LRU; when
    the entry of an EARLIER link of a chain is evicted while a later link's entry survives,
    the rebuilt earlier link gets new bind keys, the surviving later entry still holds the
    old ones, and the first invocation's value is served from then on (default options)."""
    t = env.fx.t
    cache = {}

    def mk(a):
        st = SA.lambda_stmt(lambda: SA.select(t.c.id), lambda_cache=cache)
        st = st.add_criteria(lambda q: q.where(t.c.x > a))
        st = st.add_criteria(lambda q: q.order_by(t.c.id))
        return st, SA.select(t.c.id).where(t.c.x > a).order_by(t.c.id)

    r0 = execute(env, mk(1083)[0], False, False)
    mid = [k for k in list(cache) if sum(1 for c in k if hasattr(c, "co_code")) == 2]
    for k in mid:
        del cache[k]  # what LRUCache pruning does to a less recently used entry
    lam, direct = mk(1581)
    rl, rd = execute(env, lam, False, False), execute(env, direct, False, False)
    if record:
        ctx.count("eviction-probe")
    # through a warm compiled cache the stale bind is re-bound positionally; the stale value is
    # sent whenever the statement is compiled afresh (compiled cache miss / disabled / .compile())
    lp = sorted(lam.compile(dialect=env.e.dialect).params.values())
    dp = sorted(direct.compile(dialect=env.e.dialect).params.values())
    if lp != dp:
        rl = dict(rl, sql=rl["sql"] + ["compile().params=%s" % lp])
        rd = dict(rd, sql=rd["sql"] + ["compile().params=%s" % dp])
    if (rl["status"], rl.get("rows"), rl["sql"]) != (rd["status"], rd.get("rows"), rd["sql"]):
        ctx.violation(KEY_EVICT, {"tmpl": "__eviction_probe__", "seq": []}, "after evicting the middle link's lambda-cache entry: lambda %s | direct %s" % (rl["sql"], rd["sql"]))
        return 1
    return 0


def check_history(ctx, env, name, seq, corr=None, record=True):
    from sqlalchemy.sql import lambdas as _lm

    # keep the process-wide LRU lambda cache far below its pruning threshold: a PARTIALLY
    # pruned cache is the state of known finding KEY_EVICT (covered by eviction_probe), it
    # must not leak into unrelated histories.  A full clear is consistent (everything rebuilt).
    if len(_lm._closure_per_cache_key) > 500:
        _lm._closure_per_cache_key.clear()
    fn, _ = TEMPLATES[name]
    nviol = 0
    case = {"tmpl": name, "seq": seq}
    hist_model = []
    stable = len({kinds_of(v) for v in seq}) == 1
    for pos, v in enumerate(seq):
        try:
            lam, direct = fn(env, v)
        except Exception as ex:
            # building the lambda itself raised (analysis happens at construction); an explicit
            # InvalidRequestError is the documented refusal of an uncacheable closure, not a stale value
            if type(ex).__name__ == "InvalidRequestError":
                if record:
                    ctx.count("lambda-rejected:" + name)
                return 0
            nviol += 1
            ctx.violation(classify(seq, pos, name), case, "step %d values %r: constructing the lambda statement raises %s: %s" % (pos, v, type(ex).__name__, str(ex)[:200]))
            return nviol
        dml = name == "update"
        orm = name == "orm_loader_criteria"
        rl = execute(env, lam, dml, orm)
        rd = execute(env, direct, dml, orm)
        key = lambda r: (r["status"], r.get("rows"), r.get("snap"), r["sql"])  # noqa
        if key(rl) != key(rd):
            nviol += 1
            ctx.violation(
                classify(seq, pos, name),
                case,
                "step %d values %r: lambda %s | direct %s" % (pos, v, str(key(rl))[:600], str(key(rd))[:600]),
            )
            return nviol
        if corr is not None and stable and hasattr(lam, "_rec") and not orm:
            el = lam
            chain = []
            while el is not None:
                chain.append(el)
                el = getattr(el, "parent_lambda", None)
            if len(chain) == 1:
                hist_model.append((chain, v))
            elif corr is not None and name.startswith("chain_"):
                corr.setdefault("chains", []).append(chain)
    if corr is not None and stable and hist_model:
        model_case(ctx, name, seq, hist_model, corr)
    if record:
        ctx.case(json.dumps(case, sort_keys=True, default=str), nontrivial=len(seq) > 1)
        ctx.count("template=" + name)
        ctx.count("history-len=%d" % len(seq))
        ctx.count("kinds=" + ("stable" if stable else "changing"))
    return nviol


KEY_INTIDX = "closure-sequence-integer-index-typeerror"
KEY_HELPER_STATE = "closure-helper-function-same-code-different-defaults"


def classify(seq, pos, name=None):
    if name in ("index", "list_direct_and_index"):
        return KEY_INTIDX
    if name == "helper_defaults":
        return KEY_HELPER_STATE
    if any(x is None for v in seq[: pos + 1] for x in v.values()):
        return KEY_KIND
    return "c17:lambda-differs-from-direct"


# --------------------------------------------------------------------------- model
def model_case(ctx, name, seq, hist, corr):
    """per invocation of the outermost-first chain element 0: (hit?, bound values) vs model.
    structural id of an invocation = its closure_cache_key (hashable tuple) numbered by
    first appearance; literals = values of _resolved_bindparams."""
    ids = {}
    steps, impl = [], []
    seen_recs = {}
    for chain, v in hist:
        el = chain[0]
        ck = el.closure_cache_key
        try:
            sid = ids.setdefault(ck, len(ids))
        except TypeError:
            return
        rec = el._rec
        hit = id(rec) in seen_recs
        seen_recs[id(rec)] = rec
        vals = []
        for b in el._resolved_bindparams:
            x = b.value
            if isinstance(x, (list, tuple)):
                x = hash(tuple(x)) % 100000
            elif isinstance(x, str):
                x = int(x[1:]) if x[1:].isdigit() else 7
            elif x is None:
                x = -1
            vals.append(int(x))
        steps.append("%d:%s" % (sid, ",".join(str(x) for x in vals) or "-"))
        impl.append("%s:%s" % ("hit" if hit else "miss", ",".join(str(x) for x in vals) or "-"))
    corr["cases"].append({"tmpl": name, "seq": seq})
    corr["impl"].append(";".join(impl))
    corr["req"].append("lambda history " + ";".join(steps))


DIRECTED_FORMS = ["plus", "iadd", "add_criteria"]
DIRECTED = {(o, f): _make_chain(o, f) for o in sorted(ROOT_OPTS) for f in DIRECTED_FORMS}


def directed_chain_matrix(ctx, env, record=True):
    """always-run matrix: every per-lambda option on the root x {+, +=, add_criteria} x a
    trailing link whose closure scalar / IN list / column changes between invocations.
    Uses its own code copies, so each link is analysed for the first time right here."""
    from harness import lib_binds as lb

    nviol = 0
    xs = lb.X_VALUES
    for (opt, form), fn in sorted(DIRECTED.items()):
        name = "directed_%s_%s" % (opt, form)
        TEMPLATES.setdefault(name, (fn, []))
        for link, seq in (
            ("wa", [{"a": xs[2]}, {"a": xs[7]}, {"a": xs[4] + 1}]),
            ("win", [{"vals": [xs[1], xs[3]]}, {"vals": [xs[8]]}, {"vals": [xs[0], xs[5], xs[9]]}]),
            ("wc", [{"col": "x", "a": xs[3]}, {"col": "y", "a": 2004}, {"col": "x", "a": xs[9]}]),
            ("ws", [{"s": lb.S_VALUES[2]}, {"s": lb.S_VALUES[9]}]),
        ):
            hist = []
            for d in seq:
                v = {"a": xs[5], "b": 2016, "s": lb.S_VALUES[4], "vals": [xs[2]], "col": "x", "root": "r1", "links": [link]}
                v.update(d)
                hist.append(v)
            nviol += check_history(ctx, env, name, hist, None, record=False)
            if record:
                ctx.case(json.dumps([name, hist], sort_keys=True), nontrivial=True)
                ctx.count("directed-chain-matrix")
    return nviol


def chain_corr(ctx, chains):
    """lambda-cache hit/miss of the LAST link of every chain built during the run vs the
    Lean model keyed by the FULL path of code objects (root first) + closure key"""
    codes, sids, seen = {}, {}, {}
    steps, impl = [], []
    for chain in chains:
        last = chain[0]
        path = [codes.setdefault(el.fn.__code__, len(codes) + 1) for el in reversed(chain)]
        from sqlalchemy.sql import cache_key as _ck

        if last.closure_cache_key is _ck.NO_CACHE or any(getattr(el, "closure_cache_key", None) is _ck.NO_CACHE for el in chain):
            continue  # not cached at all: a fresh NonAnalyzedFunction per construction
        try:
            sid = sids.setdefault(last.closure_cache_key, len(sids))
        except TypeError:
            continue
        rec = last._rec
        impl.append("hit" if id(rec) in seen else "miss")
        seen[id(rec)] = rec
        steps.append("%s:%d" % (".".join(str(x) for x in path), sid))
    if steps:
        out = ctx.driver(["lambda chains " + ";".join(steps)])[0].split(";")
        # the real lambda cache is a bounded LRU: an entry the model still has may have been
        # evicted (real miss, model hit).  The reverse — a real hit where no entry for this
        # path can exist — is what must never happen.
        impl = [i if m == "miss" else "hit" for i, m in zip(impl, out)]
        ctx.correspond("corr/c17:linked-lambda-cache-vs-Model.Lambda.runChains", [{"chain-steps": len(steps)}], [";".join(impl)], [";".join(out)])
        ctx.count("chain-model-steps", len(steps))


def run(ctx, deep=False):
    import warnings

    warnings.simplefilter("ignore")
    ctx.rule = (
        "45 lambda templates (lambda_stmt, chained add_criteria incl. conditionally added links, lambda criteria in where(), with_loader_criteria, ORM entities; closure scalars, strings, "
        "IN lists of varying length incl. empty, columns, tables, module globals, LIMIT, a literal used directly AND through attributes, integer indexes, helper functions held in the closure (different functions; one factory with different defaults), nested lambdas, a general chain builder: roots created with each non-default per-lambda option x `+` / add_criteria x any sub-sequence of optional links x identical trailing links, one code copy per (option, form)) x random histories (length 2..10) of closure values on one engine; "
        "90% of histories keep every variable's kind, 10% let a variable alternate between None and a value; a case = one history"
    )
    ctx.trusted += ["CPython closures/code objects and the bytecode rewriting of AnalyzedFunction (differential only)"]
    thorough = ctx.tier == "thorough" or deep
    env = Env()
    corr = {"cases": [], "impl": [], "req": []} if ctx.driver_ok() else None
    directed_chain_matrix(ctx, env)
    eviction_probe(ctx, env)
    names = sorted(k for k in TEMPLATES if not k.startswith("directed_"))
    n = 2500 if thorough else 420
    for i in range(n):
        name = names[i % len(names)] if i < 2 * len(names) else ctx.rng.choice(names)
        kinds = TEMPLATES[name][1]
        stable = ctx.rng.random() < 0.9 or "n" not in kinds
        seq = [gen_values(ctx.rng, kinds, stable) for _ in range(ctx.rng.randint(2, 10))]
        check_history(ctx, env, name, seq, corr)
        if i < 3:
            ctx.sample({"template": name, "history": seq})
    # the known shape, always exercised
    check_history(ctx, env, "none", [{"n": 2005}, {"n": None}, {"n": 2010}], None, record=False)
    check_history(ctx, env, "none", [{"n": None}, {"n": 2005}], None, record=False)
    if corr is not None and corr.get("chains"):
        chain_corr(ctx, corr["chains"])
    if corr is not None and corr["req"]:
        out = ctx.driver(corr["req"])
        ctx.correspond("corr/c17:lambda-cache-vs-Model.Lambda", corr["cases"], corr["impl"], out)
        ctx.count("model-lines", len(out))
    ctx.exhaustive = False


def search(ctx, broken):
    from harness import vlib

    env = Env()
    for d in ctx.disagreements:
        c = d.get("case") or {}
        if "tmpl" in c:
            check_history(ctx, env, c["tmpl"], c["seq"], None, record=False)
    if ctx.violations:
        return
    sub = vlib.Ctx(ctx.pid, "thorough", ctx.seed + 1, ctx.level)
    names = sorted(k for k in TEMPLATES if not k.startswith("directed_"))
    for i in range(1500):
        name = sub.rng.choice(names)
        seq = [gen_values(sub.rng, TEMPLATES[name][1], True) for _ in range(sub.rng.randint(2, 10))]
        if check_history(sub, env, name, seq, None, record=False):
            break
    ctx.violations.extend(sub.violations)


def replay(ctx, obj):
    import warnings

    warnings.simplefilter("ignore")
    c = obj["case"]
    if c.get("tmpl") == "__eviction_probe__":
        bad = eviction_probe(ctx, Env(), record=False) > 0
        for v in ctx.violations:
            print("replay C17: %s — %s" % (v["key"], v["detail"][:400]))
        return bad
    for (o_, f_), fn_ in DIRECTED.items():
        TEMPLATES.setdefault("directed_%s_%s" % (o_, f_), (fn_, []))
    bad = check_history(ctx, Env(), c["tmpl"], c["seq"], None, record=False) > 0
    for v in ctx.violations:
        print("replay C17: %s — %s" % (v["key"], v["detail"][:600]))
    if not bad:
        print("replay C17: no violation")
    return bad
