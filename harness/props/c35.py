"""C35 — object lifecycle states and events follow the documented state machine.

Translator : InstanceState.transient/pending/persistent/deleted/detached/was_deleted/
             has_identity/_attached (orm/state.py) -> lean/SaVerif/Gen/Lifecycle.lean
Model      : lean/SaVerif/Model/Sess.lean (session.py / state.py / identity.py / one-mapper flush)
Theorems   : lean/SaVerif/Props/C35.lean
Correspondence: random + exhaustive-small-scope operation histories executed on the real
             Session (SQLite) and on the model; after every operation the five inspect()
             flags (printed by the model through the *generated* formulas), was_deleted,
             identity keys, session.new/deleted, identity map and the lifecycle events are
             compared.
Direct oracle: harness/lib_uow_oracle.py (documented state machine, independent of the model).
"""
import ast
import json
import os

PID = "C35"
LEVEL = "proof"
LEAN = ["SaVerif.Props.C35"]
META = {
    "text": "Lean: (1) the five InstanceState flag formulas, regenerated from orm/state.py on every run, are mutually exclusive and exhaustive for every valuation (exactly_one_state; has_identity/was_deleted/_attached characterised); (2) for EVERY state of the transcribed session machine (Model/Sess.lean) the primitives that move an instance — _after_attach, _detach_states, _remove_newly_deleted — called on an instance in their documented source state perform exactly the documented transition and log exactly its event (afterAttach_spec, detachOne_spec, removeNewlyDeletedOne_spec); (3) for ALL operation histories every member of session.new is a pending instance (new_members_are_pending / new_members_flag_pending: induction over the history, ~110 preservation lemmas in Lemmas/SessNP.lean, failed flushes included); (4) the history-level statement 'the logged events replay to the actual state of every instance' is FALSE for the code as it is: eleven *_counterexample theorems (decide on the model), each replayed on the real Session as a known finding. The model (add/delete/flush incl. failures/commit/rollback/savepoints/expunge/close/merge/get/query/refresh/make_transient*/pk change) is tied to the code by a differential run after every operation of generated histories; the documented state machine itself is re-checked on the real Session by an independent oracle.",
    "note": "No history-level positive theorem about *events* is proved (the per-primitive ones hold for all states; history-level invariants proved: session.new ⊆ pending here, identity-map key uniqueness in C34): the history-level claim about events rests on the correspondence + oracle. 16 known findings (known_findings.d/C35.json) are genuine deviations of the pinned source from the documented lifecycle; an oracle failure is suppressed only when its key is listed AND the transcribed model reproduces the real behaviour of the whole case step for step. Modelled-not-verified: SQLite (a set of primary keys with snapshot/rollback), Python dict/set order (set-order dependent outcomes make the model abstain), weak references/GC (the harness holds every instance). One mapper, one integer primary key column, one Session.",
    "technique": "decide over a regenerated flag table + Lean 4 theorems about the transcribed transition primitives (all states) + counterexample theorems + per-operation differential correspondence with the real Session on SQLite + independent state-machine oracle",
    "design_ref": "DESIGN.md §3 C30–C33, C35 (M-ORM)",
}

PROPS = ["transient", "pending", "persistent", "deleted", "detached", "was_deleted", "has_identity"]


# ---------------------------------------------------------------------------- translator
class Untranslatable(Exception):
    pass


def _tr(node, atoms):
    """Python boolean expression over `self.*` -> Lean Bool expression"""
    if isinstance(node, ast.BoolOp):
        op = " && " if isinstance(node.op, ast.And) else " || "
        return "(" + op.join(_tr(v, atoms) for v in node.values) + ")"
    if isinstance(node, ast.UnaryOp) and isinstance(node.op, ast.Not):
        return "(!" + _tr(node.operand, atoms) + ")"
    if isinstance(node, ast.Call) and isinstance(node.func, ast.Name) and node.func.id == "bool" and len(node.args) == 1:
        src = ast.unparse(node.args[0])
        if src + " is not None" in atoms:  # bool(self.key): key tuples are never falsy
            return atoms[src + " is not None"]
        raise Untranslatable(ast.unparse(node))
    src = ast.unparse(node)
    if src in atoms:
        return atoms[src]
    if isinstance(node, ast.Compare) and len(node.ops) == 1 and isinstance(node.ops[0], ast.Is):
        pos = ast.unparse(ast.Compare(node.left, [ast.IsNot()], node.comparators))
        if pos in atoms:
            return "(!" + atoms[pos] + ")"
    raise Untranslatable(src)


def _return_expr(cls, name):
    for n in cls.body:
        if isinstance(n, ast.FunctionDef) and n.name == name:
            rets = [s for s in ast.walk(n) if isinstance(s, ast.Return)]
            if len(rets) != 1 or rets[0].value is None:
                raise Untranslatable("%s: expected exactly one return" % name)
            return rets[0].value
    raise Untranslatable("%s: not found" % name)


def gen(ctx):
    from harness import vlib

    fn = os.path.join(vlib.REPO, "lib", "sqlalchemy", "orm", "state.py")
    tree = ast.parse(open(fn).read())
    cls = [n for n in tree.body if isinstance(n, ast.ClassDef) and n.name == "InstanceState"][0]
    atoms = {"self.key is not None": "k", "self._attached": "a", "self._deleted": "d"}
    atoms_att = {
        "self.session_id is not None": "s",
        "self.session_id in util.preloaded.orm_session._sessions": "l",
    }
    lines = [
        "/-! InstanceState lifecycle flag formulas (lib/sqlalchemy/orm/state.py), as Boolean",
        "functions of  k = `self.key is not None`, a = `self._attached`, d = `self._deleted`;",
        "and `_attached` as a function of  s = `self.session_id is not None`,",
        "l = `self.session_id in _sessions`. -/",
        "namespace SaVerif.Gen.Lifecycle",
        "set_option linter.unusedVariables false",
        "",
    ]
    table = {}
    bad = []
    for p in PROPS:
        try:
            e = _tr(_return_expr(cls, p), atoms)
        except Untranslatable as u:
            bad.append("%s: %s" % (p, u))
            e = "false"
        table[p] = e
        lines.append("def %s (k a d : Bool) : Bool := %s" % (p, e))
    try:
        e = _tr(_return_expr(cls, "_attached"), atoms_att)
    except Untranslatable as u:
        bad.append("_attached: %s" % u)
        e = "false"
    table["_attached"] = e
    lines.append("def attached (s l : Bool) : Bool := %s" % e)
    lines += ["", "end SaVerif.Gen.Lifecycle", ""]
    ctx.write_gen("Lifecycle", "\n".join(lines))
    ctx.obligation("translator:orm/state.py lifecycle properties are Boolean formulas over key/_attached/_deleted", not bad, "; ".join(bad))
    ctx.gen_table = table


def spot_check_table(ctx):
    """translator spot check: the generated formulas against live InstanceState objects
    whose three inputs are forced to each of the 8 valuations"""
    import sqlalchemy as sa
    from sqlalchemy.orm import session as orm_session
    from harness import lib_uow as L

    _, Item = L.mapping()
    tbl = getattr(ctx, "gen_table", None)
    if not tbl:
        return
    for k in (False, True):
        for a in (False, True):
            for d in (False, True):
                st = sa.inspect(Item(id=1))
                if k:
                    st.key = (Item, (1,), None)
                if d:
                    st._deleted = True
                sess = None
                if a:
                    sess = orm_session.Session()
                    st.session_id = sess.hash_key
                env = {"k": k, "a": a, "d": d}
                for p in PROPS:
                    expr = tbl[p].replace("&&", " and ").replace("||", " or ").replace("!", " not ").replace("false", "False")
                    want = bool(eval(expr, {}, env))
                    got = bool(getattr(st, p))
                    ctx.case(("table", p, k, a, d))
                    if want != got:
                        ctx.obligation("translator-spot-check:%s(k=%s,a=%s,d=%s)" % (p, k, a, d), False, "formula %s gives %s, live object %s" % (tbl[p], want, got))
                if sess is not None:
                    st.session_id = None
                    sess.close()


# ---------------------------------------------------------------------------- cases
def jobs_for(ctx, deep=False):
    from harness import lib_uow_gen as G

    thorough = ctx.tier == "thorough" or deep
    jobs = []
    # exhaustive small scope
    maxlen = 4 if thorough else 3
    fixed = []
    for pkb in (1, 2):
        for ops in G.small_scope(maxlen, pkb):
            if len(ops) - 2 == maxlen and not deep and ctx.rng.random() > (0.12 if thorough else 0.4):
                continue  # the longest length is a seeded sample: 1/4 of length 3 (quick), 1/8 of length 4 (thorough)
            fixed.append((True, ops))
    # the same histories with expire_on_commit=False where a commit occurs
    fixed += [(False, ops) for eoc, ops in fixed if ("commit",) in ops and len(ops) <= 5]
    step = 600
    for i in range(0, len(fixed), step):
        jobs.append(("fixed", fixed[i : i + step]))
    nchunks = 48 if thorough else 14
    per = 900 if thorough else 320
    profiles = ["uniform", "plain", "nested", "detach"]
    for c in range(nchunks):
        prof = profiles[c % len(profiles)]
        lo, hi = (6, 26) if thorough else (5, 16)
        jobs.append(("random", "C35:%d:%d:%s" % (ctx.seed, c, "deep" if deep else ctx.tier), per, prof, lo, hi, 0.75))
    return jobs


KNOWN_CORPUS = os.path.join(os.path.dirname(os.path.dirname(os.path.dirname(os.path.abspath(__file__)))), "known_findings.d", "C35.json")


def corpus_cases():
    """replays of the known findings run first (regression corpus)"""
    out = []
    if os.path.exists(KNOWN_CORPUS):
        for e in json.load(open(KNOWN_CORPUS))["findings"]:
            c = e.get("replay") or {}
            if "ops" in c:
                out.append((bool(c.get("eoc", True)), [tuple(o) for o in c["ops"]]))
    return out


def evaluate(ctx, cases, label):
    from harness import lib_uow_check as K

    K.evaluate(ctx, cases, label, "c35")




def run(ctx, deep=False):
    from harness import lib_uow_gen as G

    ctx.rule = (
        "operation histories over one Session / one mapped class (pk domain {1,2,3}): all histories of length <=2 plus a seeded "
        "quarter of length 3 (quick) or all of length <=3 plus a seeded eighth of length 4 (thorough) over an 18-operation alphabet on two instances, with and "
        "without expire_on_commit; plus seeded random histories (4 traffic profiles, 5-16 ops quick / 6-26 thorough) whose "
        "operations are chosen while executing the real code; non-trivial = at least one lifecycle event fired"
    )
    ctx.trusted.append("SQLite via sqlite3 (autocommit=False, one connection); the model's database is a set of primary keys with snapshot/rollback")
    ctx.trusted.append("Python dict/set iteration order: outcomes that depend on set order make the model abstain from the rest of the case")
    ctx.assumptions.append("one Session, one mapper with one integer primary-key column; GC never collects an instance (the harness holds all)")
    spot_check_table(ctx)
    cases = [G.compact(G.run_fixed(eoc, ops)) for eoc, ops in corpus_cases()]
    if cases:
        evaluate(ctx, cases, "corpus")
    procs = int(os.environ.get("VERIF_PROCS", "6"))
    cases = G.run_jobs(jobs_for(ctx, deep), procs)
    evaluate(ctx, cases, "generated")
    ctx.exhaustive = False


def search(ctx, broken):
    """an obligation broke and the normal run found no failing input: probe the
    disagreeing histories (late prefixes + closing operations), then a larger budget"""
    from harness import lib_uow_check as K
    from harness import lib_uow_gen as G

    fixed = K.probe_cases(ctx)
    sub = type(ctx)(ctx.pid, "thorough", ctx.seed + 1, ctx.level)
    sub.broken = list(ctx.broken)
    if fixed:
        evaluate(sub, [G.compact(G.run_fixed(e, o)) for e, o in fixed], "search-probes")
    if not [v for v in sub.violations if "@" in v["key"]]:
        cases = G.run_jobs(jobs_for(sub, deep=True), int(os.environ.get("VERIF_PROCS", "6")))
        evaluate(sub, cases, "search-deep")
    K.disagreement_violations(ctx, sub, "c35")
    ctx.violations.extend(sub.violations)


def replay(ctx, obj):
    from harness import lib_uow_check as K
    from harness import lib_uow_oracle as O

    return K.replay(ctx, obj, "c35", O.check_case)
