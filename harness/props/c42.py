"""C42 — polymorphic queries return each row as its most specific class.

Model:    lean/SaVerif/Model/Poly.lean (transcription of loading._decorate_polymorphic_switch /
          _instance_processor class decision, the single-table criterion, the joined chain,
          the concrete polymorphic_union, what with_polymorphic puts into the first SELECT,
          deferred subclass columns, polymorphic_load="selectin")
Theorems: lean/SaVerif/Props/C42.lean

What runs on the real code: generated class trees (2-7 classes, up to 4 levels) mapped
imperatively as single-table, joined-table and concrete inheritance on SQLite, rows
inserted with raw SQL (NULL attribute values included), every class queried with
with_polymorphic none / '*' / a random subset, hierarchies with and without
polymorphic_load="selectin"; corrupted discriminators (unknown identity, NULL, identity of
another branch / of the parent) for the documented errors.

Direct oracle: result == the generated objects whose class descends from the queried class,
in id order, each as its own class with its own attribute values after access.
Correspondence: entities, error kind, number of statements emitted by the load, number of
deferred loads on attribute access, against the model.
"""
PID = "C42"
LEVEL = "proof"
LEAN = ["SaVerif.Props.C42"]
META = {
    "text": "Lean theorems for every class tree (given by ancestor chains), every data set and every queried class: over consistently stored data the single-table, joined-table and concrete plans return exactly the objects whose class descends from the queried class, each as the class its discriminator names with that class's attribute values (polymorphic_most_specific_*, subclass_filter_*), independently of with_polymorphic; unknown / NULL discriminators and identities outside the queried subtree give the documented errors (decide_*). The model is tied to the ORM by generated hierarchies of the three kinds on SQLite: classes, values after access, error kinds and statement counts are compared, and the property itself is checked against the generated data.",
    "note": "Known findings (unchanged tree): re-executing the identical, cached select(M) after a subclass of M was mapped later returns the stale row set (single table) or raises AttributeError (joined); the generated late-mapping histories therefore run their second round uncached. Statement counts after attribute access are modelled only for hierarchies without polymorphic_load='selectin'; with selectin the model predicts classes, values and the number of statements of the load itself. Modelled-not-verified: of_type(), selectin_polymorphic() option, with_polymorphic against an aliased subquery, composite keys, relationships, equal primary keys in two concrete tables, selectin chunking (500).",
    "technique": "Lean 4 proofs over list-level relational plans + differential execution of generated inheritance hierarchies on SQLite",
    "design_ref": "DESIGN.md §3 C40-C42",
}

KINDS = ("single", "joined", "concrete")


def ancs_of(parent):
    out = []
    for c, p in enumerate(parent):
        out.append(([] if p is None else out[p]) + [c])
    return out


PKCOLS = ["id", "id2", "id3"]


def pk_of(mid, npk):
    """model id -> primary key tuple (composite keys are digits of the model id)"""
    if npk == 1:
        return (mid,)
    if npk == 2:
        return (mid // 10, mid % 10)
    return (mid // 100, (mid // 10) % 10, mid % 10)


def mid_of(pk):
    n = 0
    for p in pk:
        n = n * 10 + p if len(pk) > 1 else p
    return n


class Mapping:
    """the class tree mapped imperatively; classes [0, upto) are mapped at construction, the
    rest by extend() (late subclasses of already configured - possibly already queried - mappers)"""

    def __init__(self, kind, parent, selectin=(), npk=1, upto=None):
        from sqlalchemy import Column, ForeignKeyConstraint, Integer, String, Table
        from sqlalchemy.orm import registry

        self.kind, self.parent, self.selectin, self.npk = kind, parent, selectin, npk
        n = len(parent)
        self.anc = ancs_of(parent)
        self.sub = [[d for d in range(n) if c in self.anc[d]] for c in range(n)]
        self.reg = registry()
        md = self.reg.metadata
        pkc = PKCOLS[:npk]
        self.classes = []
        for c in range(n):
            base = (object,) if parent[c] is None else (self.classes[parent[c]],)
            self.classes.append(type("K%d" % c, base, {}))
        self.mappers = [None] * n
        self.tables = {}
        if kind == "single":
            self.tables["t"] = Table("t", md, *[Column(k, Integer, primary_key=True, autoincrement=False) for k in pkc], Column("type", String), *[Column("a%d" % c, Integer) for c in range(n)])
        elif kind == "joined":
            for c in range(n):
                if parent[c] is None:
                    self.tables[c] = Table("t%d" % c, md, *[Column(k, Integer, primary_key=True, autoincrement=False) for k in pkc], Column("type", String), Column("a%d" % c, Integer))
                else:
                    self.tables[c] = Table(
                        "t%d" % c, md, *[Column(k, Integer, primary_key=True, autoincrement=False) for k in pkc], Column("a%d" % c, Integer),
                        ForeignKeyConstraint(pkc, ["t%d.%s" % (parent[c], k) for k in pkc]),
                    )
        else:
            for c in range(n):
                self.tables[c] = Table("t%d" % c, md, *[Column(k, Integer, primary_key=True, autoincrement=False) for k in pkc], *[Column("a%d" % x, Integer) for x in self.anc[c]])
        self.mapped = 0
        self.extend(n if upto is None else upto)

    def extend(self, hi):
        from sqlalchemy.orm import polymorphic_union

        kind, parent, reg, anc, sub = self.kind, self.parent, self.reg, self.anc, self.sub
        pkc = PKCOLS[: self.npk]
        for c in range(self.mapped, hi):
            kw = dict(polymorphic_identity="c%d" % c)
            if c in self.selectin and kind != "concrete":
                kw["polymorphic_load"] = "selectin"
            if kind == "single":
                t = self.tables["t"]
                kw["include_properties"] = pkc + ["type"] + ["a%d" % x for x in anc[c]]
                if parent[c] is None:
                    self.mappers[c] = reg.map_imperatively(self.classes[c], t, polymorphic_on=t.c.type, **kw)
                else:
                    self.mappers[c] = reg.map_imperatively(self.classes[c], None, inherits=self.mappers[parent[c]], **kw)
            elif kind == "joined":
                if parent[c] is None:
                    self.mappers[c] = reg.map_imperatively(self.classes[c], self.tables[c], polymorphic_on=self.tables[c].c.type, **kw)
                else:
                    self.mappers[c] = reg.map_imperatively(self.classes[c], self.tables[c], inherits=self.mappers[parent[c]], **kw)
            else:
                if len(sub[c]) > 1:
                    pj = polymorphic_union({"c%d" % d: self.tables[d] for d in sub[c]}, "type", "pjoin%d" % c)
                    kw.update(with_polymorphic=("*", pj), polymorphic_on=pj.c.type)
                if parent[c] is None:
                    self.mappers[c] = reg.map_imperatively(self.classes[c], self.tables[c], **kw)
                else:
                    self.mappers[c] = reg.map_imperatively(self.classes[c], self.tables[c], inherits=self.mappers[parent[c]], concrete=True, **kw)
        self.mapped = hi


def disc_str(d):
    return None if d is None else ("c%d" % d if d >= 0 else "zzz")


def store(kind, parent, objs, corrupt, eng, npk=1):
    """raw INSERTs; `corrupt` = {id: discriminator override (None = NULL, -1 = unknown, k = class k)}"""
    anc = ancs_of(parent)
    pkc = PKCOLS[:npk]
    q = lambda k: ",".join("?" * k)  # noqa: E731
    with eng.begin() as conn:
        for o in objs:
            oid, c, vals = o["id"], o["cls"], o["vals"]
            pk = list(pk_of(oid, npk))
            d = corrupt.get(oid, c) if oid in corrupt else c
            if kind == "single":
                cols = pkc + ["type"] + ["a%d" % a for a in anc[c]]
                conn.exec_driver_sql("INSERT INTO t (%s) VALUES (%s)" % (",".join(cols), q(len(cols))), tuple(pk + [disc_str(d)] + [vals[a] for a in anc[c]]))
            elif kind == "joined":
                root = anc[c][0]
                cols = pkc + ["type", "a%d" % root]
                conn.exec_driver_sql("INSERT INTO t%d (%s) VALUES (%s)" % (root, ",".join(cols), q(len(cols))), tuple(pk + [disc_str(d), vals[root]]))
                for a in anc[c][1:]:
                    cols = pkc + ["a%d" % a]
                    conn.exec_driver_sql("INSERT INTO t%d (%s) VALUES (%s)" % (a, ",".join(cols), q(len(cols))), tuple(pk + [vals[a]]))
            else:
                cols = pkc + ["a%d" % a for a in anc[c]]
                conn.exec_driver_sql("INSERT INTO t%d (%s) VALUES (%s)" % (c, ",".join(cols), q(len(cols))), tuple(pk + [vals[a] for a in anc[c]]))


def canon_error(e):
    s = str(e)
    if isinstance(e, AssertionError) and "No such polymorphic_identity" in s:
        return "unknown-identity"
    if "is NULL" in s and "discriminator" in s:
        return "null-discriminator"
    if "not a sub-mapper" in s:
        return "not-sub-mapper"
    if "Deferred loader" in s:
        return "missing-row"
    return "raise:" + type(e).__name__


def fmt_vals(vs):
    return ".".join("N" if v is None else str(v) for v in vs) if vs else "-"


def fmt_ents(ents):
    return ";".join("%d:%d:%s" % (i, c, fmt_vals(vs)) for i, c, vs in ents) if ents else "-"


def run_query(eng, classes, parent, C, wp, counter, npk=1, nocache=False, shape=0):
    """execute select(C) under a with_polymorphic setting; returns canonical outcome"""
    from sqlalchemy import select
    from sqlalchemy.orm import Session, with_polymorphic

    anc = ancs_of(parent)
    pkc = PKCOLS[:npk]
    with Session(eng) as s:
        counter[0] = 0
        if wp is None:
            ent = classes[C]
        elif wp == "*":
            ent = with_polymorphic(classes[C], "*")
        else:
            ent = with_polymorphic(classes[C], [classes[x] for x in wp])
        try:
            stmt = select(ent).order_by(*[getattr(ent, k) for k in pkc])
            if shape:
                stmt = stmt.where(ent.id >= 0)  # a differently shaped statement: not served from the compiled cache
            opts = {"compiled_cache": None} if nocache else {}
            res = s.execute(stmt, execution_options=opts).scalars().all()
            c1 = counter[0]
            out = []
            for o in res:
                c = int(type(o).__name__[1:])
                out.append((mid_of(tuple(getattr(o, k) for k in pkc)), c, tuple(getattr(o, "a%d" % a) for a in anc[c])))
            return ("ok", out, c1, counter[0] - c1)
        except Exception as e:
            return ("err", canon_error(e), None, None)


def requests(kind, parent, selectin, objs, corrupt, C, wp):
    anc = ancs_of(parent)
    n = len(parent)
    ancs = "|".join(".".join(str(x) for x in a) for a in anc)
    sel = ".".join("1" if c in selectin else "0" for c in range(n))
    wps = "N" if wp is None else ("*" if wp == "*" else ".".join(str(x) for x in wp))

    def dv(o):
        d = corrupt.get(o["id"], o["cls"]) if o["id"] in corrupt else o["cls"]
        return "N" if d is None else str(d if d >= 0 else 99)

    def v(x):
        return "N" if x is None else str(x)

    so = sorted(objs, key=lambda o: o["id"])
    if kind == "single":
        rows = ";".join("%d:%s:%s" % (o["id"], dv(o), ".".join(v(o["vals"][a]) if a in anc[o["cls"]] else "N" for a in range(n))) for o in so) or "-"
        return "poly single %s %s %d %s %s" % (ancs, sel, C, wps, rows)
    if kind == "joined":
        base = ";".join("%d:%s:%s" % (o["id"], dv(o), v(o["vals"][0])) for o in so) or "-"
        subs = "|".join(",".join("%d:%s" % (o["id"], v(o["vals"][c])) for o in so if c in anc[o["cls"]] and c != 0) or "-" for c in range(n))
        return "poly joined %s %s 0 %d %s %s %s" % (ancs, sel, C, wps, base, subs)
    tabs = "|".join(",".join("%d:%s" % (o["id"], fmt_vals([o["vals"][a] for a in anc[c]])) for o in so if o["cls"] == c) or "-" for c in range(n))
    return "poly concrete %s %d %s" % (ancs, C, tabs)


def gen_scenario(rng):
    n = rng.choice([2, 3, 3, 4, 4, 5, 6, 7])
    parent = [None]
    depth = [0]
    for c in range(1, n):
        cands = [p for p in range(c) if depth[p] < 3]
        p = rng.choice(cands)
        parent.append(p)
        depth.append(depth[p] + 1)
    kind = rng.choice(KINDS)
    selectin = ()
    if kind != "concrete" and rng.random() < 0.4:
        selectin = tuple(sorted(rng.sample(range(1, n), rng.randint(1, min(2, n - 1)))))
    npk = rng.choice([1, 1, 2, 3])
    if npk == 1:
        ids = rng.sample(range(1, 30), rng.randint(0, 9))
    elif npk == 2:  # digits of the model id; the first key column repeats across rows
        ids = rng.sample([a * 10 + b for a in range(1, 4) for b in range(0, 4)], rng.randint(0, 9))
    else:
        ids = rng.sample([a * 100 + b * 10 + c for a in range(1, 3) for b in range(0, 3) for c in range(0, 3)], rng.randint(0, 9))
    objs = []
    for i in ids:
        c = rng.randrange(n)
        objs.append({"id": i, "cls": c, "vals": [rng.choice([None, 0, 1, 5, -3, 7, 12]) if rng.random() < 0.9 else None for _ in range(n)]})
    corrupt = {}
    if kind != "concrete" and objs and rng.random() < 0.3:
        o = rng.choice(objs)
        anc = ancs_of(parent)
        m = rng.random()
        if m < 0.35:
            corrupt[o["id"]] = -1
        elif m < 0.6:
            corrupt[o["id"]] = None
        elif kind == "joined":
            if parent[o["cls"]] is not None:
                corrupt[o["id"]] = parent[o["cls"]]  # identity of the parent class: tables of its chain all hold the row
        else:
            corrupt[o["id"]] = rng.randrange(n)  # single table: any mapped identity
    late = None
    if kind != "concrete" and n >= 3 and rng.random() < 0.35:
        late = rng.randint(2, n - 1)  # classes [late, n) are mapped, and their rows stored, after the first round of queries
        corrupt = {}
    return {"kind": kind, "parent": parent, "selectin": list(selectin), "objs": objs, "corrupt": {str(k): v for k, v in corrupt.items()}, "npk": npk, "late": late}


def expected(parent, objs, C):
    anc = ancs_of(parent)
    return [(o["id"], o["cls"], tuple(o["vals"][a] for a in anc[o["cls"]])) for o in sorted(objs, key=lambda o: o["id"]) if C in anc[o["cls"]]]


def expected_corrupt(kind, parent, objs, corrupt, C):
    """documented outcome when one discriminator was overwritten: ('err', kind) or ('ok', entities)"""
    anc = ancs_of(parent)
    out = []
    for o in sorted(objs, key=lambda o: o["id"]):
        c = o["cls"]
        if o["id"] not in corrupt:
            if C in anc[c]:
                out.append((o["id"], c, tuple(o["vals"][a] for a in anc[c])))
            continue
        d = corrupt[o["id"]]
        if kind == "single":
            if len(anc[C]) > 1:  # WHERE type IN (identities of the subtree)
                if d is None or d < 0 or C not in anc[d]:
                    continue
            if d is None:
                return ("err", "null-discriminator")
            if d < 0:
                return ("err", "unknown-identity")
            out.append((o["id"], d, tuple(o["vals"][a] if a in anc[c] else None for a in anc[d])))
        else:  # joined: the row joins iff the tables of C's chain hold its key
            if C not in anc[c]:
                continue
            if d is None:
                return ("err", "null-discriminator")
            if d < 0:
                return ("err", "unknown-identity")
            if C not in anc[d]:
                return ("err", "not-sub-mapper")
            out.append((o["id"], d, tuple(o["vals"][a] for a in anc[d])))
    return ("ok", out)


def wp_settings(rng, kind, parent, C):
    anc = ancs_of(parent)
    n = len(parent)
    out = [None, "*"] if kind != "concrete" else [None]
    below = [d for d in range(n) if C in anc[d] and d != C]
    if kind != "concrete" and below:
        out.append(sorted(rng.sample(below, rng.randint(1, len(below)))))
    return out


def judge(sc, kind, parent, selectin, objs, corrupt, C, wp, res, phase):
    """(canonical line, oracle problem) for one query outcome"""
    if res[0] == "ok":
        line = "ok %s / %d / %s" % (fmt_ents(res[1]), res[2], "-" if selectin else str(res[3]))
    else:
        line = "err " + res[1]
    why = None
    tag = "" if phase is None else " [%s]" % phase
    if not corrupt:
        exp = expected(parent, objs, C)
        if res[0] != "ok":
            why = "select(K%d) with_polymorphic=%s on a %s hierarchy (parents %s, selectin %s, %d-column key)%s raised %s" % (C, wp, kind, parent, list(selectin), sc.get("npk", 1), tag, res[1])
        elif res[1] != exp:
            why = "select(K%d) with_polymorphic=%s on a %s hierarchy (parents %s, selectin %s)%s returned %s, the stored objects of that subtree are %s" % (C, wp, kind, parent, list(selectin), tag, res[1], exp)
    else:
        exp = expected_corrupt(kind, parent, objs, corrupt, C)
        got = ("err", res[1]) if res[0] == "err" else ("ok", res[1])
        if got != exp:
            why = "select(K%d) with_polymorphic=%s on a %s hierarchy with discriminator of row %s overwritten by %s: got %s, documented outcome %s" % (C, wp, kind, list(corrupt)[0], list(corrupt.values())[0], got, exp)
    return line, why


def run_scenario(ctx_rng, sc):
    """returns list of (case, impl_line, request, oracle_problem_or_None)"""
    from sqlalchemy import create_engine, event

    kind, parent, selectin, objs = sc["kind"], sc["parent"], tuple(sc["selectin"]), sc["objs"]
    npk, late = sc.get("npk", 1), sc.get("late")
    corrupt = {int(k): v for k, v in sc["corrupt"].items()}
    n = len(parent)
    m = Mapping(kind, parent, selectin, npk, upto=late)
    eng = create_engine("sqlite://")
    counter = [0]

    @event.listens_for(eng, "before_cursor_execute")
    def _count(conn, cur, stmt, params, c, many):
        counter[0] += 1

    out = []
    only = sc.get("queries")
    try:
        m.reg.metadata.create_all(eng)
        if late is not None:
            # round 1: only classes [0, late) exist; every one of them is queried
            early = [o for o in objs if o["cls"] < late]
            store(kind, parent[:late], early, {}, eng, npk)
            sel1 = tuple(c for c in selectin if c < late)
            for C in range(late):
                res = run_query(eng, m.classes, parent[:late], C, None, counter, npk)
                line, why = judge(sc, kind, parent[:late], sel1, early, {}, C, None, res, "before the late subclasses")
                case = dict(sc, C=C, wp=None, phase=1)
                if only is None:
                    out.append((case, line, requests(kind, parent[:late], sel1, early, {}, C, None), why))
            m.extend(n)
            store(kind, parent, [o for o in objs if o["cls"] >= late], {}, eng, npk)
        else:
            store(kind, parent, objs, corrupt, eng, npk)
        for C in range(n):
            for wp in (only.get(str(C)) if only is not None else None) or ([] if only is not None else wp_settings(ctx_rng, kind, parent, C)):
                res = run_query(eng, m.classes, parent, C, wp, counter, npk, nocache=late is not None, shape=1 if late is not None else 0)
                line, why = judge(sc, kind, parent, selectin, objs, corrupt, C, wp, res, "after mapping classes %s late" % list(range(late, n)) if late is not None else None)
                case = dict(sc, C=C, wp=wp, phase=2)
                out.append((case, line, requests(kind, parent, selectin, objs, corrupt, C, wp), why))
    finally:
        eng.dispose()
        m.reg.dispose()
    return out


def stale_cache_probe(kind="single"):
    """the IDENTICAL statement executed before and after a late subclass is mapped: the
    single-table criterion is baked into the cached compiled statement"""
    from sqlalchemy import create_engine, select
    from sqlalchemy.orm import Session

    parent = [None, 0, 1]
    m = Mapping(kind, parent, (), 1, upto=2)
    eng = create_engine("sqlite://")
    try:
        m.reg.metadata.create_all(eng)
        objs = [{"id": 1, "cls": 1, "vals": [1, 2, 3]}, {"id": 2, "cls": 2, "vals": [4, 5, 6]}]
        store(kind, parent[:2], objs[:1], {}, eng)

        def q():
            with Session(eng) as s:
                K1 = m.classes[1]
                return [(o.id, int(type(o).__name__[1:])) for o in s.execute(select(K1).order_by(K1.id)).scalars()]

        first = q()
        m.extend(3)
        store(kind, parent, objs[1:], {}, eng)
        try:
            second = q()
        except Exception as e:
            return "select(K1) re-executed from the compiled cache after K2(K1) was mapped and a K2 row stored raised %s: %s" % (type(e).__name__, str(e)[:80])
        if second != [(1, 1), (2, 2)]:
            return "select(K1) re-executed from the compiled cache after K2(K1) was mapped and a K2 row stored returned %s (first run %s); expected [(1, 1), (2, 2)]" % (second, first)
        return None
    finally:
        eng.dispose()
        m.reg.dispose()


def run(ctx, deep=False):
    thorough = ctx.tier == "thorough" or deep
    ctx.rule = (
        "random class trees of 2-7 classes and up to 4 levels, mapped as single-table / joined-table / concrete inheritance; "
        "0-9 rows with NULL-able attribute values of random classes; 40% of the non-concrete hierarchies carry "
        "polymorphic_load='selectin' on 1-2 subclasses; 30% have one corrupted discriminator (unknown, NULL, identity of the "
        "parent class for joined, any identity for single table); every class is queried with with_polymorphic none, '*' and a "
        "random subset of its descendants; primary keys of 1-3 columns (first column repeating); 35% of the non-concrete trees map "
        "their last classes only after a first round of queries against every earlier class (second round uncached); a case is non-trivial when the queried class has descendants with rows"
    )
    ctx.trusted.append("statement counts after attribute access are compared only for hierarchies without polymorphic_load='selectin'")
    import warnings

    warnings.simplefilter("ignore")
    for k, key in (("single", "single-late-subclass-stale-compiled-cache"), ("joined", "joined-late-subclass-cached-statement-fails")):
        why = stale_cache_probe(k)
        if why:
            ctx.violation(key, {"probe": k}, why)
    nsc = 1200 if thorough else 160
    cases, impl, reqs = [], [], []
    for i in range(nsc):
        sc = gen_scenario(ctx.rng)
        results = run_scenario(ctx.rng, sc)
        ctx.count("kind=" + sc["kind"])
        ctx.count("pk-columns=%d" % sc["npk"])
        if sc["late"] is not None:
            ctx.count("late-mapped-subclasses")
        if sc["selectin"]:
            ctx.count("with-selectin")
        if sc["corrupt"]:
            ctx.count("corrupted-discriminator")
        anc = ancs_of(sc["parent"])
        for case, line, req, why in results:
            nontriv = any(case["C"] in anc[o["cls"]] and o["cls"] != case["C"] for o in sc["objs"])
            ctx.case(req, nontrivial=nontriv)
            ctx.count("outcome=" + line.split(" ")[0] + (":" + line.split(" ")[1] if line.startswith("err") else ""))
            if why:
                ctx.violation("c42-oracle:" + sc["kind"], case, why)
            cases.append(case)
            impl.append(line)
            reqs.append(req)
        if i < 3 and results:
            ctx.sample({"kind": sc["kind"], "parents": sc["parent"], "selectin": sc["selectin"], "request": results[0][2][:300], "outcome": results[0][1][:300]})
    if ctx.driver_ok():
        ctx.correspond("corr/c42:polymorphic-load-vs-Model.Poly", cases, impl, ctx.driver(reqs))
    ctx.exhaustive = False


def search(ctx, broken):
    sub = type(ctx)(ctx.pid, "thorough", ctx.seed + 1, ctx.level)
    run(sub, deep=True)
    ctx.violations.extend(sub.violations)


def replay(ctx, obj):
    import random
    import warnings

    warnings.simplefilter("ignore")
    c = obj["case"]
    if "probe" in c:
        why = stale_cache_probe(c["probe"] if c["probe"] in ("single", "joined") else "single")
        print("replay C42 stale compiled cache probe -> %s" % why)
        return why is not None
    sc = {k: c.get(k) for k in ("kind", "parent", "selectin", "objs", "corrupt", "npk", "late")}
    sc["npk"] = sc["npk"] or 1
    sc["queries"] = {str(c["C"]): [c["wp"]]}
    res = [r for r in run_scenario(random.Random(0), sc) if r[0]["C"] == c["C"] and r[0].get("phase", 2) == 2]
    for case, line, req, why in res:
        print("replay C42 %s select(K%d) wp=%s -> %s ; oracle: %s" % (sc["kind"], case["C"], case["wp"], line, why))
    return any(r[3] for r in res)
