"""C42 — polymorphic queries return each row as its most specific class.

Model:    lean/SaVerif/Model/Poly.lean (transcription of loading._decorate_polymorphic_switch /
          _instance_processor class decision, the single-table criterion, the joined chain,
          the concrete polymorphic_union, what with_polymorphic puts into the first SELECT,
          deferred subclass columns, polymorphic_load="selectin")
Theorems: lean/SaVerif/Props/C42.lean

What runs on the real code: generated class trees (2-7 classes, up to 4 levels) mapped
imperatively as single-table, joined-table and concrete inheritance on SQLite, rows
inserted with raw SQL (NULL attribute values included), every class queried with
with_polymorphic none / '*' / a random subset, hierarchies with and without
polymorphic_load="selectin"; corrupted discriminators (unknown identity, NULL, identity of
another branch / of the parent) for the documented errors.  The discriminator column is a
String, Integer or Boolean column and the identities are a random injection into its values,
the falsy ones ('' / 0 / False) included, on any class of the tree; inner classes may be
polymorphic_abstract.  Every class is also queried with the selectin_polymorphic() option, and
about half of the queries are repeated with populate_existing (statement option, execution
option, or Mapper(always_refresh=True)) and / or in a Session that already holds the objects
of an earlier select(K') / with_polymorphic load, some of their attributes read, whose stored
values were then changed by raw UPDATEs.

Direct oracle: result == the generated objects whose class descends from the queried class,
in id order, each as its own class with its own attribute values after access: the stored
values, except that without populate_existing an attribute already loaded in the Session
keeps the value it had.
Correspondence: entities and values read, error kind, number of statements emitted by the
load, number of deferred loads on attribute access, against the model (the observed state of
the pre-loaded objects is an input of the model's `populate`).
"""
PID = "C42"
LEVEL = "proof"
LEAN = ["SaVerif.Props.C42"]
META = {
    "text": "Lean theorems for every class tree (given by ancestor chains and an injective assignment of discriminator values to the non-abstract classes), every data set and every queried class: over consistently stored data the single-table, joined-table and concrete plans return exactly the objects whose class descends from the queried class, each as the class its discriminator names with that class's attribute values (polymorphic_most_specific_*, subclass_filter_*), independently of with_polymorphic; the single-table IN list is exactly the identities of the non-abstract classes of the subtree, whatever the values (in_list_exact / _complete / _sound); unknown / NULL discriminators and identities outside the queried subtree give the documented errors (decideClass_spec). Population of an object from a row (new instance, populate_existing / always_refresh, partial population of an object already in the Session): with populate_existing every attribute reads the database value, without it a load changes nothing attribute access can see (populate_existing_reads_db, plain_load_keeps_reads, readEnt_*). The model is tied to the ORM by generated hierarchies of the three kinds on SQLite with String / Integer / Boolean discriminators including the falsy identities, polymorphic_abstract classes, with_polymorphic / selectin_polymorphic settings, populate_existing and pre-loaded Sessions: classes, values after access, error kinds and statement counts are compared, and the property itself is checked against the generated data.",
    "note": "Known findings (unchanged tree): re-executing the identical, cached select(M) after a subclass of M was mapped later returns the stale row set (single table) or raises AttributeError (joined); the generated late-mapping histories therefore run their second round uncached. Statement counts after attribute access are modelled only for hierarchies without polymorphic_load='selectin'; with selectin the model predicts classes, values and the number of statements of the load itself. Statement counts are not compared for the selectin_polymorphic() option nor for pre-loaded Sessions of hierarchies with polymorphic_load='selectin' (values and classes are). Modelled-not-verified: of_type(), with_polymorphic against an aliased subquery, composite keys, relationships, equal primary keys in two concrete tables, selectin chunking (500).",
    "technique": "Lean 4 proofs over list-level relational plans + differential execution of generated inheritance hierarchies on SQLite",
    "design_ref": "DESIGN.md §3 C40-C42",
}

KINDS = ("single", "joined", "concrete")


def ancs_of(parent):
    out = []
    for c, p in enumerate(parent):
        out.append(([] if p is None else out[p]) + [c])
    return out


PKCOLS = ["id", "id2", "id3"]


def pk_of(mid, npk):
    """model id -> primary key tuple (composite keys are digits of the model id)"""
    if npk == 1:
        return (mid,)
    if npk == 2:
        return (mid // 10, mid % 10)
    return (mid // 100, (mid // 10) % 10, mid % 10)


def mid_of(pk):
    n = 0
    for p in pk:
        n = n * 10 + p if len(pk) > 1 else p
    return n


UNKNOWN_CODE = 99


def ident_value(idkind, code):
    """discriminator value of a model identity code; code 0 is the falsy value of the domain"""
    if code is None:
        return None
    if idkind == "int":
        return code
    if idkind == "bool":
        return bool(code)
    return "" if code == 0 else "c%d" % code


def default_idents(n):
    return [c + 1 for c in range(n)]


class Mapping:
    """the class tree mapped imperatively; classes [0, upto) are mapped at construction, the
    rest by extend() (late subclasses of already configured - possibly already queried - mappers).
    idents[c] = identity code of class c (None = polymorphic_abstract), idkind = the domain of the
    discriminator column (str / int / bool); refresh = Mapper(always_refresh=True)"""

    def __init__(self, kind, parent, selectin=(), npk=1, upto=None, idkind="str", idents=None, refresh=False):
        from sqlalchemy import Boolean, Column, ForeignKeyConstraint, Integer, String, Table
        from sqlalchemy.orm import registry

        self.kind, self.parent, self.selectin, self.npk = kind, parent, selectin, npk
        n = len(parent)
        self.idkind, self.idents, self.refresh = idkind, (idents or default_idents(n)), refresh
        DiscType = {"str": String, "int": Integer, "bool": Boolean(create_constraint=False)}[idkind]  # type of the discriminator column
        self.anc = ancs_of(parent)
        self.sub = [[d for d in range(n) if c in self.anc[d]] for c in range(n)]
        self.reg = registry()
        md = self.reg.metadata
        pkc = PKCOLS[:npk]
        self.classes = []
        for c in range(n):
            base = (object,) if parent[c] is None else (self.classes[parent[c]],)
            self.classes.append(type("K%d" % c, base, {}))
        self.mappers = [None] * n
        self.tables = {}
        if kind == "single":
            self.tables["t"] = Table("t", md, *[Column(k, Integer, primary_key=True, autoincrement=False) for k in pkc], Column("type", DiscType), *[Column("a%d" % c, Integer) for c in range(n)])
        elif kind == "joined":
            for c in range(n):
                if parent[c] is None:
                    self.tables[c] = Table("t%d" % c, md, *[Column(k, Integer, primary_key=True, autoincrement=False) for k in pkc], Column("type", DiscType), Column("a%d" % c, Integer))
                else:
                    self.tables[c] = Table(
                        "t%d" % c, md, *[Column(k, Integer, primary_key=True, autoincrement=False) for k in pkc], Column("a%d" % c, Integer),
                        ForeignKeyConstraint(pkc, ["t%d.%s" % (parent[c], k) for k in pkc]),
                    )
        else:
            for c in range(n):
                self.tables[c] = Table("t%d" % c, md, *[Column(k, Integer, primary_key=True, autoincrement=False) for k in pkc], *[Column("a%d" % x, Integer) for x in self.anc[c]])
        self.mapped = 0
        self.extend(n if upto is None else upto)

    def extend(self, hi):
        from sqlalchemy.orm import polymorphic_union

        kind, parent, reg, anc, sub = self.kind, self.parent, self.reg, self.anc, self.sub
        pkc = PKCOLS[: self.npk]
        for c in range(self.mapped, hi):
            if kind == "concrete":
                kw = dict(polymorphic_identity="c%d" % c)
            elif self.idents[c] is None:
                kw = dict(polymorphic_abstract=True)
            else:
                kw = dict(polymorphic_identity=ident_value(self.idkind, self.idents[c]))
            if self.refresh:
                kw["always_refresh"] = True
            if c in self.selectin and kind != "concrete":
                kw["polymorphic_load"] = "selectin"
            if kind == "single":
                t = self.tables["t"]
                kw["include_properties"] = pkc + ["type"] + ["a%d" % x for x in anc[c]]
                if parent[c] is None:
                    self.mappers[c] = reg.map_imperatively(self.classes[c], t, polymorphic_on=t.c.type, **kw)
                else:
                    self.mappers[c] = reg.map_imperatively(self.classes[c], None, inherits=self.mappers[parent[c]], **kw)
            elif kind == "joined":
                if parent[c] is None:
                    self.mappers[c] = reg.map_imperatively(self.classes[c], self.tables[c], polymorphic_on=self.tables[c].c.type, **kw)
                else:
                    self.mappers[c] = reg.map_imperatively(self.classes[c], self.tables[c], inherits=self.mappers[parent[c]], **kw)
            else:
                if len(sub[c]) > 1:
                    pj = polymorphic_union({"c%d" % d: self.tables[d] for d in sub[c]}, "type", "pjoin%d" % c)
                    kw.update(with_polymorphic=("*", pj), polymorphic_on=pj.c.type)
                if parent[c] is None:
                    self.mappers[c] = reg.map_imperatively(self.classes[c], self.tables[c], **kw)
                else:
                    self.mappers[c] = reg.map_imperatively(self.classes[c], self.tables[c], inherits=self.mappers[parent[c]], concrete=True, **kw)
        self.mapped = hi


def store(kind, parent, objs, corrupt, eng, npk=1, idkind="str", idents=None):
    """raw INSERTs; `corrupt` = {id: discriminator override (None = NULL, -1 = unknown, k = class k)}"""
    anc = ancs_of(parent)
    idents = idents or default_idents(len(parent))

    def disc_str(d):
        return None if d is None else ident_value(idkind, idents[d] if d >= 0 else UNKNOWN_CODE)

    pkc = PKCOLS[:npk]
    q = lambda k: ",".join("?" * k)  # noqa: E731
    with eng.begin() as conn:
        for o in objs:
            oid, c, vals = o["id"], o["cls"], o["vals"]
            pk = list(pk_of(oid, npk))
            d = corrupt.get(oid, c) if oid in corrupt else c
            if kind == "single":
                cols = pkc + ["type"] + ["a%d" % a for a in anc[c]]
                conn.exec_driver_sql("INSERT INTO t (%s) VALUES (%s)" % (",".join(cols), q(len(cols))), tuple(pk + [disc_str(d)] + [vals[a] for a in anc[c]]))
            elif kind == "joined":
                root = anc[c][0]
                cols = pkc + ["type", "a%d" % root]
                conn.exec_driver_sql("INSERT INTO t%d (%s) VALUES (%s)" % (root, ",".join(cols), q(len(cols))), tuple(pk + [disc_str(d), vals[root]]))
                for a in anc[c][1:]:
                    cols = pkc + ["a%d" % a]
                    conn.exec_driver_sql("INSERT INTO t%d (%s) VALUES (%s)" % (a, ",".join(cols), q(len(cols))), tuple(pk + [vals[a]]))
            else:
                cols = pkc + ["a%d" % a for a in anc[c]]
                conn.exec_driver_sql("INSERT INTO t%d (%s) VALUES (%s)" % (c, ",".join(cols), q(len(cols))), tuple(pk + [vals[a] for a in anc[c]]))


def canon_error(e):
    s = str(e)
    if isinstance(e, AssertionError) and "No such polymorphic_identity" in s:
        return "unknown-identity"
    if "is NULL" in s and "discriminator" in s:
        return "null-discriminator"
    if "not a sub-mapper" in s:
        return "not-sub-mapper"
    if "Deferred loader" in s:
        return "missing-row"
    return "raise:" + type(e).__name__


def fmt_vals(vs):
    return ".".join("N" if v is None else str(v) for v in vs) if vs else "-"


def fmt_ents(ents):
    return ";".join("%d:%d:%s" % (i, c, fmt_vals(vs)) for i, c, vs in ents) if ents else "-"


def entity_for(classes, C, wp):
    from sqlalchemy.orm import with_polymorphic

    if wp is None:
        return classes[C]
    if wp == "*":
        return with_polymorphic(classes[C], "*")
    return with_polymorphic(classes[C], [classes[x] for x in wp])


def raw_update(conn, kind, parent, npk, oid, cls, a, val):
    pkc = PKCOLS[:npk]
    table = "t" if kind == "single" else ("t%d" % (a if kind == "joined" else cls))
    conn.exec_driver_sql("UPDATE %s SET a%d=? WHERE %s" % (table, a, " AND ".join("%s=?" % k for k in pkc)), tuple([val] + list(pk_of(oid, npk))))


def run_query(eng, classes, parent, C, wp, counter, npk=1, nocache=False, shape=0, sp=None, pe=False, pre=None, kind=None, objs=()):
    """execute select(C) under a with_polymorphic / selectin_polymorphic setting, optionally with
    populate_existing and in a Session that already holds objects (`pre` = {"C", "wp", "touch",
    "upd"}: an earlier select(pre.C) whose objects are kept, the attributes of the ids in `touch`
    read, then raw UPDATEs `upd` = {id: {attr: value}}); returns the canonical outcome and the
    observed state of the pre-loaded objects {id: [token per attribute]}"""
    from sqlalchemy import select
    from sqlalchemy.orm import Session, selectin_polymorphic
    from sqlalchemy.orm.attributes import instance_state

    anc = ancs_of(parent)
    n = len(parent)
    pkc = PKCOLS[:npk]
    prestate = {}
    unsound = []
    with Session(eng) as s:
        keep = None
        if pre is not None:
            try:
                ent0 = entity_for(classes, pre["C"], pre["wp"])
                keep = s.execute(select(ent0)).scalars().all()
                for o in keep:
                    c = int(type(o).__name__[1:])
                    mid = mid_of(tuple(getattr(o, k) for k in pkc))
                    if mid in pre["touch"]:
                        for a in anc[c]:
                            getattr(o, "a%d" % a)
                for o in keep:
                    c = int(type(o).__name__[1:])
                    mid = mid_of(tuple(getattr(o, k) for k in pkc))
                    st, d = instance_state(o), o.__dict__
                    toks = []
                    for a in range(n):
                        key = "a%d" % a
                        if a not in anc[c]:
                            toks.append("U")
                        elif key in d:
                            toks.append(d[key])
                        else:
                            toks.append("U")
                            if key not in st.expired_attributes:
                                unsound.append((mid, key))
                    prestate[mid] = toks
                conn = s.connection()
                cls_of = {o["id"]: o["cls"] for o in objs}
                for oid, ch in pre["upd"].items():
                    for a, v in ch.items():
                        raw_update(conn, kind, parent, npk, int(oid), cls_of[int(oid)], int(a), v)
            except Exception as e:
                return ("err", "preload:" + canon_error(e), None, None), prestate, unsound
        counter[0] = 0
        try:
            ent = entity_for(classes, C, wp)
            stmt = select(ent).order_by(*[getattr(ent, k) for k in pkc])
            if sp is not None:
                stmt = stmt.options(selectin_polymorphic(classes[C], [classes[x] for x in sp]))
            if shape:
                stmt = stmt.where(ent.id >= 0)  # a differently shaped statement: not served from the compiled cache
            opts = {"compiled_cache": None} if nocache else {}
            if pe == "stmt":
                stmt = stmt.execution_options(populate_existing=True)
            elif pe:
                opts["populate_existing"] = True
            res = s.execute(stmt, execution_options=opts).scalars().all()
            c1 = counter[0]
            out = []
            for o in res:
                c = int(type(o).__name__[1:])
                out.append((mid_of(tuple(getattr(o, k) for k in pkc)), c, tuple(getattr(o, "a%d" % a) for a in anc[c])))
            return ("ok", out, c1, counter[0] - c1), prestate, unsound
        except Exception as e:
            return ("err", canon_error(e), None, None), prestate, unsound
        finally:
            del keep


def tok(x):
    return "N" if x is None else str(x)


def requests(kind, parent, selectin, objs, corrupt, C, wp, idents=None, pe=False, cnt=True, prestate=None):
    anc = ancs_of(parent)
    n = len(parent)
    idents = idents or default_idents(n)
    ancs = "|".join(".".join(str(x) for x in a) for a in anc)
    sel = ".".join("1" if c in selectin else "0" for c in range(n))
    ids = ".".join(tok(x) for x in idents)
    wps = "N" if wp is None else ("*" if wp == "*" else ".".join(str(x) for x in wp))
    tail = "%d %d %s" % (1 if pe else 0, 1 if cnt else 0, ";".join("%d:%s" % (i, ".".join(tok(t) for t in ts)) for i, ts in sorted((prestate or {}).items())) or "-")

    def dv(o):
        d = corrupt.get(o["id"], o["cls"]) if o["id"] in corrupt else o["cls"]
        return "N" if d is None else str(idents[d] if d >= 0 else UNKNOWN_CODE)

    v = tok
    so = sorted(objs, key=lambda o: o["id"])
    if kind == "single":
        rows = ";".join("%d:%s:%s" % (o["id"], dv(o), ".".join(v(o["vals"][a]) if a in anc[o["cls"]] else "N" for a in range(n))) for o in so) or "-"
        return "poly single %s %s %s %d %s %s %s" % (ancs, sel, ids, C, wps, rows, tail)
    if kind == "joined":
        base = ";".join("%d:%s:%s" % (o["id"], dv(o), v(o["vals"][0])) for o in so) or "-"
        subs = "|".join(",".join("%d:%s" % (o["id"], v(o["vals"][c])) for o in so if c in anc[o["cls"]] and c != 0) or "-" for c in range(n))
        return "poly joined %s %s %s 0 %d %s %s %s %s" % (ancs, sel, ids, C, wps, base, subs, tail)
    tabs = "|".join(",".join("%d:%s" % (o["id"], fmt_vals([o["vals"][a] for a in anc[c]])) for o in so if o["cls"] == c) or "-" for c in range(n))
    return "poly concrete %s %d %s %s" % (ancs, C, tabs, tail)


VALUES = [None, 0, 1, 5, -3, 7, 12]


def gen_scenario(rng):
    n = rng.choice([2, 3, 3, 4, 4, 5, 6, 7])
    parent = [None]
    depth = [0]
    for c in range(1, n):
        cands = [p for p in range(c) if depth[p] < 3]
        p = rng.choice(cands)
        parent.append(p)
        depth.append(depth[p] + 1)
    kind = rng.choice(KINDS)
    selectin = ()
    if kind != "concrete" and rng.random() < 0.4:
        selectin = tuple(sorted(rng.sample(range(1, n), rng.randint(1, min(2, n - 1)))))
    # the discriminator domain, the identity of every class, polymorphic_abstract classes
    idkind, idents, abstract = None, None, []
    if kind != "concrete":
        inner = [c for c in range(n) if c in parent]
        if rng.random() < 0.3:
            abstract = sorted(rng.sample(inner, rng.randint(1, min(2, len(inner)))))
        nonabs = [c for c in range(n) if c not in abstract]
        idkind = rng.choice(["str", "str", "int", "int"] + (["bool", "bool", "bool"] if len(nonabs) <= 2 else []))
        if idkind == "bool":
            codes = rng.sample([0, 1], len(nonabs))
        else:
            lo = 0 if (idkind == "int" or rng.random() < 0.5) else 1
            codes = rng.sample(range(lo, lo + n + 1), len(nonabs))
        idents = [None] * n
        for c, code in zip(nonabs, codes):
            idents[c] = code
    else:
        nonabs = list(range(n))
    npk = rng.choice([1, 1, 2, 3])
    if npk == 1:
        ids = rng.sample(range(1, 30), rng.randint(0, 9))
    elif npk == 2:  # digits of the model id; the first key column repeats across rows
        ids = rng.sample([a * 10 + b for a in range(1, 4) for b in range(0, 4)], rng.randint(0, 9))
    else:
        ids = rng.sample([a * 100 + b * 10 + c for a in range(1, 3) for b in range(0, 3) for c in range(0, 3)], rng.randint(0, 9))
    objs = []
    for i in ids:
        c = rng.choice(nonabs)
        objs.append({"id": i, "cls": c, "vals": [rng.choice(VALUES) if rng.random() < 0.9 else None for _ in range(n)]})
    corrupt = {}
    if kind != "concrete" and objs and rng.random() < 0.3:
        o = rng.choice(objs)
        m = rng.random()
        if m < 0.35 and idkind != "bool":
            corrupt[o["id"]] = -1
        elif m < 0.6:
            corrupt[o["id"]] = None
        elif kind == "joined":
            if parent[o["cls"]] is not None and parent[o["cls"]] in nonabs:
                corrupt[o["id"]] = parent[o["cls"]]  # identity of the parent class: tables of its chain all hold the row
        else:
            corrupt[o["id"]] = rng.choice(nonabs)  # single table: any mapped identity
    late = None
    if kind != "concrete" and n >= 3 and rng.random() < 0.35:
        late = rng.randint(2, n - 1)  # classes [late, n) are mapped, and their rows stored, after the first round of queries
        corrupt = {}
    refresh = rng.random() < 0.12
    return {"kind": kind, "parent": parent, "selectin": list(selectin), "objs": objs, "corrupt": {str(k): v for k, v in corrupt.items()}, "npk": npk, "late": late, "idkind": idkind, "idents": idents, "refresh": refresh}


def gen_pre(rng, sc):
    """an earlier load in the same Session + raw changes of the stored values afterwards"""
    parent, kind, objs = sc["parent"], sc["kind"], sc["objs"]
    n = len(parent)
    anc = ancs_of(parent)
    C0 = 0 if rng.random() < 0.6 else rng.randrange(n)
    below = [d for d in range(n) if C0 in anc[d] and d != C0]
    m = rng.random()
    if kind == "concrete" or m < 0.3:
        wp0 = None
    elif m < 0.75 or not below:
        wp0 = "*"
    else:
        wp0 = sorted(rng.sample(below, rng.randint(1, len(below))))
    touch = sorted(o["id"] for o in objs if rng.random() < 0.35)
    upd = {}
    for o in objs:
        if rng.random() < 0.6:
            ch = {}
            for a in anc[o["cls"]]:
                if rng.random() < 0.6:
                    ch[str(a)] = rng.choice([v for v in VALUES if v != o["vals"][a]])
            if ch:
                upd[str(o["id"])] = ch
    return {"C": C0, "wp": wp0, "touch": touch, "upd": upd}


def apply_upd(objs, upd):
    out = []
    for o in objs:
        vals = list(o["vals"])
        for a, v in (upd.get(str(o["id"])) or {}).items():
            vals[int(a)] = v
        out.append(dict(o, vals=vals))
    return out


def expected(parent, objs, C, pe=False, prestate=None):
    """the stored objects of the subtree; an attribute already loaded in the Session keeps its
    value unless populate_existing is in effect"""
    anc = ancs_of(parent)
    out = []
    for o in sorted(objs, key=lambda o: o["id"]):
        if C not in anc[o["cls"]]:
            continue
        pre = None if pe or not prestate else prestate.get(o["id"])
        out.append((o["id"], o["cls"], tuple(o["vals"][a] if pre is None or pre[a] == "U" else pre[a] for a in anc[o["cls"]])))
    return out


def expected_corrupt(kind, parent, objs, corrupt, C):
    """documented outcome when one discriminator was overwritten: ('err', kind) or ('ok', entities)"""
    anc = ancs_of(parent)
    out = []
    for o in sorted(objs, key=lambda o: o["id"]):
        c = o["cls"]
        if o["id"] not in corrupt:
            if C in anc[c]:
                out.append((o["id"], c, tuple(o["vals"][a] for a in anc[c])))
            continue
        d = corrupt[o["id"]]
        if kind == "single":
            if len(anc[C]) > 1:  # WHERE type IN (identities of the subtree)
                if d is None or d < 0 or C not in anc[d]:
                    continue
            if d is None:
                return ("err", "null-discriminator")
            if d < 0:
                return ("err", "unknown-identity")
            out.append((o["id"], d, tuple(o["vals"][a] if a in anc[c] else None for a in anc[d])))
        else:  # joined: the row joins iff the tables of C's chain hold its key
            if C not in anc[c]:
                continue
            if d is None:
                return ("err", "null-discriminator")
            if d < 0:
                return ("err", "unknown-identity")
            if C not in anc[d]:
                return ("err", "not-sub-mapper")
            out.append((o["id"], d, tuple(o["vals"][a] for a in anc[d])))
    return ("ok", out)


def wp_settings(rng, kind, parent, C):
    """(with_polymorphic, selectin_polymorphic) settings for a query against C"""
    anc = ancs_of(parent)
    n = len(parent)
    out = [(None, None), ("*", None)] if kind != "concrete" else [(None, None)]
    below = [d for d in range(n) if C in anc[d] and d != C]
    if kind != "concrete" and below:
        out.append((sorted(rng.sample(below, rng.randint(1, len(below)))), None))
        out.append((None, sorted(rng.sample(below, rng.randint(1, len(below))))))
    return out


def describe(sc, kind, parent, selectin, C, wp, sp, pe, pre):
    s = "select(K%d) with_polymorphic=%s" % (C, wp)
    if sp is not None:
        s += " selectin_polymorphic=%s" % sp
    if pe:
        s += " populate_existing" + (" (always_refresh)" if sc.get("refresh") else "")
    s += " on a %s hierarchy (parents %s, selectin %s, %d-column key" % (kind, parent, list(selectin), sc.get("npk", 1))
    if sc.get("idents"):
        s += ", %s identities %s" % (sc.get("idkind"), [ident_value(sc.get("idkind"), x) for x in sc["idents"][: len(parent)]])
    s += ")"
    if pre is not None:
        s += " in a Session holding the objects of select(K%d) with_polymorphic=%s (attributes of %s read, then stored values changed: %s)" % (pre["C"], pre["wp"], pre["touch"], pre["upd"])
    return s


def judge(sc, kind, parent, selectin, objs, corrupt, C, wp, res, phase, sp=None, pe=False, pre=None, prestate=None, cnt=True):
    """(canonical line, oracle problem) for one query outcome"""
    if res[0] == "ok":
        line = "ok %s / %s / %s" % (fmt_ents(res[1]), res[2] if cnt else "-", "-" if selectin or not cnt else str(res[3]))
    else:
        line = "err " + res[1]
    why = None
    tag = "" if phase is None else " [%s]" % phase
    what = describe(sc, kind, parent, selectin, C, wp, sp, pe, pre)
    if not corrupt:
        exp = expected(parent, objs, C, pe, prestate)
        if res[0] != "ok":
            why = "%s%s raised %s" % (what, tag, res[1])
        elif res[1] != exp:
            why = "%s%s returned %s, the stored objects of that subtree are %s" % (what, tag, res[1], exp)
    else:
        exp = expected_corrupt(kind, parent, objs, corrupt, C)
        got = ("err", res[1]) if res[0] == "err" else ("ok", res[1])
        if got != exp:
            why = "%s with discriminator of row %s overwritten by %s: got %s, documented outcome %s" % (what, list(corrupt)[0], list(corrupt.values())[0], got, exp)
    return line, why


def run_scenario(ctx_rng, sc):
    """returns list of (case, impl_line, request, oracle_problem_or_None)"""
    from sqlalchemy import create_engine, event

    kind, parent, selectin, objs = sc["kind"], sc["parent"], tuple(sc["selectin"]), sc["objs"]
    npk, late = sc.get("npk", 1), sc.get("late")
    corrupt = {int(k): v for k, v in sc["corrupt"].items()}
    n = len(parent)
    idkind, idents, refresh = sc.get("idkind") or "str", sc.get("idents") or default_idents(n), bool(sc.get("refresh"))
    m = Mapping(kind, parent, selectin, npk, upto=late, idkind=idkind, idents=idents, refresh=refresh)
    eng = create_engine("sqlite://")
    counter = [0]

    @event.listens_for(eng, "before_cursor_execute")
    def _count(conn, cur, stmt, params, c, many):
        counter[0] += 1

    out = []
    only = sc.get("queries")
    try:
        m.reg.metadata.create_all(eng)
        if late is not None:
            # round 1: only classes [0, late) exist; every one of them is queried
            early = [o for o in objs if o["cls"] < late]
            store(kind, parent[:late], early, {}, eng, npk, idkind, idents)
            sel1 = tuple(c for c in selectin if c < late)
            for C in range(late):
                res, _, _ = run_query(eng, m.classes, parent[:late], C, None, counter, npk)
                line, why = judge(sc, kind, parent[:late], sel1, early, {}, C, None, res, "before the late subclasses", pe=refresh)
                case = dict(sc, C=C, wp=None, phase=1)
                if only is None:
                    out.append((case, line, requests(kind, parent[:late], sel1, early, {}, C, None, idents[:late], pe=refresh), why))
            m.extend(n)
            store(kind, parent, [o for o in objs if o["cls"] >= late], {}, eng, npk, idkind, idents)
        else:
            store(kind, parent, objs, corrupt, eng, npk, idkind, idents)
        if only is not None:
            plan = [(int(C), q["wp"], q.get("sp"), q.get("pe"), q.get("pre")) for C, qs in only.items() for q in qs]
        else:
            plan = []
            for C in range(n):
                for wp, sp in wp_settings(ctx_rng, kind, parent, C):
                    plan.append((C, wp, sp, False, None))
                    if ctx_rng.random() < 0.55:
                        # the same query under populate_existing and / or against a Session that holds objects
                        pe = ctx_rng.choice([False, "stmt", "exec", "exec"])
                        pre = gen_pre(ctx_rng, sc) if (late is None and not corrupt and (not pe or ctx_rng.random() < 0.6)) else None
                        if pe or pre is not None:
                            plan.append((C, wp, sp, pe, pre))
        for C, wp, sp, pe, pre in plan:
            cur = apply_upd(objs, pre["upd"]) if pre is not None else objs
            # (the raw UPDATEs run in the Session's transaction and are rolled back with it)
            res, prestate, unsound = run_query(eng, m.classes, parent, C, wp, counter, npk, nocache=late is not None, shape=1 if late is not None else 0, sp=sp, pe=pe, pre=pre, kind=kind, objs=objs)
            epe = bool(pe) or refresh
            cnt = sp is None and not (pre is not None and selectin)
            line, why = judge(sc, kind, parent, selectin, cur, corrupt, C, wp, res, "after mapping classes %s late" % list(range(late, n)) if late is not None else None, sp=sp, pe=epe, pre=pre, prestate=prestate, cnt=cnt)
            if unsound and not why:
                why = "%s: after the earlier load the attributes %s are neither loaded nor marked expired" % (describe(sc, kind, parent, selectin, C, wp, sp, epe, pre), unsound)
            case = dict(sc, C=C, wp=wp, sp=sp, pe=pe, pre=pre, phase=2)
            out.append((case, line, requests(kind, parent, selectin, cur, corrupt, C, wp, idents, pe=epe, cnt=cnt, prestate=prestate), why))
    finally:
        eng.dispose()
        m.reg.dispose()
    return out


def stale_cache_probe(kind="single"):
    """the IDENTICAL statement executed before and after a late subclass is mapped: the
    single-table criterion is baked into the cached compiled statement"""
    from sqlalchemy import create_engine, select
    from sqlalchemy.orm import Session

    parent = [None, 0, 1]
    m = Mapping(kind, parent, (), 1, upto=2)
    eng = create_engine("sqlite://")
    try:
        m.reg.metadata.create_all(eng)
        objs = [{"id": 1, "cls": 1, "vals": [1, 2, 3]}, {"id": 2, "cls": 2, "vals": [4, 5, 6]}]
        store(kind, parent[:2], objs[:1], {}, eng)

        def q():
            with Session(eng) as s:
                K1 = m.classes[1]
                return [(o.id, int(type(o).__name__[1:])) for o in s.execute(select(K1).order_by(K1.id)).scalars()]

        first = q()
        m.extend(3)
        store(kind, parent, objs[1:], {}, eng)
        try:
            second = q()
        except Exception as e:
            return "select(K1) re-executed from the compiled cache after K2(K1) was mapped and a K2 row stored raised %s: %s" % (type(e).__name__, str(e)[:80])
        if second != [(1, 1), (2, 2)]:
            return "select(K1) re-executed from the compiled cache after K2(K1) was mapped and a K2 row stored returned %s (first run %s); expected [(1, 1), (2, 2)]" % (second, first)
        return None
    finally:
        eng.dispose()
        m.reg.dispose()


def run(ctx, deep=False):
    thorough = ctx.tier == "thorough" or deep
    ctx.rule = (
        "random class trees of 2-7 classes and up to 4 levels, mapped as single-table / joined-table / concrete inheritance; "
        "0-9 rows with NULL-able attribute values of random classes; 40% of the non-concrete hierarchies carry "
        "polymorphic_load='selectin' on 1-2 subclasses; 30% have one corrupted discriminator (unknown, NULL, identity of the "
        "parent class for joined, any identity for single table); every class is queried with with_polymorphic none, '*' and a "
        "random subset of its descendants, and with selectin_polymorphic(random subset); the discriminator column is String / Integer / Boolean "
        "(Boolean when at most two classes carry an identity) and the identities a random injection into c1.. / 0.. / {False, True}, '' and 0 included; "
        "30% of the non-concrete trees have 1-2 polymorphic_abstract inner classes (no rows); 12% map every class with always_refresh; 55% of the queries are "
        "repeated with populate_existing (statement or execution option) and / or in a Session holding the objects of an earlier select(K') with "
        "with_polymorphic none / '*' / subset, a third of them with their attributes read, 60% of the rows then changed by raw UPDATE; primary keys of 1-3 columns (first column repeating); 35% of the non-concrete trees map "
        "their last classes only after a first round of queries against every earlier class (second round uncached); a case is non-trivial when the queried class has descendants with rows"
    )
    ctx.trusted.append("statement counts after attribute access are compared only for hierarchies without polymorphic_load='selectin'")
    import warnings

    warnings.simplefilter("ignore")
    for k, key in (("single", "single-late-subclass-stale-compiled-cache"), ("joined", "joined-late-subclass-cached-statement-fails")):
        why = stale_cache_probe(k)
        if why:
            ctx.violation(key, {"probe": k}, why)
    nsc = 1200 if thorough else 160
    cases, impl, reqs = [], [], []
    for i in range(nsc):
        sc = gen_scenario(ctx.rng)
        results = run_scenario(ctx.rng, sc)
        ctx.count("kind=" + sc["kind"])
        ctx.count("pk-columns=%d" % sc["npk"])
        if sc["late"] is not None:
            ctx.count("late-mapped-subclasses")
        if sc["selectin"]:
            ctx.count("with-selectin")
        if sc["corrupt"]:
            ctx.count("corrupted-discriminator")
        if sc["idents"]:
            ctx.count("identity-domain=" + sc["idkind"])
            if any(x is None for x in sc["idents"]):
                ctx.count("with-polymorphic_abstract-class")
            if any(x == 0 for x in sc["idents"][1:]):
                ctx.count("falsy-identity-on-a-subclass")
        if sc["refresh"]:
            ctx.count("always_refresh")
        anc = ancs_of(sc["parent"])
        for case, line, req, why in results:
            nontriv = any(case["C"] in anc[o["cls"]] and o["cls"] != case["C"] for o in sc["objs"])
            ctx.case(req, nontrivial=nontriv)
            if case.get("phase") == 2:
                ctx.count("strategy=" + ("selectin_polymorphic" if case["sp"] is not None else "with_polymorphic:" + ("none" if case["wp"] is None else "*" if case["wp"] == "*" else "subset")))
                ctx.count("populate_existing=%s,session=%s" % (bool(case["pe"]) or sc["refresh"], "fresh" if case["pre"] is None else "holding-objects"))
            ctx.count("outcome=" + line.split(" ")[0] + (":" + line.split(" ")[1] if line.startswith("err") else ""))
            if why:
                ctx.violation("c42-oracle:" + sc["kind"], case, why)
            cases.append(case)
            impl.append(line)
            reqs.append(req)
        if i < 3 and results:
            ctx.sample({"kind": sc["kind"], "parents": sc["parent"], "selectin": sc["selectin"], "request": results[0][2][:300], "outcome": results[0][1][:300]})
    if ctx.driver_ok():
        ctx.correspond("corr/c42:polymorphic-load-vs-Model.Poly", cases, impl, ctx.driver(reqs))
    ctx.exhaustive = False


def search(ctx, broken):
    sub = type(ctx)(ctx.pid, "thorough", ctx.seed + 1, ctx.level)
    run(sub, deep=True)
    ctx.violations.extend(sub.violations)


def replay(ctx, obj):
    import random
    import warnings

    warnings.simplefilter("ignore")
    c = obj["case"]
    if "probe" in c:
        why = stale_cache_probe(c["probe"] if c["probe"] in ("single", "joined") else "single")
        print("replay C42 stale compiled cache probe -> %s" % why)
        return why is not None
    sc = {k: c.get(k) for k in ("kind", "parent", "selectin", "objs", "corrupt", "npk", "late", "idkind", "idents", "refresh")}
    sc["npk"] = sc["npk"] or 1
    sc["queries"] = {str(c["C"]): [{"wp": c["wp"], "sp": c.get("sp"), "pe": c.get("pe"), "pre": c.get("pre")}]}
    res = [r for r in run_scenario(random.Random(0), sc) if r[0]["C"] == c["C"] and r[0].get("phase", 2) == 2]
    for case, line, req, why in res:
        print("replay C42 %s select(K%d) wp=%s sp=%s pe=%s pre=%s -> %s ; oracle: %s" % (sc["kind"], case["C"], case["wp"], case["sp"], case["pe"], case["pre"], line, why))
    return any(r[3] for r in res)
