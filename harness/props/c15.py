"""C15 — reflection reproduces the schema that was created (SQLite only: the one backend that runs here).

Model: lean/SaVerif/Model/SqliteReflect.lean (transcription of SQLiteDialect._resolve_type_affinity,
SQLite's own affinity rule, and _find_cols_in_sig as a scanner).  Theorems: lean/SaVerif/Props/C15.lean.
Translator: ischema_names, the DDL type names SQLiteTypeCompiler emits for the generic and the
upper-case types, and the DDL name of every reflected class (with 0/1/2 arguments) are regenerated
into Gen/SqliteTypes.lean; the affinity / fixpoint theorems are `decide`d against it.
Check: generated table definitions (quoted / reserved / mixed-case / spaced names, composite PKs, server
defaults, multi-column FKs with ON DELETE / ON UPDATE / DEFERRABLE, named and unnamed UNIQUE and CHECK
constraints, plain / unique / partial indexes) are created on real SQLite, reflected through Inspector and
through Table(autoload_with=...), compared with the definition; then the reflected MetaData is created
in a fresh database and reflected again (fixpoint).  _resolve_type_affinity and _find_cols_in_sig are
compared with the model on generated type strings / column lists.
"""
import json
import re
import warnings

PID = "C15"
LEVEL = "translation_validation"
LEAN = ["SaVerif.Props.C15"]
META = {
    "text": "For SQLite (the only backend executable here): Lean theorems, re-decided against tables regenerated from the working tree on every run, that for every type SQLiteTypeCompiler can emit, _resolve_type_affinity (transcribed) maps the emitted type name to a type whose own DDL name has the same SQLite affinity (SQLite's datatype3 rule, transcribed independently), that emitting and reflecting a second time is a fixpoint, and that the column-list scanner _find_cols_in_sig recovers every list of identifiers rendered by the quoting rule (general theorem, any names without a double quote). The bulk of the property - Inspector output versus the generated definition, and reflect -> re-create -> reflect being a fixpoint - is checked differentially on real SQLite with generated tables.",
    "note": "translation_validation: the catalog queries and the PRAGMA output live in SQLite, not in a model; the FK / UNIQUE / CHECK regexes are exercised only differentially (through real reflection), not proved. PostgreSQL and MariaDB reflection cannot run offline and is not covered. Identifiers containing a double quote are outside the generator (the reflection regexes do not support them: see evidence assumptions).",
    "technique": "regenerated finite tables + decide, one general scanner theorem, and a create/reflect/re-create/reflect differential run on real SQLite",
    "design_ref": "DESIGN.md §3 C15",
}

TYPE_EXPRS = [
    "Integer()", "BigInteger()", "SmallInteger()", "String(30)", "String()", "Text()", "Unicode(10)", "UnicodeText()",
    "Float()", "Float(10)", "Double()", "Numeric()", "Numeric(10, 2)", "Boolean()", "Date()", "DateTime()", "Time()",
    "LargeBinary()", "JSON()", "CHAR(3)", "VARCHAR(5)", "NVARCHAR(7)", "NCHAR(2)", "REAL()", "DECIMAL(8, 3)", "TIMESTAMP()",
    "BIGINT()", "SMALLINT()", "INTEGER()", "Enum('a', 'bcd')", "Interval()", "Uuid()", "BLOB()", "TEXT()", "DATE()", "DATETIME()",
    "TIME()", "FLOAT()", "DOUBLE()", "NUMERIC(5)", "BOOLEAN()", "CLOB()", "DOUBLE_PRECISION()", "VARBINARY(4)", "BINARY(4)",
]


def mk_type(expr):
    import sqlalchemy as sa
    from sqlalchemy import types as t

    ns = {k: getattr(t, k) for k in dir(t) if not k.startswith("_")}
    ns["JSON"] = sa.JSON
    return eval(expr, {"__builtins__": {}}, ns)  # expr comes from TYPE_EXPRS only


def sqlite_dialect():
    from sqlalchemy.dialects import sqlite

    return sqlite.dialect()


def ddl_name(type_obj, dialect=None):
    """DDL text of a type on SQLite; NullType (cannot be rendered) -> ''"""
    from sqlalchemy import exc
    from sqlalchemy.types import NullType

    dialect = dialect or sqlite_dialect()
    if isinstance(type_obj, NullType):
        return ""
    try:
        return dialect.type_compiler_instance.process(type_obj)
    except exc.CompileError:
        return None
    except (AttributeError, TypeError):
        # e.g. CHAR(7, 3): the second positional argument is `collation`, an int there breaks the compiler;
        # only reachable by reflecting a foreign database whose type text is "CHAR(7, 3)"
        return "!error"


def sqlite_affinity(name):
    """https://www.sqlite.org/datatype3.html §3.1, on the declared type text"""
    n = name.upper()
    if "INT" in n:
        return "INTEGER"
    if "CHAR" in n or "CLOB" in n or "TEXT" in n:
        return "TEXT"
    if "BLOB" in n or not n:
        return "BLOB"
    if "REAL" in n or "FLOA" in n or "DOUB" in n:
        return "REAL"
    return "NUMERIC"


# ------------------------------------------------------------------ translator
def lean_str(s):
    return '"' + s.replace("\\", "\\\\").replace('"', '\\"') + '"'


def gen(ctx):
    from sqlalchemy.dialects.sqlite import base

    d = sqlite_dialect()
    isch = sorted((k, v.__name__) for k, v in base.ischema_names.items())
    # DDL name of each reflected class with 0, 1, 2 integer arguments (what _resolve_type_affinity can build)
    classes = sorted({v for _, v in base.ischema_names.items()} | {base.sqltypes.INTEGER, base.sqltypes.TEXT, base.sqltypes.REAL, base.sqltypes.NUMERIC}, key=lambda c: c.__name__)
    render = []
    with warnings.catch_warnings():
        warnings.simplefilter("ignore")
        for cls in classes:
            for args in ((), (7,), (7, 3)):
                try:
                    obj = cls(*args)
                    used = len(args)
                except TypeError:
                    obj = cls()
                    used = 0
                render.append((cls.__name__, len(args), ddl_name(obj, d) or "", used))
    emitted = []
    for e in TYPE_EXPRS:
        n = ddl_name(mk_type(e), d)
        if n is not None:
            emitted.append((e, n))
    body = ["namespace SaVerif.Gen.SqliteTypes",
            "/-- `ischema_names` of dialects/sqlite/base.py: type text -> reflected class -/",
            "def ischema : List (String × String) := ["]
    body.append(",\n".join("  (%s, %s)" % (lean_str(k), lean_str(v)) for k, v in isch))
    body.append("]")
    body.append("/-- DDL text SQLiteTypeCompiler emits for a reflected class built with n integer arguments\n    (class, n, text, number of arguments the constructor accepted) -/")
    body.append("def classDdl : List (String × Nat × String × Nat) := [")
    body.append(",\n".join("  (%s, %d, %s, %d)" % (lean_str(c), n, lean_str(t), u) for c, n, t, u in render))
    body.append("]")
    body.append("/-- DDL text SQLiteTypeCompiler emits for the types the generator uses (expression, text) -/")
    body.append("def emitted : List (String × String) := [")
    body.append(",\n".join("  (%s, %s)" % (lean_str(e), lean_str(n)) for e, n in emitted))
    body.append("]")
    body.append("end SaVerif.Gen.SqliteTypes\n")
    ctx.write_gen("SqliteTypes", "\n".join(body))


# ------------------------------------------------------------------ building real tables from a spec
def build(spec):
    import sqlalchemy as sa

    m = sa.MetaData()
    for t in spec["tables"]:
        cols = []
        for c in t["cols"]:
            kw = {"nullable": c["nullable"], "primary_key": c["pk"]}
            if c.get("default") is not None:
                kind, val = c["default"]
                kw["server_default"] = val if kind == "str" else sa.text(val)
            if c.get("unique"):
                kw["unique"] = True
            cols.append(sa.Column(c["name"], mk_type(c["type"]), **kw))
        extra = []
        if any(c["pk"] for c in t["cols"]) and (t.get("pk_name") or t.get("pk_order")):
            # declared order of a composite key may differ from the column order
            extra.append(sa.PrimaryKeyConstraint(*pk_order(t), name=t.get("pk_name")))
        for f in t["fks"]:
            extra.append(_fkc(sa, m, f, spec.get("schema")))
        for u in t["uqs"]:
            extra.append(sa.UniqueConstraint(*u["cols"], name=u["name"]))
        for k in t["cks"]:
            extra.append(sa.CheckConstraint(k["sql"], name=k["name"]))
        tb = sa.Table(t["name"], m, *(cols + extra), schema=spec.get("schema"))
        for ix in t["ixs"]:
            kw = {}
            if ix.get("where"):
                kw["sqlite_where"] = sa.text(ix["where"])
            sa.Index(ix["name"], *[tb.c[c] for c in ix["cols"]], unique=ix["unique"], **kw)
    return m


def pk_order(t):
    """declared order of the primary key columns"""
    return list(t.get("pk_order") or [c["name"] for c in t["cols"] if c["pk"]])


def _fkc(sa, m, f, schema=None):
    # targets as "[schema.]table.column" strings (SQLAlchemy splits on '.', so the generator avoids dots in names)
    pre = schema + "." if schema else ""
    return sa.ForeignKeyConstraint(
        f["cols"], ["%s%s.%s" % (pre, f["rtable"], rc) for rc in f["rcols"]],
        name=f["name"], ondelete=f["ondelete"], onupdate=f["onupdate"], deferrable=f["deferrable"], initially=f["initially"],
    )


def new_engine():
    from sqlalchemy import create_engine, event
    from sqlalchemy.pool import StaticPool

    eng = create_engine("sqlite://", poolclass=StaticPool)

    @event.listens_for(eng, "connect")
    def _c(dbapi, rec):
        dbapi.execute("PRAGMA foreign_keys=ON")
        dbapi.execute("ATTACH DATABASE ':memory:' AS aux")  # a second schema for schema-qualified reflection

    return eng


def norm_sql(s):
    return re.sub(r"\s+", " ", s or "").strip()


def strip_parens(s):
    s = norm_sql(s)
    while s.startswith("(") and s.endswith(")"):
        depth = 0
        ok = True
        for i, ch in enumerate(s):
            if ch == "(":
                depth += 1
            elif ch == ")":
                depth -= 1
                if depth == 0 and i != len(s) - 1:
                    ok = False
                    break
        if not ok:
            break
        s = s[1:-1].strip()
    return s


def snapshot(eng, schema=None):
    """everything the Inspector reports, canonicalised (lists of constraints sorted)"""
    from sqlalchemy import inspect

    insp0 = inspect(eng)

    class _I:  # every call with the schema
        def __getattr__(self, name):
            return lambda *a, **k: getattr(insp0, name)(*a, schema=schema, **k)

    insp = _I()
    out = {}
    with warnings.catch_warnings():
        warnings.simplefilter("error")  # a reflection warning is a reflection failure
        for t in insp.get_table_names():
            cols = [
                {"name": c["name"], "type": repr(c["type"]), "ddl": ddl_name(c["type"]), "nullable": bool(c["nullable"]), "default": c["default"], "pk": int(c["primary_key"])}
                for c in insp.get_columns(t)
            ]
            pk = insp.get_pk_constraint(t)
            fks = sorted(
                (
                    {"name": f["name"], "cols": list(f["constrained_columns"]), "rtable": f["referred_table"], "rcols": list(f["referred_columns"]),
                     "rschema": f.get("referred_schema"), "options": dict(sorted(f.get("options", {}).items()))}
                    for f in insp.get_foreign_keys(t)
                ),
                key=lambda f: json.dumps(f, sort_keys=True),
            )
            uqs = sorted(({"name": u["name"], "cols": list(u["column_names"])} for u in insp.get_unique_constraints(t)), key=lambda u: json.dumps(u, sort_keys=True))
            ixs = sorted(
                ({"name": i["name"], "cols": list(i["column_names"]), "unique": bool(i["unique"]),
                  "where": norm_sql(str(i.get("dialect_options", {}).get("sqlite_where", ""))) or None} for i in insp.get_indexes(t)),
                key=lambda i: i["name"],
            )
            cks = sorted(({"name": k["name"], "sql": strip_parens(k["sqltext"])} for k in insp.get_check_constraints(t)), key=lambda k: json.dumps(k, sort_keys=True))
            out[t] = {"cols": cols, "pk": {"name": pk.get("name"), "cols": list(pk.get("constrained_columns") or [])}, "fks": fks, "uqs": uqs, "ixs": ixs, "cks": cks}
    return out


def expected(spec):
    """what the definition says, in the shape of snapshot()"""
    d = sqlite_dialect()
    m = build(spec)
    ddlc = d.ddl_compiler(d, None)
    out = {}
    for t in spec["tables"]:
        tb = m.tables[(spec["schema"] + "." if spec.get("schema") else "") + t["name"]]
        pkcols = pk_order(t)
        cols = []
        for c in t["cols"]:
            col = tb.c[c["name"]]
            cols.append({
                "name": c["name"],
                "aff": sqlite_affinity(ddl_name(col.type, d)),
                "ddl": ddl_name(col.type, d),
                "nullable": bool(c["nullable"]) and not c["pk"],
                "default": ddlc.get_column_default_string(col),
                "pk": (pkcols.index(c["name"]) + 1) if c["pk"] else 0,
            })
        fks = []
        for f in t["fks"]:
            opts = {}
            if f["ondelete"] and f["ondelete"] != "NO ACTION":
                opts["ondelete"] = f["ondelete"]
            if f["onupdate"] and f["onupdate"] != "NO ACTION":
                opts["onupdate"] = f["onupdate"]
            if f["deferrable"] is not None:
                opts["deferrable"] = f["deferrable"]
            if f["initially"]:
                opts["initially"] = f["initially"]
            fks.append({"name": f["name"], "cols": f["cols"], "rtable": f["rtable"], "rcols": f["rcols"], "rschema": spec.get("schema"), "options": dict(sorted(opts.items()))})
        uqs = [{"name": u["name"], "cols": u["cols"]} for u in t["uqs"]] + [{"name": None, "cols": [c["name"]]} for c in t["cols"] if c.get("unique")]
        out[t["name"]] = {
            "cols": cols,
            "pk": {"name": t.get("pk_name") if pkcols else None, "cols": pkcols},
            "fks": sorted(fks, key=lambda f: json.dumps(f, sort_keys=True)),
            "uqs": sorted(uqs, key=lambda u: json.dumps(u, sort_keys=True)),
            "ixs": sorted(({"name": i["name"], "cols": i["cols"], "unique": bool(i["unique"]), "where": norm_sql(i.get("where")) or None} for i in t["ixs"]), key=lambda i: i["name"]),
            "cks": sorted(({"name": k["name"], "sql": strip_parens(k["sql"])} for k in t["cks"]), key=lambda k: json.dumps(k, sort_keys=True)),
        }
    return out


def compare(exp, got):
    """list of (key, detail)"""
    bad = []
    if sorted(exp) != sorted(got):
        return [("reflect-table-names", "expected %s got %s" % (sorted(exp), sorted(got)))]
    for t in exp:
        e, g = exp[t], got[t]
        if [c["name"] for c in e["cols"]] != [c["name"] for c in g["cols"]]:
            bad.append(("reflect-column-names", "%s: %s vs %s" % (t, [c["name"] for c in e["cols"]], [c["name"] for c in g["cols"]])))
            continue
        for ce, cg in zip(e["cols"], g["cols"]):
            if cg["ddl"] is None or sqlite_affinity(cg["ddl"]) != ce["aff"]:
                bad.append(("reflect-type-affinity", "%s.%s: defined %s (%s) reflected %s" % (t, ce["name"], ce["ddl"], ce["aff"], cg["type"])))
            if ce["nullable"] != cg["nullable"]:
                bad.append(("reflect-nullable", "%s.%s: %s vs %s" % (t, ce["name"], ce["nullable"], cg["nullable"])))
            if (ce["default"] is None) != (cg["default"] is None) or (ce["default"] is not None and strip_parens(ce["default"]) != strip_parens(cg["default"])):
                # SQLite itself drops the outer parentheses of DEFAULT (expr)
                bad.append(("reflect-server-default", "%s.%s: %r vs %r" % (t, ce["name"], ce["default"], cg["default"])))
            if ce["pk"] != cg["pk"]:
                bad.append(("reflect-primary-key", "%s.%s: pk position %s vs %s" % (t, ce["name"], ce["pk"], cg["pk"])))
        for part, key in (("pk", "reflect-primary-key"), ("fks", "reflect-foreign-keys"), ("uqs", "reflect-unique-constraints"), ("ixs", "reflect-indexes"), ("cks", "reflect-check-constraints")):
            if e[part] != g[part]:
                bad.append((key, "%s: defined %s reflected %s" % (t, json.dumps(e[part]), json.dumps(g[part]))))
    return bad


def check_spec(spec):
    """the property on the real code for one schema.  returns list of (key, detail)"""
    import sqlalchemy as sa

    bad = []
    eng = new_engine()
    try:
        m = build(spec)
        with warnings.catch_warnings():
            warnings.simplefilter("ignore")
            m.create_all(eng)
        try:
            snap1 = snapshot(eng, spec.get("schema"))
        except Warning as w:
            return [("reflect-warning", "%s: %s" % (type(w).__name__, w))]
        except Exception as e:  # noqa
            return [("reflect-exception", "%s: %s" % (type(e).__name__, e))]
        bad += compare(expected(spec), snap1)
        # Table(autoload_with=...) path + re-create + reflect again
        m2 = sa.MetaData()
        try:
            with warnings.catch_warnings():
                warnings.simplefilter("error")
                m2.reflect(eng, schema=spec.get("schema"))
        except Warning as w:
            return bad + [("reflect-warning", "MetaData.reflect: %s" % w)]
        except Exception as e:  # noqa
            return bad + [("reflect-exception", "MetaData.reflect %s: %s" % (type(e).__name__, e))]
        # the reflected Table objects themselves (Table(autoload_with=...) path), not the Inspector dicts
        pre = spec["schema"] + "." if spec.get("schema") else ""
        for t in spec["tables"]:
            rt = m2.tables.get(pre + t["name"])
            if rt is None:
                bad.append(("reflect-table-missing", "MetaData.reflect did not produce %r" % t["name"]))
                continue
            got_pk = [c.name for c in rt.primary_key.columns]
            if got_pk != pk_order(t):
                bad.append(("reflect-table-primary-key-order", "%s: declared PRIMARY KEY %s, reflected Table.primary_key %s" % (t["name"], pk_order(t), got_pk)))
            if [c.name for c in rt.columns] != [c["name"] for c in t["cols"]]:
                bad.append(("reflect-table-column-order", "%s: %s vs %s" % (t["name"], [c.name for c in rt.columns], [c["name"] for c in t["cols"]])))
            want_fk = sorted((tuple(f["cols"]), f["rtable"], tuple(f["rcols"])) for f in t["fks"])
            got_fk = sorted((tuple(fk.column_keys), fk.referred_table.name, tuple(e.column.name for e in fk.elements)) for fk in rt.foreign_key_constraints)
            if want_fk != got_fk:
                bad.append(("reflect-table-foreign-keys", "%s: declared %s, reflected Table has %s" % (t["name"], want_fk, got_fk)))
        eng2 = new_engine()
        try:
            try:
                with warnings.catch_warnings():
                    warnings.simplefilter("ignore")
                    m2.create_all(eng2)
            except Exception as e:  # noqa
                return bad + [("recreate-exception", "%s: %s" % (type(e).__name__, e))]
            try:
                snap2 = snapshot(eng2, spec.get("schema"))
            except Warning as w:
                return bad + [("reflect-warning", "second reflection: %s" % w)]
            if snap1 != snap2:
                for t in snap1:
                    if snap1[t] != snap2.get(t):
                        for part in snap1[t]:
                            if snap2.get(t) is None or snap1[t][part] != snap2[t][part]:
                                bad.append(("reflect-fixpoint-" + part, "%s: first %s second %s" % (t, json.dumps(snap1[t][part]), json.dumps((snap2.get(t) or {}).get(part)))))
                                break
                        break
        finally:
            eng2.dispose()
    finally:
        eng.dispose()
    return bad


# ------------------------------------------------------------------ generator
NAMES = ["a", "col1", "MixedCase", "has space", "select", "order", "table", "index", "check", "unique", "references", "primary", "constraint",
         "a-b", "UPPER", "x_y", "tableCHECK", "foreign", "key", "default", "not", "null", "1abc", "ünï", "on", "delete", "CamelTbl",
         "with,comma", "with(paren", "a)b", "semi;colon", "it's", "back`tick", "[br]", "tab\tname", "x unique y"]
SAFE_NAMES = NAMES[:27]
DEFAULTS = [None, None, None, ("str", "abc"), ("str", "it's"), ("str", "with space"), ("str", ""), ("text", "0"), ("text", "1.5"), ("text", "CURRENT_TIMESTAMP"),
            ("text", "(1 + 2)"), ("text", "'lit'"), ("text", "NULL"), ("text", "-1"), ("str", "a,b)c(")]
CHECKS = ["{c} > 0", "{c} IS NOT NULL", "{c} != 'a)b'", "length({c}) < 10", "({c} > 0) AND ({c} < 100)", "{c} IN (1, 2, 3)", "{c} <> 'it''s'",
          "{c} BETWEEN 1 AND 5 OR {c} IS NULL", "{c} LIKE 'a%'", "{c} NOT IN ('x', 'CONSTRAINT')"]
CHECK_IN_LITERAL = "{c} <> 'CHECK (x)'"  # known finding sqlite-check-keyword-inside-check-body
ACTIONS = [None, None, "CASCADE", "SET NULL", "SET DEFAULT", "RESTRICT", "NO ACTION"]


def quote_ident(name):
    return sqlite_dialect().identifier_preparer.quote(name)


def gen_spec(rng, nasty):
    pool = NAMES if nasty else SAFE_NAMES
    ntab = rng.randint(1, 3)
    tnames = rng.sample(pool, ntab)
    tables = []
    used_names = set(n.lower() for n in tnames)

    def fresh(prefix):
        while True:
            n = rng.choice(pool) if rng.random() < 0.5 else "%s%d" % (prefix, rng.randint(1, 99))
            if n.lower() not in used_names:
                used_names.add(n.lower())
                return n

    for tn in tnames:
        ncol = rng.randint(1, 5)
        cnames = []
        while len(cnames) < ncol:
            c = rng.choice(pool) if rng.random() < 0.6 else "c%d" % rng.randint(1, 30)
            if c.lower() not in [x.lower() for x in cnames]:
                cnames.append(c)
        npk = rng.choice([0, 1, 1, 2, 2, 3]) if ncol > 1 else rng.choice([0, 1])
        pkcols = rng.sample(cnames, min(npk, ncol))
        cols = []
        for c in cnames:
            pk = c in pkcols
            cols.append({"name": c, "type": rng.choice(TYPE_EXPRS), "nullable": (rng.random() < 0.6) and not pk, "pk": pk,
                         "default": None if pk else rng.choice(DEFAULTS), "unique": (not pk) and rng.random() < 0.12})
        t = {"name": tn, "cols": cols, "pk_name": fresh("pk") if (pkcols and rng.random() < 0.3) else None, "fks": [], "uqs": [], "ixs": [], "cks": []}
        if len(pkcols) > 1 and rng.random() < 0.7:
            order = list(pkcols)  # rng.sample order: usually not the column order
            if rng.random() < 0.5:
                order = [c for c in reversed(cnames) if c in pkcols]
            t["pk_order"] = order
        for _ in range(rng.choice([0, 0, 1, 2])):
            k = rng.randint(1, min(2, ncol))
            uc = rng.sample(cnames, k)
            if any(set(u["cols"]) == set(uc) for u in t["uqs"]) or (k == 1 and any(c["name"] == uc[0] and c.get("unique") for c in cols)) or set(uc) == set(pkcols):
                continue
            t["uqs"].append({"name": fresh("uq") if rng.random() < 0.6 else None, "cols": uc})
        for _ in range(rng.choice([0, 0, 1, 2])):
            k = rng.randint(1, min(2, ncol))
            t["ixs"].append({"name": fresh("ix"), "cols": rng.sample(cnames, k), "unique": rng.random() < 0.3,
                             "where": ("%s IS NOT NULL" % quote_ident(cnames[0])) if rng.random() < 0.2 else None})
        for _ in range(rng.choice([0, 0, 1, 2])):
            c = quote_ident(rng.choice(cnames))
            sql = (CHECK_IN_LITERAL if rng.random() < 0.03 else rng.choice(CHECKS)).format(c=c)
            if any(k["sql"] == sql for k in t["cks"]):
                continue
            t["cks"].append({"name": fresh("ck") if rng.random() < 0.6 else None, "sql": sql})
        tables.append(t)
    # foreign keys (targets: any table incl. self; column lists of equal length)
    for t in tables:
        for _ in range(rng.choice([0, 0, 1, 1, 2])):
            tgt = rng.choice(tables)
            if "." in tgt["name"]:
                continue
            k = rng.randint(1, min(2, len(t["cols"]), len(tgt["cols"])))
            lc = rng.sample([c["name"] for c in t["cols"]], k)
            rc = rng.sample([c["name"] for c in tgt["cols"]], k)
            if any("." in x for x in rc):
                continue
            if any(f["cols"] == lc and f["rtable"] == tgt["name"] and f["rcols"] == rc for f in t["fks"]):
                continue
            defer = rng.choice([None, None, None, True, False])
            t["fks"].append({"name": fresh("fk") if rng.random() < 0.6 else None, "cols": lc, "rtable": tgt["name"], "rcols": rc,
                             "ondelete": rng.choice(ACTIONS), "onupdate": rng.choice(ACTIONS), "deferrable": defer,
                             "initially": rng.choice([None, "DEFERRED", "IMMEDIATE"]) if defer else None})
    return {"tables": tables, "schema": "aux" if rng.random() < 0.25 else None}


def gen_type_strings(rng, n):
    words = ["INT", "INTEGER", "BIGINT", "CHAR", "VARCHAR", "NVARCHAR", "TEXT", "CLOB", "BLOB", "REAL", "FLOAT", "DOUBLE", "DOUBLE PRECISION", "NUMERIC",
             "DECIMAL", "BOOLEAN", "DATE", "DATETIME", "TIMESTAMP", "JSON", "JSONB", "TIME", "POINT", "FLOATING POINT", "CHARINT", "UNSIGNED BIG INT",
             "NATIVE CHARACTER", "VARYING CHARACTER", "STRING", "", "DATE_CHAR", "TINYINT", "MEDIUMINT", "INT2", "INT8", "XML", "BLOB SUB_TYPE", "UUID"]
    for w in words:
        for args in ("", "(10)", "(10, 2)", "(10,2)", " (5)", "()", "(x)", "(1,2,3)"):
            yield w + args
    for _ in range(n):
        yield "".join(rng.choice("ABCDEFINTRLOUX _09(),") for _ in range(rng.randint(0, 12)))


def enc(s):
    return "s:" + ".".join(str(ord(c)) for c in s)


def dec(tok):
    body = tok[2:]
    return "" if not body else "".join(chr(int(x)) for x in body.split("."))


def run(ctx, deep=False):
    thorough = ctx.tier == "thorough" or deep
    rng = ctx.rng
    ctx.rule = (
        "schemas of 1-3 tables, 1-5 columns over 45 type expressions, names from a pool of plain / mixed-case / reserved-word / spaced / punctuated identifiers "
        "(the `nasty` half adds commas, parentheses, quotes, brackets, tabs), single / composite / named primary keys, server defaults (strings with quotes, numbers, "
        "expressions, CURRENT_TIMESTAMP), inline and table-level UNIQUE, named / unnamed CHECK, plain / unique / partial indexes, single / two-column foreign keys incl. "
        "self references with every ON DELETE / ON UPDATE action and DEFERRABLE / INITIALLY; a case is non-trivial when it has a constraint or index beyond the PK"
    )
    ctx.trusted.append("SQLite (catalog, PRAGMA output) and pysqlite: the backend half of the property is executed, not modelled")
    ctx.assumptions.append("identifiers containing a double quote or a dot are not generated (FK/UNIQUE regexes and 'table.column' specs do not support them)")
    ctx.assumptions.append("PostgreSQL / MariaDB reflection queries cannot be executed offline: not covered")
    n = 1500 if thorough else 260
    for k in range(n):
        nasty = k % 2 == 1
        spec = gen_spec(rng, nasty)
        ntriv = any(t["fks"] or t["uqs"] or t["ixs"] or t["cks"] for t in spec["tables"])
        ctx.case(json.dumps(spec, sort_keys=True), nontrivial=ntriv)
        ctx.count("tables=%d" % len(spec["tables"]))
        ctx.count("nasty" if nasty else "plain")
        ctx.count("schema=%s" % spec.get("schema"))
        ctx.count("fks=%d" % sum(len(t["fks"]) for t in spec["tables"]))
        bad = check_spec(spec)
        for key, detail in bad:
            ctx.violation(classify(spec, key, detail), {"spec": spec}, detail)
        if not bad and ntriv and len(spec["tables"]) > 1:
            ctx.sample({"tables": [t["name"] for t in spec["tables"]], "fks": sum(len(t["fks"]) for t in spec["tables"])})
    # ---- model correspondence: _resolve_type_affinity and _find_cols_in_sig
    d = sqlite_dialect()
    cases, impl, reqs, post = [], [], [], []
    with warnings.catch_warnings():
        warnings.simplefilter("ignore")
        for s in gen_type_strings(rng, 3000 if thorough else 400):
            if len(re.findall(r"\d+", s)) > 2:
                continue  # the regenerated constructor table covers 0-2 integer arguments
            t = d._resolve_type_affinity(s)
            cases.append({"fn": "_resolve_type_affinity", "s": s})
            impl.append("%s %s" % (type(t).__name__, re.sub(r"\d+", "#", ddl_name(t, d) or "")))
            reqs.append("sqlitereflect resolve %s" % enc(s))
            post.append("resolve")
    pool = NAMES + ['a"b', "", " ", "x,y"]
    for _ in range(2000 if thorough else 400):
        names = [rng.choice(pool) for _ in range(rng.randint(0, 4))]
        r = rng.random()
        if r < 0.6:
            sig = ", ".join(quote_ident(x) if x else '""' for x in names)
        elif r < 0.8:
            sig = ",".join(('"%s"' % x) for x in names)
        else:
            sig = "".join(rng.choice('ab_1 ,"()') for _ in range(rng.randint(0, 10)))
        cases.append({"fn": "_find_cols_in_sig", "sig": sig})
        impl.append(",".join(enc(x) for x in d._find_cols_in_sig(sig)) or "-")
        reqs.append("sqlitereflect cols %s" % enc(sig))
        post.append("cols")
    if ctx.driver_ok():
        mo = []
        for kind, line in zip(post, ctx.driver(reqs)):
            if kind == "resolve":
                cls, n, ddl = line.split(" ")
                mo.append("%s %s" % (cls, re.sub(r"\d+", "#", dec(ddl)) if ddl != "?" else "?"))
            else:
                mo.append(line)
        ctx.correspond("corr/c15:sqlite-reflection-helpers-vs-Model.SqliteReflect", cases, impl, mo)
    ctx.exhaustive = False


def classify(spec, key, detail):
    """known findings are keyed by a predicate over the generated definition"""
    cks = [k["sql"] for t in spec["tables"] for k in t["cks"]]
    if any(re.search(r"check\s*\(", re.sub(r"^[^']*", "", sql), re.I) for sql in cks) and (
        key in ("reflect-check-constraints", "recreate-exception") or key.startswith("reflect-fixpoint")
    ):
        return "sqlite-check-keyword-inside-check-body"
    if key == "reflect-unique-constraints" and (
        any(")" in c for t in spec["tables"] for u in t["uqs"] for c in u["cols"])
        or any(")" in c["name"] and c.get("unique") for t in spec["tables"] for c in t["cols"])
    ):
        return "sqlite-unique-column-name-with-paren"
    return key


def search(ctx, broken):
    sub = type(ctx)(ctx.pid, "thorough", ctx.seed + 1, ctx.level)
    run(sub, deep=True)
    ctx.violations.extend(sub.violations)


def replay(ctx, obj):
    bad = check_spec(obj["case"]["spec"])
    for key, detail in bad:
        print("replay C15: %s: %s" % (key, detail[:400]))
    want = obj.get("key")
    return any(k == want for k, _ in bad) if want and want != "broken-obligation" else bool(bad)
