"""C08 — LIKE-based string operators with autoescape match literal semantics.

Model:    lean/SaVerif/Model/Like.lean  (transcription of operators._escaped_like_impl,
          of the compiler's '%' || ? || '%' renderings, and of SQLite's patternCompare;
          likeStd = SQL-standard matcher assumed for PostgreSQL / MySQL)
Gen:      lean/SaVerif/Gen/LikeDefaults.lean (default escape and the ("%", "_", escape) tuple,
          read by ast from sql/operators.py on every run)
Theorems: lean/SaVerif/Props/C08.lean

What runs on the real code
  * the twelve operators ((i)contains/(i)startswith/(i)endswith and their negations), built
    through four API paths, with autoescape / explicit escape / neither, are executed on
    in-memory SQLite (case_sensitive_like ON and OFF) over a table of adversarial rows
  * direct oracle (case_sensitive_like=ON): row matched  <=>  Python `in`/startswith/
    endswith (ASCII-folded for the i-variants), negated for the NOT operators
  * correspondence: escaped bind value + escape modifier vs `effective`; rows matched vs
    `evalSqlite` (both PRAGMA settings); raw `SELECT ? LIKE ? ESCAPE ?` vs `likeSqlite`
    (validates the backend model); PostgreSQL / MySQL compiled SQL parsed into a plan and
    evaluated with the standard matcher vs `evalStd`; CPython substring tests vs `pyTest`
"""
import ast
import itertools
import os
import re

PID = "C08"
LEVEL = "proof"
LEAN = ["SaVerif.Props.C08"]
META = {
    "text": "Lean theorems for every operand, every text and every ordinary escape character: the pattern rendered for (i)contains/(i)startswith/(i)endswith and their negations with autoescape matches under SQLite's patternCompare (transcribed, both case_sensitive_like settings) and under the SQL-standard matcher exactly when the Python substring/prefix/suffix test holds; autoescape_default_correct has no side condition. The two excluded shapes (escape '%', letter escapes under lower()-rendered i-variants) each have a proved counterexample that replays on the real code as a known finding. The model is tied to the code by a translator for the constants of _escaped_like_impl, by an exact differential on the escaped bind values, and by executing all twelve operators on SQLite against both the model and the direct Python oracle; the SQLite matcher model itself is validated against the real library on every run.",
    "note": "Theorems ending in _partial carry the forced hypotheses (escape != '%', Caseless escape for lower()-rendered i-variants). Modelled-not-verified: PostgreSQL/MySQL LIKE semantics (likeStd; rendering is real, compiled in-process, semantics assumed; MySQL's implicit backslash escape without an ESCAPE clause is not modelled), U+0000 in patterns, SQLITE_MAX_LIKE_PATTERN_LENGTH, multi-character escape strings (SQLite raises; checked in the malformed stream), non-ASCII case folding (SQLite lower() is ASCII-only, as the property states).",
    "technique": "Lean 4 proof by induction on the operand over a transcription of SQLite patternCompare + translator for the escape constants + differential execution on SQLite",
    "design_ref": "DESIGN.md §3 C08",
}

KINDS = ("contains", "startswith", "endswith")
ALPHA = ["%", "_", "/", "\\", "'", '"', "a", "A", "b", "B", "^", "é", "É", " ", "z", "Z"]
CORE = ["%", "_", "/", "a", "A", "b"]
ESCAPES = [None, "/", "\\", "^", "'", "!", "#", "é", "%", "_", "a", "A", "Z", "b"]


# one fixed witness per known-finding shape (= the Lean `_counterexample` theorems), run first
KNOWN_CASES = [
    {"kind": "contains", "icase": False, "neg": False, "path": 0, "mode": "auto", "escape": "%", "autoescape": True, "other": "a", "q": "a", "rows": ["a", "xay", "b"]},
    {"kind": "contains", "icase": True, "neg": False, "path": 0, "mode": "auto", "escape": "a", "autoescape": True, "other": "Ab", "q": "Ab", "rows": ["b", "ab", "xABy"]},
    {"kind": "contains", "icase": True, "neg": False, "path": 0, "mode": "auto", "escape": "A", "autoescape": True, "other": "xAy", "q": "xAy", "rows": ["xay", "xAy", "xy"]},
]


# ------------------------------------------------------------------ small helpers
def enc(s):
    return "s:" + ".".join(str(ord(c)) for c in s)


def dec(tok):
    body = tok[2:]
    return "" if not body else "".join(chr(int(x)) for x in body.split("."))


def enc_esc(e):
    return "N" if e is None else str(ord(e))


def enc_list(l):
    return ",".join(enc(x) for x in l) if l else "-"


def ascii_lower(s):
    return "".join(chr(ord(c) + 32) if "A" <= c <= "Z" else c for c in s)


def py_test(kind, p, s):
    """the property's right-hand side: CPython's own substring tests"""
    if kind == "contains":
        return p in s
    if kind == "startswith":
        return s.startswith(p)
    return s.endswith(p)


def py_lit(esc, q):
    """independent statement of what a correctly escaped operand looks like"""
    return "".join((esc + c) if c in (esc, "%", "_") else c for c in q)


def std_like(nc, esc, pat, s):
    """SQL-standard LIKE (escape first), used to evaluate PG/MySQL render plans"""
    eq = (lambda a, b: ascii_lower(a) == ascii_lower(b)) if nc else (lambda a, b: a == b)

    def go(i, j):
        while i < len(pat):
            c = pat[i]
            if esc is not None and c == esc:
                if i + 1 >= len(pat) or j >= len(s) or not eq(pat[i + 1], s[j]):
                    return False
                i, j = i + 2, j + 1
            elif c == "%":
                return any(go(i + 1, k) for k in range(j, len(s) + 1))
            else:
                if j >= len(s) or not (c == "_" or eq(c, s[j])):
                    return False
                i, j = i + 1, j + 1
        return j == len(s)

    return go(0, 0)


def default_escape():
    from sqlalchemy.sql import operators

    return operators._escaped_like_impl(lambda o, escape=None: escape, "", None, True)


def effective_escape(case):
    if case["autoescape"]:
        return case["escape"] if case["escape"] is not None else case.get("_default", "/")
    return case["escape"]


def classify(case):
    """key of the known finding whose input shape this case has, else None"""
    e = effective_escape(case)
    if e is None:
        return None
    if e == "%":
        return "escape-is-percent"
    if case["icase"] and e.isascii() and e.isalpha() and case.get("backend", "sqlite") != "postgresql":
        return "icase-lower-rendering-letter-escape"
    return None


# ------------------------------------------------------------------ translator
def _read_constants():
    """default escape and the members of the tuple in
    `escape + char if char in ("%", "_", escape) else char` (by ast)"""
    from harness import vlib

    fn = os.path.join(vlib.REPO, "lib", "sqlalchemy", "sql", "operators.py")
    tree = ast.parse(open(fn).read())
    f = [n for n in tree.body if isinstance(n, ast.FunctionDef) and n.name == "_escaped_like_impl"][0]
    default = members = None
    for node in ast.walk(f):
        if isinstance(node, ast.If) and isinstance(node.test, ast.Compare):
            t = node.test
            if (
                isinstance(t.left, ast.Name)
                and t.left.id == "escape"
                and len(t.ops) == 1
                and isinstance(t.ops[0], ast.Is)
                and isinstance(t.comparators[0], ast.Constant)
                and t.comparators[0].value is None
            ):
                a = node.body[0]
                if isinstance(a, ast.Assign) and isinstance(a.value, ast.Constant) and isinstance(a.value.value, str) and len(a.value.value) == 1:
                    default = a.value.value
        if isinstance(node, ast.IfExp) and isinstance(node.test, ast.Compare) and len(node.test.ops) == 1 and isinstance(node.test.ops[0], ast.In):
            var = node.test.left
            tup = node.test.comparators[0]
            if isinstance(var, ast.Name) and isinstance(tup, (ast.Tuple, ast.List, ast.Set)):
                ok = ast.unparse(node.body).replace(" ", "") == "escape+" + var.id and ast.unparse(node.orelse) == var.id
                lits, has_escape = [], False
                for e in tup.elts:
                    if isinstance(e, ast.Constant) and isinstance(e.value, str) and len(e.value) == 1:
                        lits.append(e.value)
                    elif isinstance(e, ast.Name) and e.id == "escape":
                        has_escape = True
                    else:
                        ok = False
                if ok:
                    members = (lits, has_escape)
    if default is None or members is None:
        raise ValueError("shape of _escaped_like_impl not recognised: default=%r members=%r" % (default, members))
    return default, sorted(set(members[0])), members[1]  # `in` on a tuple: order and repeats are irrelevant


def gen(ctx):
    try:
        default, lits, has_escape = _read_constants()
    except Exception as e:  # keep the committed table; the bind-value correspondence still ties model to code
        ctx.assumptions.append("translator could not read _escaped_like_impl (%s); committed Gen/LikeDefaults.lean kept" % e)
        return

    def cl(xs):
        return "[" + ", ".join("Char.ofNat %d" % ord(x) for x in xs) + "]"

    ctx.write_gen(
        "LikeDefaults",
        "/-! constants read (by `ast`) from `_escaped_like_impl` in lib/sqlalchemy/sql/operators.py -/\n"
        "namespace SaVerif.Gen.LikeDefaults\n\n"
        '/-- `if escape is None: escape = "/"` -/\n'
        "def defaultEscape : Char := Char.ofNat %d\n\n"
        '/-- literal members of the tuple in `char in ("%%", "_", escape)` -/\n'
        "def escapedChars : List Char := %s\n\n"
        "/-- the tuple also names `escape` itself -/\n"
        "def escapesEscape : Bool := %s\n\n"
        "end SaVerif.Gen.LikeDefaults\n" % (ord(default), cl(lits), "true" if has_escape else "false"),
    )


# ------------------------------------------------------------------ real code
class Backend:
    """two in-memory SQLite engines (case_sensitive_like ON / OFF) with table t(id, s)"""

    def __init__(self):
        from sqlalchemy import Column, Integer, MetaData, String, Table, create_engine, event
        from sqlalchemy.pool import StaticPool

        self.md = MetaData()
        self.t = Table("t", self.md, Column("id", Integer, primary_key=True), Column("s", String))
        self.conns = {}
        for cs in (True, False):
            eng = create_engine("sqlite://", poolclass=StaticPool)

            @event.listens_for(eng, "connect")
            def _pragma(dbapi_conn, rec, cs=cs):
                dbapi_conn.execute("PRAGMA case_sensitive_like=%s" % ("ON" if cs else "OFF"))

            self.md.create_all(eng)
            self.conns[cs] = eng.connect()
        self.rows = None

    def load(self, rows):
        if rows == self.rows:
            return
        for c in self.conns.values():
            c.execute(self.t.delete())
            if rows:
                c.execute(self.t.insert(), [{"id": i, "s": s} for i, s in enumerate(rows)])
        self.rows = list(rows)

    def matched(self, cs, expr, n):
        from sqlalchemy import select

        ids = set(self.conns[cs].execute(select(self.t.c.id).where(expr)).scalars())
        return "".join("1" if i in ids else "0" for i in range(n))

    def matched_again(self, cs, expr, n):
        """the SAME expression object compiled again: stringified (as logging does), then reused
        in a second statement executed without the compiled cache"""
        from sqlalchemy import select

        stmt = select(self.t.c.id, self.t.c.s).where(expr)
        str(stmt.compile(dialect=self.conns[cs].dialect))
        rows = self.conns[cs].execution_options(compiled_cache=None).execute(stmt).all()
        ids = {r[0] for r in rows}
        return "".join("1" if i in ids else "0" for i in range(n))

    def raw_like(self, cs, text, pat, esc):
        c = self.conns[cs].connection.driver_connection
        if esc is None:
            return c.execute("select ? like ?", (text, pat)).fetchone()[0]
        return c.execute("select ? like ? escape ?", (text, pat, esc)).fetchone()[0]

    def close(self):
        for c in self.conns.values():
            c.close()


def build_expr(col, case):
    """the operator under test through one of four API paths"""
    from sqlalchemy import not_
    from sqlalchemy.sql import operators

    name = ("i" if case["icase"] else "") + case["kind"]
    kw = {}
    if case["escape"] is not None:
        kw["escape"] = case["escape"]
    if case["autoescape"]:
        kw["autoescape"] = True
    other = case["other"]
    path = case["path"]
    pos = getattr(operators, name + "_op")
    neg = getattr(operators, "not_" + name + "_op")
    if path == 0:
        e = getattr(col, name)(other, **kw)
        return ~e if case["neg"] else e
    if path == 1:
        return (neg if case["neg"] else pos)(col, other, **kw)
    if path == 2:
        return col.operate(neg if case["neg"] else pos, other, **kw)
    e = getattr(col, name)(other, **kw)
    return not_(e) if case["neg"] else e


def bind_of(expr):
    """(bind value, escape modifier) of the binary expression the operators built"""
    r = expr.right
    val = getattr(r, "value", None)
    return val, expr.modifiers.get("escape", None)


def expected_bits(case):
    q = case["q"]
    out = []
    for s in case["rows"]:
        if case["icase"]:
            m = py_test(case["kind"], ascii_lower(q), ascii_lower(s))
        else:
            m = py_test(case["kind"], q, s)
        out.append("1" if (m != case["neg"]) else "0")
    return "".join(out)


def check_case(be, case):
    """run one case on the real code.  Returns dict(bind, esc, cs_bits, ci_bits, why)"""
    expr = build_expr(be.t.c.s, case)
    bind, esc = bind_of(expr)
    be.load(case["rows"])
    n = len(case["rows"])
    cs_bits = be.matched(True, expr, n)
    ci_bits = be.matched(False, expr, n)
    cs_again = be.matched_again(True, expr, n)
    exp = expected_bits(case)
    why = None
    again = ""
    if cs_bits == exp and cs_again != exp:
        cs_bits, again = cs_again, "[same expression object compiled a second time] "
    if cs_bits != exp:
        k = [i for i in range(n) if cs_bits[i] != exp[i]][0]
        why = again + "%s%s%s(%r, escape=%r, autoescape=%r) on row %r: SQLite %s, Python test on %r says %s" % (
            "NOT " if case["neg"] else "",
            "i" if case["icase"] else "",
            case["kind"],
            case["other"],
            case["escape"],
            case["autoescape"],
            case["rows"][k],
            "matched" if cs_bits[k] == "1" else "did not match",
            case["q"],
            "match" if exp[k] == "1" else "no match",
        )
    return {"bind": bind, "esc": esc, "cs": cs_bits, "ci": ci_bits, "why": why}


# ------------------------------------------------------------------ PG / MySQL plans
_BIND = r"(?:%\(\w+\)s(?:::VARCHAR)?|%s|:\w+|\?)"


def render_plan(expr, dialect):
    """compile for a dialect without a server and parse `… [NOT] [I]LIKE … [ESCAPE 'x']`
    into (lower_left, neg, ilike, parts, esc); parts: '%' | ('bind', lowered).  None if the
    text does not have the expected overall shape."""
    comp = expr.compile(dialect=dialect)
    sql = str(comp)
    if dialect.paramstyle in ("pyformat", "format"):
        sql = re.sub(r"%%", "%", sql)
    m = re.match(r"^(lower\()?(?:t\.)?s(\))? (NOT )?(I?LIKE) (.*?)(?: ESCAPE '(.*)')?$", sql, re.S)
    if not m or bool(m.group(1)) != bool(m.group(2)):
        return None, sql, None
    lower_left, neg, ilike, rhs, esc = bool(m.group(1)), bool(m.group(3)), m.group(4) == "ILIKE", m.group(5), m.group(6)
    if esc is not None:
        esc = esc.replace("''", "'")
        if getattr(dialect, "_backslash_escapes", False):
            esc = esc.replace("\\\\", "\\")
    if rhs.startswith("concat(") and rhs.endswith(")"):
        items = [x.strip() for x in rhs[len("concat(") : -1].split(", ")]
    else:
        items = [x.strip() for x in rhs.split(" || ")]
    parts = []
    for it in items:
        if it == "'%'":
            parts.append("%")
        elif re.fullmatch(_BIND, it):
            parts.append(("bind", False))
        elif re.fullmatch(r"lower\(" + _BIND + r"\)", it):
            parts.append(("bind", True))
        else:
            return None, sql, None
    vals = list(comp.params.values())
    if len(vals) != 1:
        return None, sql, None
    return (lower_left, neg, ilike, parts, esc), sql, vals[0]


def eval_plan(plan, bind, s):
    lower_left, neg, ilike, parts, esc = plan
    pat = "".join(p if p == "%" else (ascii_lower(bind) if p[1] else bind) for p in parts)
    txt = ascii_lower(s) if lower_left else s
    if esc is not None and len(esc) != 1:
        return None
    m = std_like(ilike, esc, pat, txt)
    return m != neg


# ------------------------------------------------------------------ generators
def gen_text(rng, n, alpha):
    return "".join(rng.choice(alpha) for _ in range(n))


def make_rows(rng, q, esc, extra=8):
    """rows adversarial for operand q: q itself, embedded, wildcard-substituted, case-swapped"""
    rows = {"", q, "x" + q, q + "x", "x" + q + "y", q + q, ascii_lower(q), q.swapcase()}
    e = esc or "/"
    for i, c in enumerate(q):
        for r in ("x", "", "%", "_", e, "xy"):
            rows.add(q[:i] + r + q[i + 1 :])
        rows.add("ab" + q[:i] + "Q" + q[i:] + "cd")
        rows.add(q[:i] + e + q[i:])
    rows.add(py_lit(e, q))
    rows.add(e + q)
    rows.add(q + e)
    rows.add("_" + q)
    rows.add("%" + q + "%")
    for _ in range(extra):
        rows.add(gen_text(rng, rng.randint(0, 5), CORE if rng.random() < 0.6 else ALPHA))
    rows = sorted(rows)
    if len(rows) > 40:
        keep = {"", q, "x" + q, q + "x", "x" + q + "y"}
        rest = [r for r in rows if r not in keep]
        rng.shuffle(rest)
        rows = sorted(keep | set(rest[: 40 - len(keep)]))
    return rows


def gen_case(rng, default):
    kind = rng.choice(KINDS)
    icase = rng.random() < 0.45
    neg = rng.random() < 0.4
    path = rng.randrange(4)
    mode = rng.choices(["auto", "manual", "plain"], [0.7, 0.2, 0.1])[0]
    esc = rng.choice(ESCAPES) if rng.random() < 0.75 else rng.choice([None, "/", "\\", "^"])
    n = rng.choice([0, 1, 1, 2, 2, 3, 3, 4, 5])
    alpha = list(CORE if rng.random() < 0.6 else ALPHA)
    if esc:
        alpha += [esc, esc]
    q = gen_text(rng, n, alpha)
    if mode == "auto":
        other, autoescape = q, True
    elif mode == "manual":
        if esc is None:
            esc = "/"
        other, autoescape = py_lit(esc, q), False
    else:
        q = "".join(c for c in q if c not in "%_")
        esc = rng.choice([None, "^"])
        if esc:
            q = q.replace(esc, "")
        other, autoescape = q, False
    case = {
        "kind": kind,
        "icase": icase,
        "neg": neg,
        "path": path,
        "mode": mode,
        "escape": esc,
        "autoescape": autoescape,
        "other": other,
        "q": q,
        "_default": default,
    }
    case["rows"] = make_rows(rng, q, effective_escape(case))
    return case


def small_scope(default, escapes=(None, "^"), alpha="%_/a", maxlen=3, rows_alpha="%_/aA", rows_max=3):
    rows = [""] + ["".join(t) for n in range(1, rows_max + 1) for t in itertools.product(rows_alpha, repeat=n)]
    for esc in escapes:
        for n in range(0, maxlen + 1):
            for t in itertools.product(alpha + (esc or ""), repeat=n):
                q = "".join(t)
                for kind in KINDS:
                    for icase in (False, True):
                        for neg in (False, True):
                            yield {
                                "kind": kind,
                                "icase": icase,
                                "neg": neg,
                                "path": (len(q) + neg) % 4,
                                "mode": "auto",
                                "escape": esc,
                                "autoescape": True,
                                "other": q,
                                "q": q,
                                "_default": default,
                                "rows": rows,
                            }


def model_req(backend, case):
    return "like op %s %s %d %d %s %d %s %s" % (
        backend,
        case["kind"],
        case["icase"],
        case["neg"],
        enc_esc(case["escape"]),
        case["autoescape"],
        enc(case["other"]),
        enc_list(case["rows"]),
    )


def pub(case):
    return {k: v for k, v in case.items() if not k.startswith("_")}


# ------------------------------------------------------------------ run
def run(ctx, deep=False):
    from sqlalchemy.dialects import mysql, postgresql

    thorough = ctx.tier == "thorough" or deep
    ctx.rule = (
        "random cases: operator (3 kinds x i-variant x negation) x API path (method/~, operators.*_op, operate, not_) x "
        "mode (autoescape 70% / caller-escaped operand with explicit escape 20% / neither 10%) x escape from "
        "{None,/,\\,^,',!,#,e-acute,%,_,a,A,Z,b} x operand of length 0-5 over an alphabet of %, _, escape, quotes, "
        "backslash, mixed-case ASCII and non-ASCII letters, each against <=40 rows derived from the operand "
        "(embedded, wildcard-substituted, case-swapped, escape-inserted) plus random rows; exhaustive small scope: "
        "all operands of length <=2 (quick) / <=3 (thorough) over {%,_,/,a,escape} x 12 operators x escapes "
        "{None,^} against all rows of length <=3 over {%,_,/,a,A}; a case is non-trivial when the operand "
        "contains %, _ or the escape character; distinct = distinct (operator, kwargs, operand)"
    )
    ctx.trusted.append("PostgreSQL / MySQL LIKE semantics (likeStd) are modelled from documentation, not validated against a server; their rendering is real")
    ctx.trusted.append("SQLite 3.x patternCompare transcription (validated against the real library by corr/c08:sqlite-like-matcher on every run)")
    ctx.assumptions.append("no U+0000 in operands; patterns shorter than SQLITE_MAX_LIKE_PATTERN_LENGTH; single-character escape")
    default = default_escape()
    be = Backend()
    try:
        cases = [dict(c, _default=default) for c in KNOWN_CASES]
        ncase = 8000 if thorough else 1500
        for _ in range(ncase):
            cases.append(gen_case(ctx.rng, default))
        cases += list(small_scope(default, maxlen=3 if thorough else 2))
        if thorough:
            cases += list(small_scope(default, escapes=("_", "%", "a"), maxlen=2, rows_max=2))

        c_bind, i_bind, r_bind = [], [], []
        c_rows, i_rows, r_rows = [], [], []
        hist = []  # construction parameters of the preceding cases (compiled-cache state for replay)
        for case in cases:
            key = classify(case)
            res = check_case(be, case)
            if res["why"] and not key:
                iso = Backend()
                try:
                    alone = check_case(iso, case)["why"] is not None
                finally:
                    iso.close()
                if not alone:  # fails only after the preceding statements: keep them for the replay
                    case = dict(case, history=hist[-60:])
            hist.append({k: v for k, v in pub(case).items() if k not in ("rows", "history")})
            special = any(c in case["q"] for c in ("%", "_", effective_escape(case) or "%"))
            ctx.case((case["kind"], case["icase"], case["neg"], case["escape"], case["autoescape"], case["other"]), nontrivial=special)
            ctx.count("mode=" + case["mode"])
            ctx.count("op=%s%s%s" % ("not_" if case["neg"] else "", "i" if case["icase"] else "", case["kind"]))
            ctx.count("escape=%s" % ("None" if case["escape"] is None else case["escape"]))
            ctx.count("operand_len=%d" % len(case["q"]))
            if key:
                ctx.count("known-shape=" + key)
            if res["why"]:
                ctx.violation(key or "c08-oracle:%s%s%s" % ("not_" if case["neg"] else "", "i" if case["icase"] else "", case["kind"]), pub(case), res["why"])
            elif special and len(case["q"]) >= 3:
                ctx.sample({"op": ("i" if case["icase"] else "") + case["kind"], "neg": case["neg"], "other": case["other"], "escape": case["escape"], "autoescape": case["autoescape"], "bind": res["bind"], "rows": case["rows"][:6], "matched": res["cs"][:6]})
            if key is None:
                # correspondence is claimed outside the known-finding shapes only
                c_bind.append(pub(case))
                i_bind.append("%s %s" % (enc(res["bind"]) if isinstance(res["bind"], str) else "non-str", enc_esc(res["esc"])))
                r_bind.append("like escape %s %d %s" % (enc_esc(case["escape"]), case["autoescape"], enc(case["other"])))
                for cs, backend, bits in ((True, "sqlite-cs", res["cs"]), (False, "sqlite-ci", res["ci"])):
                    c_rows.append(dict(pub(case), backend=backend))
                    i_rows.append(bits if bits else "-")
                    r_rows.append(model_req(backend, case))

        # ---- raw LIKE: validates the SQLite matcher model
        c_raw, i_raw, r_raw = [], [], []
        nraw = 40000 if thorough else 5000
        for _ in range(nraw):
            esc = ctx.rng.choice([None, "/", "%", "_", "\\", "a", "A", "'", "^", "é"])
            al = CORE if ctx.rng.random() < 0.7 else ALPHA
            pat = gen_text(ctx.rng, ctx.rng.randint(0, 7), al + ([esc] if esc else []))
            txt = gen_text(ctx.rng, ctx.rng.randint(0, 7), al)
            cs = ctx.rng.random() < 0.5
            c_raw.append({"cs": cs, "esc": esc, "pat": pat, "text": txt})
            i_raw.append(str(be.raw_like(cs, txt, pat, esc)))
            r_raw.append("like sqlite %d %s %s %s" % (not cs, enc_esc(esc), enc(pat), enc(txt)))
        for esc in (None, "/", "%", "_"):
            for n in range(0, 5 if thorough else 4):
                for t in itertools.product("%_/a", repeat=n):
                    pat = "".join(t)
                    for txt in ("", "a", "/", "%", "_", "aa", "a/", "_a", "%a", "a%", "/a/"):
                        c_raw.append({"cs": True, "esc": esc, "pat": pat, "text": txt})
                        i_raw.append(str(be.raw_like(True, txt, pat, esc)))
                        r_raw.append("like sqlite 0 %s %s %s" % (enc_esc(esc), enc(pat), enc(txt)))
        ctx.count("raw_like_cases", len(c_raw))

        # ---- PostgreSQL / MySQL: real rendering, assumed semantics
        c_std, i_std, r_std = [], [], []
        dialects = (("postgresql", postgresql.dialect(), "std-ilike"), ("mysql", mysql.dialect(), "std-lower"))
        nstd = 0
        for case in cases[: (3000 if thorough else 700)]:
            for dname, d, backend in dialects:
                c2 = dict(case, backend=dname)
                expr = build_expr(be.t.c.s, case)
                plan, sql, bind = render_plan(expr, d)
                if plan is None:
                    ctx.count("std-render-unparsed")
                    if not any(a.startswith("unparsed") for a in ctx.assumptions):
                        ctx.assumptions.append("unparsed %s rendering skipped: %s" % (dname, sql[:120]))
                    continue
                bits = "".join("1" if eval_plan(plan, bind, s) else "0" for s in case["rows"])
                exp = expected_bits(case)
                key = classify(c2)
                nstd += 1
                if bits != exp:
                    k = [i for i in range(len(exp)) if bits[i] != exp[i]][0]
                    ctx.violation(
                        key or "c08-%s-render:%s%s%s" % (dname, "not_" if case["neg"] else "", "i" if case["icase"] else "", case["kind"]),
                        pub(c2),
                        "%s renders %r with bind %r; under standard LIKE semantics row %r %s but the Python test on %r says %s"
                        % (dname, sql, bind, case["rows"][k], "matches" if bits[k] == "1" else "does not match", case["q"], "match" if exp[k] == "1" else "no match"),
                    )
                if key is None:
                    c_std.append(pub(c2))
                    i_std.append(bits if bits else "-")
                    r_std.append(model_req(backend, case))
        ctx.count("std_render_cases", nstd)

        # ---- the spec side: model pyTest vs CPython
        c_py, i_py, r_py = [], [], []
        for case in cases[:: 3 if thorough else 7]:
            for s in case["rows"][:10]:
                c_py.append({"kind": case["kind"], "p": case["q"], "s": s})
                i_py.append("1" if py_test(case["kind"], case["q"], s) else "0")
                r_py.append("like py %s %s %s" % (case["kind"], enc(case["q"]), enc(s)))

        # ---- malformed stream: what the real code rejects, the driver must reject
        c_bad, i_bad, r_bad = [], [], []
        for other, esc, tok_other, tok_esc in ((5, None, "i:5", "N"), (None, "/", "none", "47"), (b"a%", None, "b:97.37", "N"), ("a", "//", enc("a"), "47.47"), ("a", "", enc("a"), "")):
            case = {"kind": "contains", "icase": False, "neg": False, "path": 0, "escape": esc, "autoescape": True, "other": other, "rows": ["a"]}
            try:
                expr = build_expr(be.t.c.s, case)
                be.load(["a"])
                be.matched(True, expr, 1)
                out = "accepted"
            except Exception as e:
                out = "bad-op"
                ctx.count("malformed=" + type(e).__name__)
            c_bad.append({"other": repr(other), "escape": esc})
            i_bad.append(out)
            r_bad.append(("like escape %s 1 %s" % (tok_esc, tok_other)).rstrip())

        if ctx.driver_ok():
            ctx.correspond("corr/c08:escaped-bind-vs-Model.Like.effective", c_bind, i_bind, ctx.driver(r_bind))
            ctx.correspond("corr/c08:sqlite-rows-vs-Model.Like.evalSqlite", c_rows, i_rows, ctx.driver(r_rows))
            ctx.correspond("corr/c08:sqlite-like-matcher-vs-Model.Like.likeSqlite", c_raw, i_raw, ctx.driver(r_raw))
            ctx.correspond("corr/c08:pg-mysql-plan-vs-Model.Like.evalStd", c_std, i_std, ctx.driver(r_std))
            ctx.correspond("corr/c08:cpython-vs-Model.Like.pyTest", c_py, i_py, ctx.driver(r_py))
            ctx.correspond("corr/c08:malformed", c_bad, i_bad, ctx.driver(r_bad))
    finally:
        be.close()
    ctx.exhaustive = False


def search(ctx, broken):
    """an obligation broke and the normal run found nothing: bigger budget + deeper small scope"""
    sub = type(ctx)(ctx.pid, "thorough", ctx.seed + 1, ctx.level)
    run(sub, deep=True)
    ctx.violations.extend(sub.violations)


def replay(ctx, obj):
    case = dict(obj["case"])
    case["_default"] = default_escape()
    backend = case.get("backend", "sqlite")
    if backend == "sqlite":
        be = Backend()
        try:
            for h in case.get("history", []):
                try:
                    check_case(be, dict(h, rows=["", h["q"]], _default=case["_default"]))
                except Exception:
                    pass
            res = check_case(be, case)
        finally:
            be.close()
        print("replay C08 %s -> bind=%r escape=%r matched=%s expected=%s ; oracle: %s" % (pub(case), res["bind"], res["esc"], res["cs"], expected_bits(case), res["why"]))
        return res["why"] is not None
    from sqlalchemy import Column, Integer, MetaData, String, Table
    from sqlalchemy.dialects import mysql, postgresql

    t = Table("t", MetaData(), Column("id", Integer, primary_key=True), Column("s", String))
    d = postgresql.dialect() if backend == "postgresql" else mysql.dialect()
    plan, sql, bind = render_plan(build_expr(t.c.s, case), d)
    if plan is None:
        print("replay C08: rendering not parsed: %s" % sql)
        return False
    bits = "".join("1" if eval_plan(plan, bind, s) else "0" for s in case["rows"])
    print("replay C08 %s -> %s bind=%r plan-result=%s expected=%s" % (pub(case), sql, bind, bits, expected_bits(case)))
    return bits != expected_bits(case)
