"""C54 — utility collections conform to their reference models.

Models: lean/SaVerif/Model/{OrderedSet,IdentitySet,ImmDict,Lru}.lean (hand transcriptions of
util/_collections_cy.py, util/_immutabledict_cy.py, util/_collections.py LRUCache)
Theorems: lean/SaVerif/Props/C54.lean
Correspondence: operation sequences over several live objects with arguments of every
accepted kind, trace (return value / exception + full state of every live object after each
step) compared with the Lean driver.
Direct oracle: independent Python reference semantics (insertion-ordered set, id-keyed set,
dict merge, LRU recency bookkeeping) checked after every step on the real objects.
"""
import json
import types

PID = "C54"
LEVEL = "proof"
LEAN = ["SaVerif.Props.C54", "SaVerif.Props.C54MT", "SaVerif.Props.C54Merge"]
META = {
    "text": "Lean theorems, all for arbitrary operation sequences / arbitrary arguments: OrderedSet — the representation invariant (_list duplicate-free and equal as a set to the builtin-set part) is preserved by every method over any number of live sets with arguments of every kind (orderedset_inv), the iteration order of every live set after any history equals the insertion-ordered-set reference run (orderedset_refines_reference), every method's iteration order equals the insertion-ordered-set reference (survivors keep their order, new elements by first occurrence: *_spec, orderedset_order_is_first_insertion) and results are the mathematical set operations (*_mem); IdentitySet — no id held twice after any sequence, each operation is the set operation on ids, comparisons decide the set relations, order is first insertion; immutabledict — union/merge_with contents and key order equal the plain left-to-right merge whichever object (self / an argument / a fresh dict) is returned, lookup gives the last defining argument; LRUCache — one entry per key and unique counters after any history, size <= capacity*(1+threshold) after every __setitem__, the _manage_size loop terminates after one pass, evicted entries are strictly older than retained ones, the key just set survives, get/[] return only the value most recently stored under that key; under threads (Props/C54MT, a transition system with one atomic shared access per step, any number of threads, no fairness) every interleaving satisfies: get returns only values stored under the requested key, the try-lock section is mutually exclusive, and len - (threads owing a prune + failed try-locks) <= capacity*(1+threshold) — the sequential bound itself is proved NOT to be an invariant under threads (lru_mt_size_bound_is_tight); merge_lists_w_ordering (Props/C54Merge, same anchored file) — for all duplicate-free lists the result holds exactly the elements of both, each once (merge_mem, merge_nodup, merge_perm, merge_length), for all lists it is a ++ b when nothing is shared and what only one list has keeps its order there (merge_disjoint, merge_order_left/right). The five models are hand transcriptions tied to the pure-Python source by differential runs (random operation sequences plus exhaustive small scope, every live object observed after every step) and an independent Python reference oracle checks the property itself on the real objects.",
    "note": "Trusted / modelled-not-verified: Lean kernel; builtin set/dict/list semantics (modelled as lists, validated by the correspondence); stdlib MutableMapping mixins used by LRUCache; the correspondence harness (differential). LRUCache threshold restricted to non-negative dyadic rationals; re-entrant size_alert not modelled; the threaded model trusts that sorted(dict.values()) is atomic under the GIL and is tied to the code by running small thread programs under the cooperative scheduler (line-granularity switches) and checking that every observed outcome is in the model's exhaustively explored reachable set. No _partial theorems: F9 (symmetric_difference_update duplicates) and F18 (IdentitySet.__ixor__ no-op) are fixed in /repo; symdiff_update_nodedup_counterexample proves the pre-fix variant violates the invariant.",
    "technique": "Lean 4 invariant/refinement proofs by induction over operation sequences + differential correspondence with the Python implementation + reference-semantics oracle",
    "design_ref": "DESIGN.md §3 C54",
}


def _ns():
    from sqlalchemy.util import _collections_cy, _immutabledict_cy, _collections

    return types.SimpleNamespace(
        OrderedSet=_collections_cy.OrderedSet,
        IdentitySet=_collections_cy.IdentitySet,
        unique_list=_collections_cy.unique_list,
        immutabledict=_immutabledict_cy.immutabledict,
        LRUCache=_collections.LRUCache,
    )


def run(ctx, deep=False):
    from harness import lib_coll as L

    ns = _ns()
    thorough = ctx.tier == "thorough" or deep
    ctx.rule = (
        "OrderedSet/IdentitySet: random operation sequences (3-14 ops, 1-3 live objects, arguments: set/frozenset/list/"
        "tuple/generator/iterator/dict/keys-view/another live object/itself, duplicates forced, methods and operators) + "
        "exhaustive single binary operations over all ordered subsets of 3 elements x all argument lists up to length "
        "2 (quick) / 3 (thorough) over 4 elements; immutabledict: random union/merge_with/|/reflected-| calls with "
        "None/empty/immutabledict/dict/OrderedDict/mappingproxy/custom-Mapping arguments + exhaustive argument lists up "
        "to length 3 over a 7-letter alphabet; LRUCache: random operation sequences over capacities 0-5 and dyadic "
        "thresholds 0-2 with size_alert on/off; non-trivial = sequence mutates state; distinct = distinct request line"
    )
    ctx.trusted.append("builtin set/dict/list semantics (modelled as lists in Lean; validated by this correspondence)")
    ctx.trusted.append("stdlib MutableMapping mixins (setdefault/pop/popitem/clear/__contains__) transcribed from _collections_abc")
    ctx.assumptions.append("LRUCache threshold restricted to non-negative dyadic rationals (capacity*threshold exact in binary floating point)")
    ctx.assumptions.append("sequential LRUCache model: re-entrant size_alert callbacks not modelled; threaded model (LruMT): sorted(dict.values()) atomic under the GIL, get/__setitem__ only")

    # ------------------------------------------------------------ OrderedSet
    cases, impl_out, reqs = [], [], []
    hangs = [0]

    def one_os(nregs, ops):
        trace, req, fail = L.os_run_sequence(ns, nregs, ops)
        line = "oset %d %s" % (nregs, " ".join(req))
        ctx.case(line, nontrivial=any(o["op"] not in ("new", "copy", "len", "contains", "getitem") for o in ops))
        for o in ops:
            ctx.count("oset.op=" + o["op"] + ("/" + o.get("via", "") if o.get("via", "method") != "method" else ""))
            for a in ([o["arg"]] if o["op"] == "new" and o["arg"] else o.get("args", [])):
                ctx.count("oset.argkind=" + a[0])
        if fail:
            key, detail, k = fail
            hangs[0] += key.endswith("does-not-terminate")
            ctx.violation(key, {"kind": "oset", "nregs": nregs, "ops": ops[: k + 1]}, detail)
        cases.append({"kind": "oset", "nregs": nregs, "ops": ops})
        impl_out.append(" ".join(trace))
        reqs.append("oset %d %s" % (nregs, " ".join(req[: len(trace)])))
        return trace

    nseq = 6000 if thorough else 1200
    for i in range(nseq):
        if hangs[0] >= 2:
            break  # the code under test loops forever: already reported, do not burn the budget
        nregs, ops = L.os_gen_sequence(ctx.rng, maxlen=14 if thorough else 10)
        tr = one_os(nregs, ops)
        if i < 2:
            ctx.sample({"oset_ops": ops, "trace": tr})
    kinds = ("set", "list", "gen", "oset", "tuple", "frozenset") if thorough else ("list", "set", "gen")
    for nregs, ops in L.os_exhaustive_single(kinds=kinds, universe=3, maxarg=3 if thorough else 2):
        if hangs[0] >= 2:
            break
        one_os(nregs, ops)
    for key, case, detail in L.os_predicate_checks(ns):
        ctx.violation(key, case, detail)
    ctx.count("cases/oset-predicates")
    for seq in ([], [1], [1, 1], [1, 2], [2, 1], [2, 1, 2, 3, 1], list(range(5)) * 2):
        for form in ("list", "tuple", "iter", "gen", "dict", "set"):
            ctx.count("cases/unique_list")
            got, alias, ufail = L.unique_list_check(ns, form, seq)
            if ufail:
                ctx.violation(ufail[0], {"kind": "unique_list", "seq": seq, "form": form}, ufail[1])
    if ctx.driver_ok():
        ctx.correspond("corr/c54:OrderedSet-vs-Model.OrderedSet", cases, impl_out, ctx.driver(reqs))

    # ------------------------------------------------------------ IdentitySet
    cases, impl_out, reqs = [], [], []
    hangs[0] = 0
    import itertools

    ikinds = ("list", "tuple", "iter", "gen", "values", "keys", "idset") if thorough else ("list", "tuple", "iter", "values", "keys", "idset")
    rand = ((i, L.is_gen_sequence(ctx.rng, maxlen=14 if thorough else 10)) for i in range(5000 if thorough else 1000))
    # then the seed-independent small-scope block: every binary operation / comparison x every
    # argument sequence with duplicated references x every argument kind
    exh = ((10 ** 6, x) for x in L.is_exhaustive_single(kinds=ikinds, universe=3, maxarg=3))
    for i, (nregs, ops) in itertools.chain(rand, exh):
        if hangs[0] >= 2:
            break
        trace, req, fail = L.is_run_sequence(ns, nregs, ops)
        line = "idset %d %s" % (nregs, " ".join(req))
        ctx.case(line, nontrivial=any(o["op"] not in ("new", "copy", "len", "contains") for o in ops))
        for o in ops:
            ctx.count("idset.op=" + o["op"] + ("/op" if o.get("via") == "op" else ""))
        if fail:
            key, detail, k = fail
            hangs[0] += key.endswith("does-not-terminate")
            ctx.violation(key, {"kind": "idset", "nregs": nregs, "ops": ops[: k + 1]}, detail)
        cases.append({"kind": "idset", "nregs": nregs, "ops": ops})
        impl_out.append(" ".join(trace))
        reqs.append("idset %d %s" % (nregs, " ".join(req[: len(trace)])))
        if i < 1:
            ctx.sample({"idset_ops": ops, "trace": trace})
    for key, detail in L.is_foreign_checks(ns):
        ctx.violation(key, {"kind": "idset-foreign"}, detail)
    if ctx.driver_ok():
        ctx.correspond("corr/c54:IdentitySet-vs-Model.IdentitySet", cases, impl_out, ctx.driver(reqs))

    # ------------------------------------------------------------ immutabledict
    cases, impl_out, reqs = [], [], []
    ucases = [L.id_gen_union_case(ctx.rng) for _ in range(4000 if thorough else 800)]
    ucases += list(L.id_exhaustive_union())
    for c in ucases:
        line, req, fail = L.id_run_union(ns, c)
        ctx.case(req, nontrivial=bool(c["others"]))
        ctx.count("immdict.nargs=%d" % len(c["others"]))
        ctx.count("immdict.returned=" + line.split(" ")[0])
        if fail:
            ctx.violation(fail[0], dict(c, kind="immdict-union"), fail[1])
        cases.append(dict(c, kind="immdict-union"))
        impl_out.append(line)
        reqs.append(req)
    for _ in range(1500 if thorough else 300):
        c = {
            "self": L.id_gen_items(ctx.rng),
            "other": ctx.rng.choice([["bad"], ["dict", L.id_gen_items(ctx.rng)], ["imm", L.id_gen_items(ctx.rng)], ["odict", L.id_gen_items(ctx.rng)]]),
            "via": ctx.rng.choice(["or", "ror"]),
        }
        if c["via"] == "ror" and c["other"][0] in ("imm", "odict"):
            c["via"] = "or"  # `imm | imm` and `OrderedDict | imm` dispatch to the LEFT operand's __or__
        line, req, fail = L.id_run_or(ns, c)
        ctx.case(req)
        ctx.count("immdict.op=" + c["via"])
        if fail:
            ctx.violation(fail[0], dict(c, kind="immdict-or"), fail[1])
        cases.append(dict(c, kind="immdict-or"))
        impl_out.append(line)
        reqs.append(req)
    for items in ([], [(1, 2)], [(3, 4), (1, 2), (0, 0)]):
        for key, detail in L.id_immutability_checks(ns, items):
            ctx.violation(key, {"kind": "immdict-immutability", "items": items}, detail)
    ctx.sample({"immutabledict_union": ucases[0]})
    if ctx.driver_ok():
        ctx.correspond("corr/c54:immutabledict-vs-Model.ImmDict", cases, impl_out, ctx.driver(reqs))

    # ------------------------------------------------------------ LRUCache
    cases, impl_out, reqs = [], [], []
    hangs[0] = 0
    for i in range(6000 if thorough else 1500):
        if hangs[0] >= 2:
            break
        cfg, ops = L.lru_gen(ctx.rng, maxlen=30 if thorough else 16)
        trace, req, fail = L.lru_run_sequence(ns, cfg, ops)
        line = L.lru_request(cfg, req)
        ctx.case(line, nontrivial=any(o[0] in ("set", "setdefault") for o in ops))
        ctx.count("lru.cap=%d" % cfg["cap"])
        ctx.count("lru.thr=%d/%d" % (cfg["num"], cfg["den"]))
        for o in ops:
            ctx.count("lru.op=" + o[0])
        if fail:
            key, detail, k = fail
            hangs[0] += key.endswith("does-not-terminate")
            ctx.violation(key, {"kind": "lru", "cfg": cfg, "ops": ops[: k + 1]}, detail)
        cases.append({"kind": "lru", "cfg": cfg, "ops": ops})
        impl_out.append(" ".join(trace))
        reqs.append(L.lru_request(cfg, req[: len(trace)]))
        if i < 1:
            ctx.sample({"lru_cfg": cfg, "lru_ops": ops, "trace": trace})
    if ctx.driver_ok():
        ctx.correspond("corr/c54:LRUCache-vs-Model.Lru", cases, impl_out, ctx.driver(reqs))
    # ------------------------------------------------------------ LRUCache under threads
    # real cache, one greenlet per thread, cooperative scheduler (switch before every source line of
    # util/_collections.py and at the mutex); the Lean driver explores EVERY interleaving of the same
    # programs at a finer grain and must contain the observed outcome
    cases, impl_out, reqs = [], [], []
    seen_req = set()
    directed = L.lrumt_directed()
    for i in range((500 if thorough else 60) + len(directed)):
        cfg, progs = directed[i] if i < len(directed) else L.lrumt_gen(ctx.rng)
        for j in range((200 if thorough else 40) if i < len(directed) else (10 if thorough else 6)):
            if ctx.rng.random() < 0.7:
                strat = ["rand", ctx.rng.randrange(1 << 30), ctx.rng.choice([0.1, 0.3, 0.6])]
            else:
                strat = ["pct", ctx.rng.randrange(1 << 30), ctx.rng.choice([2, 3, 4])]
            r = L.lrumt_run(ns, cfg, progs, strat)
            case = {"kind": "lrumt", "cfg": cfg, "progs": progs, "choices": r["choices"]}
            ctx.case(json.dumps([cfg, progs, strat]), nontrivial=len(progs) > 1)
            ctx.count("lrumt.threads=%d" % len(progs))
            ctx.count("lrumt.failed-trylocks=%d" % min(r["failed"], 3))
            if r["oracle"]:
                ctx.violation(r["oracle"][0], case, r["oracle"][1])
                continue
            req = L.lrumt_request(cfg, progs, r["rets"], r["data"])
            if req not in seen_req:
                seen_req.add(req)
                cases.append(case)
                impl_out.append("yes")
                reqs.append(req)
            if i == 0 and j == 0:
                ctx.sample({"lrumt": case, "rets": r["rets"], "data": r["data"], "failed_trylocks": r["failed"]})
    ctx.count("lrumt.distinct-outcomes", len(reqs))
    if ctx.driver_ok():
        ctx.correspond("corr/c54:LRUCache-threads-outcome-in-Model.LruMT-reachable-set", cases, impl_out,
                       [m.split(" ")[0] for m in ctx.driver(reqs)])

    # ------------------------------------------------------------ merge_lists_w_ordering vs Model.MergeLists
    # (Props/C54Merge: duplicate-free union, each shared element once, a ++ b when disjoint)
    from sqlalchemy.util import _collections as _C
    import itertools

    def nl(l):
        return ",".join(map(str, l)) or "-"

    cases, impl_out, reqs = [], [], []
    pairs = []
    # exhaustive small scope: all ordered duplicate-free lists over 4 elements up to length 3 (quick) / 4
    dom = [p_ for n_ in range(0, (5 if thorough else 4)) for p_ in itertools.permutations(range(4), n_)]
    pairs.extend((list(a), list(b)) for a in dom for b in dom)
    for _ in range(6000 if thorough else 1500):
        u = ctx.rng.randint(1, 9)
        if ctx.rng.random() < 0.8:  # duplicate-free (what the callers pass: dict keys)
            a = ctx.rng.sample(range(u), ctx.rng.randint(0, u))
            b = ctx.rng.sample(range(u), ctx.rng.randint(0, u))
            ctx.count("mergelists.nodup")
        else:
            a = [ctx.rng.randrange(u) for _ in range(ctx.rng.randint(0, 7))]
            b = [ctx.rng.randrange(u) for _ in range(ctx.rng.randint(0, 7))]
            ctx.count("mergelists.with-duplicates")
        pairs.append((a, b))
    for a, b in pairs:
        case = {"kind": "mergelists", "a": a, "b": b}
        try:
            m = _C.merge_lists_w_ordering(list(a), list(b))
            out = "ok " + nl(m)
        except Exception as ex:  # noqa: BLE001
            m, out = None, "err:" + type(ex).__name__
        ctx.case("mergelists %s %s" % (nl(a), nl(b)), nontrivial=bool(set(a) & set(b)))
        cases.append(case)
        impl_out.append(out)
        reqs.append("mergelists merge %s %s" % (nl(a), nl(b)))
        # the property itself, for duplicate-free inputs: a duplicate-free union of both lists
        if len(set(a)) == len(a) and len(set(b)) == len(b):
            if m is None or sorted(m) != sorted(set(a) | set(b)):
                ctx.violation("merge_lists_w_ordering-not-a-union", case, "got %r" % (m,))
            elif not (set(a) & set(b)) and m != a + b:
                ctx.violation("merge_lists_w_ordering-disjoint-not-concatenated", case, "got %r" % (m,))
        # "maintaining ordering" (merge_order_left/right, any lists): what only one list has keeps its order there
        if m is not None and ([x for x in m if x not in b] != [x for x in a if x not in b] or [x for x in m if x not in a] != [x for x in b if x not in a]):
            ctx.violation("merge_lists_w_ordering-exclusive-elements-reordered", case, "got %r" % (m,))
    ctx.count("mergelists.exhaustive-pairs", len(dom) * len(dom))
    if ctx.driver_ok():
        ctx.correspond("corr/c54:merge_lists_w_ordering-vs-Model.MergeLists", cases, impl_out, ctx.driver(reqs))

    # ------------------------------------------------------------ small helpers (oracle only)
    for key, case, detail in L.misc_helper_checks(ctx.rng, 1500 if thorough else 300):
        ctx.violation(key, case, detail)
    ctx.count("misc.helper-rounds", 1500 if thorough else 300)
    ctx.exhaustive = thorough


def search(ctx, broken):
    # an observed multi-threaded outcome that no interleaving of the transcribed code can produce is
    # a concrete failing run (the schedule is replayable)
    for d in ctx.disagreements:
        if d["corr"].startswith("corr/c54:LRUCache-threads"):
            ctx.violation("lrucache-threads-outcome-outside-model", d["case"], "observed outcome is not reachable in Model.LruMT")
    sub = type(ctx)(ctx.pid, "thorough", ctx.seed + 1, ctx.level)
    run(sub, deep=True)
    ctx.violations.extend(sub.violations)


def replay(ctx, obj):
    from harness import lib_coll as L

    ns = _ns()
    c = obj["case"]
    kind = c["kind"]
    if kind == "oset":
        trace, req, fail = L.os_run_sequence(ns, c["nregs"], c["ops"])
    elif kind == "idset":
        trace, req, fail = L.is_run_sequence(ns, c["nregs"], c["ops"])
    elif kind == "lru":
        trace, req, fail = L.lru_run_sequence(ns, c["cfg"], c["ops"])
    elif kind == "immdict-union":
        line, req, fail = L.id_run_union(ns, c)
        trace, req = [line], [req]
    elif kind == "immdict-or":
        line, req, fail = L.id_run_or(ns, c)
        trace, req = [line], [req]
    elif kind == "immdict-immutability":
        fails = L.id_immutability_checks(ns, [tuple(p) for p in c["items"]])
        trace, req, fail = [], [], (fails[0] if fails else None)
    elif kind == "idset-foreign":
        fails = L.is_foreign_checks(ns)
        trace, req, fail = [], [], (fails[0] if fails else None)
    elif kind == "lrumt":
        r = L.lrumt_run(ns, c["cfg"], c["progs"], ["replay", c["choices"]])
        req = L.lrumt_request(c["cfg"], c["progs"], r["rets"], r["data"])
        verdict = ctx.driver([req])[0] if ctx.driver_ok() else "?"
        trace, req = ["rets=%s data=%s failed=%d model:%s" % (r["rets"], r["data"], r["failed"], verdict)], [req]
        fail = r["oracle"] or (("lrucache-threads-outcome-outside-model", verdict) if verdict.startswith("no") else None)
    elif kind == "mergelists":
        from sqlalchemy.util import _collections as _C

        m = _C.merge_lists_w_ordering(list(c["a"]), list(c["b"]))
        nl = lambda l: ",".join(map(str, l)) or "-"  # noqa: E731
        req = ["mergelists merge %s %s" % (nl(c["a"]), nl(c["b"]))]
        model = ctx.driver(req)[0] if ctx.driver_ok() else "?"
        trace = ["real=%r model=%s" % (m, model)]
        nod = len(set(c["a"])) == len(c["a"]) and len(set(c["b"])) == len(c["b"])
        fail = None
        if nod and sorted(m) != sorted(set(c["a"]) | set(c["b"])):
            fail = ("merge_lists_w_ordering-not-a-union", repr(m))
        elif nod and not (set(c["a"]) & set(c["b"])) and m != list(c["a"]) + list(c["b"]):
            fail = ("merge_lists_w_ordering-disjoint-not-concatenated", repr(m))
        elif [x for x in m if x not in c["b"]] != [x for x in c["a"] if x not in c["b"]] or [x for x in m if x not in c["a"]] != [x for x in c["b"] if x not in c["a"]]:
            fail = ("merge_lists_w_ordering-exclusive-elements-reordered", repr(m))
        elif model != "?" and model != "ok " + nl(m):
            fail = ("merge_lists_w_ordering-differs-from-model", model)
    elif kind == "misc":
        import random

        fails = [f for f in L.misc_helper_checks(random.Random(0), 300) if f[1]["name"] == c["name"]]
        trace, req, fail = [], [], ((fails[0][0], fails[0][2]) if fails else None)
    elif kind == "oset-pred":
        fails = [f for f in L.os_predicate_checks(ns) if f[1] == c]
        trace, req, fail = [], [], ((fails[0][0], fails[0][2]) if fails else None)
    elif kind == "unique_list":
        got, alias, ufail = L.unique_list_check(ns, c.get("form", "list"), c["seq"])
        trace, req, fail = [repr(got) + (" ALIAS" if alias else "")], [], (tuple(ufail) if ufail else None)
    else:
        raise ValueError(kind)
    print("replay C54 %s %s\n  trace: %s\n  oracle: %s" % (kind, " ".join(req), " ".join(trace), fail))
    return fail is not None
