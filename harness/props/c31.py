"""C31 — flush emits statements in an order that satisfies every constraint.

Translator : the dependency tuples of orm/dependency.py (per_property_dependencies /
             per_state_dependencies of the three relationship directions) ->
             lean/SaVerif/Gen/DepTuples.lean
Theorems   : lean/SaVerif/Props/C31.lean — for any dependency set containing a relationship's
             tuples and any output of topological.sort (M-TOPO, Props/C19): referenced rows are
             written before and removed after the rows referencing them; post_update imposes no
             INSERT order and writes/clears the FK by a separate UPDATE
Tie        : on every real flush of generated object graphs the dependencies the unit of work
             registered are read back (after_flush) and compared, per relationship, with the
             generated table printed by the Lean driver; util/topological.py vs M-TOPO is C19
Direct oracle: generated object graphs (one-to-many, many-to-one, self-referential tree,
             many-to-many, mutually dependent rows with post_update, joined inheritance; mixed
             inserts / deletes / re-parenting in one flush) are flushed on SQLite with
             foreign_keys=ON and NOT NULL columns: no flush may raise.
"""
import json
import os

PID = "C31"
LEVEL = "proof"
LEAN = ["SaVerif.Props.C31"]
META = {
    "text": "Lean: over the dependency-tuple tables regenerated from orm/dependency.py on every run and the transcribed topological sort (C19 sort_respects), for ANY dependency set containing a relationship's tuples, ANY action set and ANY sort output: parent INSERT before child INSERT/UPDATE, child DELETE (or FK rewrite) before parent DELETE, referenced row before referencing row (many-to-one), association rows after both ends on insert and before them on delete, post_update: no order between the INSERTs, FK written/cleared by a separate UPDATE before deletes; the same in per-state form for self-referential relationships. Every real flush of the generated object graphs registers exactly those tuples (compared per relationship with the Lean tables) and succeeds on SQLite with immediate FK checking.",
    "note": "The theorems are about the order of unit-of-work *actions*; that an action emits the statements of its mapper only, the cycle-to-per-state conversion of UOWTransaction._generate_actions and the presort cascades are not transcribed (covered by the direct oracle only). PostgreSQL/MariaDB are not executable here; SQLite foreign_keys=ON checks at statement end like their non-deferrable constraints. Known findings: CircularDependencyError when a row and its former parent swap places in one flush (self-referential).",
    "technique": "decide over regenerated dependency-tuple tables + C19 topological-sort theorems in Lean 4; per-flush comparison of the registered dependencies with the tables; execution of generated object graphs on SQLite with foreign_keys=ON",
    "design_ref": "DESIGN.md §3 C30–C33 (C31)",
}

OWN = ("after_save", "before_delete")


def gen(ctx):
    from harness import lib_deptab as D
    from harness import vlib

    tabs, bad = D.read_tables(vlib.REPO)
    ctx.write_gen("DepTuples", D.lean_source(tabs))
    ctx.obligation("translator:orm/dependency.py per_property/per_state dependency tuples are decision trees over post_update/isdelete/childisdelete", not bad, "; ".join(bad))


def _owned(tuples):
    return sorted(t for t in tuples if t[0] in OWN or t[1] in OWN)


def table_strings(ctx, recs):
    """(cases, impl strings, model strings) for the per-flush dependency records"""
    reqs, keys = [], {}
    for d in ("o2m", "m2o", "m2m"):
        for pu in (0, 1):
            keys[("prop", d, pu)] = len(reqs)
            reqs.append("deptuples prop %s %d" % (d, pu))
            for isd in (0, 1):
                for cd in (0, 1):
                    keys[("state", d, pu, isd, cd)] = len(reqs)
                    reqs.append("deptuples state %s %d %d %d" % (d, pu, isd, cd))
    out = ctx.driver(reqs)

    def tab(k):
        s = out[keys[k]]
        return [] if s == "-" else [tuple(x.split(">")) for x in s.split(",")]

    cases, impl, model = [], [], []
    seen = set()
    for r in recs:
        if "error" in r:
            cases.append(r)
            impl.append("capture-error:" + r["error"])
            model.append("ok")
            continue
        sig = json.dumps(r, sort_keys=True)
        if sig in seen:
            continue
        seen.add(sig)
        real = [tuple(t) for t in r["tuples"]]
        if r["form"] == "prop":
            t = tab(("prop", r["dir"], int(r["pu"])))
            rest = sorted(x for x in t if x not in _owned(t))
            a = "owned=%s present=%s missing=%s" % (_owned(real), sorted(x for x in rest if x in real), r["missing"])
            b = "owned=%s present=%s missing=[]" % (_owned(t), rest)
        else:
            # per-state form: every tuple touching this ProcessState is one of the table's tuples
            # (for some childisdelete), and for each kind of child action that occurs the
            # table's tuples through the ProcessState are all registered
            allt = {x for cd in (0, 1) for x in tab(("state", r["dir"], int(r["pu"]), int(r["isdelete"]), cd))}
            extra = sorted(x for x in _owned(real) if x not in allt)
            missing = sorted(
                x
                for cd in r["cds"]
                for x in _owned(tab(("state", r["dir"], int(r["pu"]), int(r["isdelete"]), int(cd))))
                if x not in real and "save_parent" not in x and "delete_parent" not in x
            )
            a, b = "extra=%s missing=%s" % (extra, missing), "extra=[] missing=[]"
        cases.append({k: r[k] for k in r if k != "tuples"})
        impl.append(a)
        model.append(b)
        ctx.count("deps:%s:%s:%s" % (r["dir"], r["form"], "pu" if r["pu"] else "plain"))
    return cases, impl, model


def classify(f, rounds):
    if f["kind"] in ("flush-raised", "mutation-raised"):
        return "c31-flush-raised-" + f["exc"]
    return None  # db/reload differences belong to C30


def corpus():
    """(key, rounds) of the known findings: a finding is identified by its own history; the
    keys of generated histories (`classify`) are never in the known list"""
    fn = os.path.join(os.path.dirname(os.path.dirname(os.path.dirname(os.path.abspath(__file__)))), "known_findings.d", "C31.json")
    if os.path.exists(fn):
        return [(e["key"], e["replay"]["rounds"]) for e in json.load(open(fn))["findings"] if "rounds" in (e.get("replay") or {})]
    return []


def evaluate(ctx, cases, check_tables=True):
    from harness import lib_graph_check as K

    deps = []
    for prof, rounds, f, d, nst, kinds in cases:
        ctx.case(rounds, nontrivial=nst > 2)
        ctx.count("profile=" + prof)
        ctx.count("rounds=%d" % len(rounds))
        ctx.count("statements=%s" % ("0-4" if nst < 5 else "5-14" if nst < 15 else "15+"))
        for k in kinds:
            ctx.count("stmt:" + k)
        deps += d
        if f is not None and f["kind"] != "inapplicable":
            key = classify(f, rounds)
            if key and prof.startswith("finding:"):
                key = prof[len("finding:"):]
            if key:
                ctx.count("oracle:" + key)
                ctx.violation(key, {"rounds": rounds[: f["round"] + 1]}, f["detail"])
        elif f is None and len(ctx.samples) < 6 and nst >= 8:
            ctx.sample({"profile": prof, "rounds": rounds, "statements": nst})
    if check_tables and ctx.driver_ok() and deps:
        c, a, b = table_strings(ctx, deps)
        ctx.correspond("corr/c31:registered-dependencies-vs-Gen.DepTuples", c, a, b)


def run(ctx, deep=False):
    from harness import lib_graph as G
    from harness import lib_graph_check as K

    ctx.rule = (
        "random object-graph histories (1-3 rounds of 2-8 (quick) / 1-4 rounds of 2-12 (thorough) mutations: create, re-parent, delete with "
        "cascades, orphan, many-to-many link/unlink, post_update reference, rename) over sixteen relationship families (harness/lib_graph.py), each round ended by "
        "flush or commit on SQLite with foreign_keys=ON; every flush's registered dependencies are compared with the Lean tables; "
        "non-trivial = more than two DML statements"
    )
    ctx.trusted.append("SQLite (foreign_keys=ON, constraints checked at statement end) stands for backends with immediate FK checking")
    ctx.assumptions.append("histories follow the discipline documented in harness/lib_graph.py (an application refreshes after deleting rows, does not re-parent pending members of delete-orphan collections, does not reference what it deletes in the same flush): the excluded situations are findings recorded under C30/C35/C39")
    thorough = ctx.tier == "thorough" or deep
    fixed = [("finding:" + k, r, K.replay_case(r)[1], [], 0, []) for k, r in corpus()]
    if fixed:
        evaluate(ctx, fixed, check_tables=False)
    cases = K.run_random("C31", ctx.seed, "deep" if deep else ctx.tier, 72 if thorough else 10, 500 if thorough else 280,
                         (4, 12) if thorough else (3, 8), capture=True, procs=int(os.environ.get("VERIF_PROCS", "6")))
    evaluate(ctx, cases)


def search(ctx, broken):
    sub = type(ctx)(ctx.pid, "thorough", ctx.seed + 1, ctx.level)
    run(sub, deep=True)
    ctx.violations.extend(sub.violations)


def replay(ctx, obj):
    from harness import lib_graph_check as K

    rounds = obj["case"]["rounds"]
    res, f = K.replay_case(rounds, attempts=12)  # order-dependent failures: see replay_case
    for rd, r in zip(rounds, res):
        print("round:", rd["muts"], "->", rd["end"])
        print("   statements:", [p[0] + " " + p[1] for p in r["params"]])
        print("   error:", r["error"])
    print("oracle:", f)
    return f is not None and classify(f, rounds) is not None
