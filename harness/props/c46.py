"""C46 — expired and refreshed attributes reflect the database.

Model: lean/SaVerif/Model/Expire.lean (one Session's identity map and attribute
states over a table that another connection also writes; transcription of
InstanceState._expire/_expire_attributes/_load_expired, Session.refresh,
loading._instance_processor's populate_existing / partial population for rows that carry all
or only some of the entity's columns (_populate_full / _populate_partial with the "quick" and
"expire" populators), autoflush, flush of modified attributes, commit with expire_on_commit,
rollback).
Theorems: lean/SaVerif/Props/C46.lean.
Translator: gen() reads loading._populate_full of the working tree by ast and regenerates
lean/SaVerif/Gen/ExpireCfg.lean (is `dict_.pop(key, ...)` unconditional in the populate_existing
loop over populators["expire"]?); the model's populateCols uses the flag and the populate_existing
theorems rest on `populate_existing_pops_absent`, so an edit there re-runs the proof.

Real side: a real Session on a SQLite *file* plus a second, raw connection that
updates / deletes / inserts rows and commits.  A history interleaves external
writes with read / set / expire(obj[, attrs]) / expire_all / refresh(obj[, attrs]) /
query [populate_existing] [filter] [column subset] / flush / commit / rollback, and with the application detaching a
loaded instance (expunge) and handing it back later (add, or merge(load=False)) so that a
loaded instance sits in a transaction that never touched the database.

Direct oracle (independent of the Lean model; never compares with it): the harness
keeps the truth (what the session's transaction can see: the other connection's
commits plus the session's own flushed values, from its own bookkeeping and the
after_flush event) and, per attribute, whether the application has a pending value
or invalidated the attribute.  A read must return the pending value if there is
one; after an invalidation the first read must return a value the database held at
some moment since the invalidation (never an older cached one); otherwise the
value read before.  External writes use globally fresh values so that a stale
value cannot be mistaken for a current one.

Column subset of a query: select(T) (rows carry every column), or
select(T).from_statement(select(T.id, T.a<i>...)[.where]) / select(T).from_statement(text("select id, a<i>...
from t [where]")) whose rows carry the primary key and a chosen, possibly empty, subset of the
attribute columns.  With populate_existing the reference invalidates ALL attributes of every
matched identity (carried: refreshed now; not carried: expired, the next read must return a value
the database held since) and drops their pending statuses; right after the query every value found
in the instance dict of a repopulated / new identity must equal the database value of that moment
(key stale-in-dict-after-populate-existing / -first-load); without populate_existing nothing
loaded or pending changes status.

Second mapping ("joined", 20% of the random histories and a 2-op small-scope stream of its own):
joined-table inheritance, base B on t(id, kind, a0), subclass T on t2(id, a1, a2), every row a T.
A partial-column query is select(B) there: its rows carry a0 only and meet T instances — the same
populators["expire"] branch reached without from_statement.  The model is the same (cols = [0]).
External DELETEs are part of this mapping's histories too: unexpiring a subclass-table attribute
of a vanished row takes mapper._optimized_get_statement, whose empty result
loading._load_scalar_attributes examines since fix eeca727 (ObjectDeletedError on the first and on
every later read, as for the single-table mapper and as the model says).  Before the fix the
result was returned unexamined -> KeyError, then None on later reads: the oracle still classifies
that as joined-subclass-attr-unexpire-deleted-row-keyerror (now a violation; the witness
JOINED_DELETED_WITNESS runs first in every run), the translator flag optimizedGetResultChecked
falls and Props/C46 optimized_get_result_checked / unexpire_deleted_row_raises stop checking.
"""
import os
import shutil
import tempfile
import warnings

PID = "C46"
LEVEL = "proof"
LEAN = ["SaVerif.Props.C46"]
META = {
    "text": "Lean theorems over the session/database transition system for ALL histories: reading an expired attribute returns the row's current value and pending changes of the same object are kept (read_expired_eq_db); after expire / expire_all / refresh / commit with expire_on_commit / rollback / a populate_existing query that matched the row, the next read returns the database value (fresh_after_*, read_of_fresh); a query's rows may carry all or any subset of the entity's attribute columns (from_statement over a column list or text; quantified over all subsets): after populate_existing every carried attribute is loaded, unmodified and equal to the row, every attribute not carried is unloaded and unmodified (populate_existing_cols), so the next read of ANY attribute returns the database value (read_after_populate_existing_eq_db, fresh_after_populate_existing), resting on the source fact regenerated by the translator that _populate_full pops absent attributes unconditionally (populate_existing_pops_absent); a new identity gets its carried columns and loads the rest on first read (fresh_after_query_new_identity); without populate_existing only unloaded unmodified carried attributes are filled (query_plain_existing); unexpiring an attribute of a vanished row raises ObjectDeletedError on every path of _load_scalar_attributes, the optimized-get branch of an inheriting mapper included (unexpire_deleted_row_raises, over the regenerated flag optimizedGetResultChecked: true since fix eeca727); a pending value survives every operation that does not expire, refresh, repopulate, flush or roll back that attribute (pending_survives); and, by induction over arbitrary operation sequences without external writes, every loaded unmodified attribute equals the database (coh_run; user-level corollary read_coherent), coherence being re-established by expire_all/commit/rollback after any external interference (coh_after_expireAll, coh_after_rollback, coh_after_commit_eoc). The model is tied to orm/state.py, session.py, loading.py by a differential run on a real Session over a SQLite file with a second writer connection; the property itself is re-checked by an independent reference that tracks the truth and the invalidations.",
    "note": "Trusted: Lean kernel; correspondence harness (sampling + exhaustive short sequences); SQLite (no read snapshot is held by pysqlite, so 'current for the transaction' = latest commit + own flushed changes; snapshot-isolation backends are not modelled). Relationship / collection / deferred attributes and refresh with_for_update are not modelled (column attributes only). Rows that do not carry every column are produced by select(T).from_statement(select(T.id, cols) | text(...)) on the single-table mapping and by select(Base) meeting subclass instances on a joined-table-inheritance mapping (same model op, cols = [a0]). The transition system is the single-table mapper: of the inheriting mapper only the decision of _load_scalar_attributes (optimized get vs select by identity, what a missing row becomes) is transcribed (loadScalarAttributes), full theorem unexpire_deleted_row_raises over the regenerated flag optimizedGetResultChecked (true since fix eeca727); the joined-mapping histories, external DELETEs included, are compared with the same model; the former finding joined-subclass-attr-unexpire-deleted-row-keyerror (KeyError, then None, instead of ObjectDeletedError) is kept as an oracle classification and a fixed witness so that a regression reports under that key. The translator recognises one shape of the populate_existing loop of loading._populate_full and of the `if statement is not None:` branch of _load_scalar_attributes (obligation fails otherwise).",
    "technique": "Lean 4 invariant proofs over a session/database LTS + differential correspondence on SQLite + independent reference oracle",
    "design_ref": "DESIGN.md §3 C30–C48 (C46)",
}

NATTR = 3
KF_JOINED_DELETED = "joined-subclass-attr-unexpire-deleted-row-keyerror"
NRAND_QUICK = 2000
SMALL3_QUICK = 0.05
SMALL2J_QUICK = 0.5
_W = None
_TMP = None


def parse_populate_existing_expire_loop(src):
    """orm/loading.py `_populate_full`: inside `if populate_existing:` the loop
    `for key, set_callable in populators["expire"]:`.  Returns None when that shape is not there,
    else True/False: is `dict_.pop(key, ...)` a statement of the loop body itself, i.e. executed
    for every attribute whose column the row does not carry (and not only under some condition)?"""
    import ast

    def is_pop(stmt):
        c = stmt.value if isinstance(stmt, ast.Expr) else None
        return (
            isinstance(c, ast.Call)
            and isinstance(c.func, ast.Attribute)
            and c.func.attr == "pop"
            and isinstance(c.func.value, ast.Name)
            and c.func.value.id == "dict_"
            and len(c.args) >= 1
            and isinstance(c.args[0], ast.Name)
            and c.args[0].id == "key"
        )

    def is_expire_loop(n):
        return (
            isinstance(n, ast.For)
            and isinstance(n.iter, ast.Subscript)
            and isinstance(n.iter.value, ast.Name)
            and n.iter.value.id == "populators"
            and isinstance(n.iter.slice, ast.Constant)
            and n.iter.slice.value == "expire"
            and isinstance(n.target, ast.Tuple)
            and [getattr(e, "id", None) for e in n.target.elts] == ["key", "set_callable"]
        )

    for fn in ast.walk(ast.parse(src)):
        if isinstance(fn, ast.FunctionDef) and fn.name == "_populate_full":
            found = []
            for n in ast.walk(fn):
                if isinstance(n, ast.If) and isinstance(n.test, ast.Name) and n.test.id == "populate_existing":
                    found += [st for st in n.body if is_expire_loop(st)]
            if len(found) != 1:
                return None
            return any(is_pop(st) for st in found[0].body)
    return None


def parse_optimized_get_branch(src):
    """orm/loading.py `_load_scalar_attributes`: the branch `if statement is not None:` that follows
    `statement = mapper._optimized_get_statement(...)`.  Returns None when that shape is not there;
    False when the branch returns the result of `_load_on_ident(...)` as is (a missing row goes
    unnoticed); True when the result is examined (the branch raises ObjectDeletedError itself, or
    does not return and falls through to the `result is None -> ObjectDeletedError` test)."""
    import ast

    def raises_deleted(nodes):
        for st in nodes:
            for n in ast.walk(st):
                if isinstance(n, ast.Raise) and n.exc is not None and "ObjectDeletedError" in ast.dump(n.exc):
                    return True
        return False

    for fn in ast.walk(ast.parse(src)):
        if isinstance(fn, ast.FunctionDef) and fn.name == "_load_scalar_attributes":
            branches = [
                n
                for n in ast.walk(fn)
                if isinstance(n, ast.If)
                and isinstance(n.test, ast.Compare)
                and isinstance(n.test.left, ast.Name)
                and n.test.left.id == "statement"
                and len(n.test.ops) == 1
                and isinstance(n.test.ops[0], ast.IsNot)
            ]
            if len(branches) != 1:
                return None
            body = branches[0].body
            if raises_deleted(body):
                return True
            rets = [n for st in body for n in ast.walk(st) if isinstance(n, ast.Return)]
            if not rets:
                return True if raises_deleted(fn.body) else None
            if all(isinstance(r.value, ast.Call) and "load_on_ident" in ast.dump(r.value.func) for r in rets):
                return False
            return None
    return None


def gen(ctx):
    """Translator: does the populate_existing branch of loading._populate_full pop every attribute
    whose column is absent from the row?  Does the optimized-get branch of
    loading._load_scalar_attributes examine its result?  -> lean/SaVerif/Gen/ExpireCfg.lean"""
    from harness import vlib

    src = open(os.path.join(vlib.REPO, "lib", "sqlalchemy", "orm", "loading.py")).read()
    pops = parse_populate_existing_expire_loop(src)
    checked = parse_optimized_get_branch(src)
    ctx.obligation(
        "translator: loading._load_scalar_attributes has exactly one `if statement is not None:` branch that either returns _load_on_ident(...) or examines its result",
        checked is not None,
        "shape not recognised; Gen.ExpireCfg.optimizedGetResultChecked cannot be regenerated",
    )
    ctx.obligation(
        "translator: loading._populate_full has `if populate_existing:` with exactly one loop `for key, set_callable in populators[\"expire\"]:`",
        pops is not None,
        "shape not recognised; Gen.ExpireCfg.populateExistingPopsAbsent cannot be regenerated",
    )
    if pops is None or checked is None:
        return
    ctx.write_gen(
        "ExpireCfg",
        "namespace SaVerif.Gen.ExpireCfg\n"
        "/-- orm/loading.py `_populate_full`, `if populate_existing:` loop\n"
        "    `for key, set_callable in populators[\"expire\"]:` — is `dict_.pop(key, …)` a statement of\n"
        "    the loop body itself (executed for every attribute whose column the row does not carry,\n"
        "    whatever `set_callable` is)? -/\n"
        "def populateExistingPopsAbsent : Bool := %s\n"
        "/-- orm/loading.py `_load_scalar_attributes`, branch `if statement is not None:` after\n"
        "    `mapper._optimized_get_statement(...)` (joined-table inheritance): is the result of\n"
        "    `_load_on_ident` examined (`None` → ObjectDeletedError) instead of being returned as is? -/\n"
        "def optimizedGetResultChecked : Bool := %s\n"
        "end SaVerif.Gen.ExpireCfg\n" % ("true" if pops else "false", "true" if checked else "false"),
    )


def _tmpdir():
    global _TMP
    if _TMP is None:
        base = "/dev/shm" if os.path.isdir("/dev/shm") else None
        _TMP = tempfile.mkdtemp(prefix="verif-c46-", dir=base)
        import atexit

        atexit.register(shutil.rmtree, _TMP, True)
    return _TMP


class World:
    """variant "single": one table t(id, a0, a1, a2).  variant "joined": joined-table inheritance,
    base B on t(id, kind, a0), subclass T on t2(id -> t.id, a1, a2); every row is a T.  A query of
    the base class, select(B), meets T instances with rows that carry a0 only — the other way (beside
    from_statement) in which rows lack columns of the instance they are loaded into."""

    def __init__(self, variant="single"):
        import sqlalchemy as sa
        from sqlalchemy.orm import declarative_base

        self.variant = variant
        fn = os.path.join(_tmpdir(), "c46-%s.db" % variant)
        self.engine = sa.create_engine("sqlite:///" + fn)
        # the other connection must fail at once instead of waiting for a lock
        self.ext_engine = sa.create_engine("sqlite:///" + fn, connect_args={"timeout": 0})
        Base = declarative_base()
        from harness.lib_orm2 import odd_mixin

        if variant == "single":

            class T(odd_mixin("id", "a0", "a1", "a2"), Base):
                __tablename__ = "t"
                id = sa.Column(sa.Integer, primary_key=True, autoincrement=False)
                a0 = sa.Column(sa.Integer)
                a1 = sa.Column(sa.Integer)
                a2 = sa.Column(sa.Integer)

            self.B = None
            self.view_sql = "select id, a0, a1, a2 from t"
        else:

            class B(odd_mixin("id", "a0", "a1", "a2"), Base):
                __tablename__ = "t"
                id = sa.Column(sa.Integer, primary_key=True, autoincrement=False)
                kind = sa.Column(sa.String(1))
                a0 = sa.Column(sa.Integer)
                __mapper_args__ = {"polymorphic_on": kind, "polymorphic_identity": "b"}

            class T(B):
                __tablename__ = "t2"
                id = sa.Column(sa.ForeignKey("t.id"), primary_key=True, autoincrement=False)
                a1 = sa.Column(sa.Integer)
                a2 = sa.Column(sa.Integer)
                __mapper_args__ = {"polymorphic_identity": "s"}

            self.B = B
            self.view_sql = "select t.id, a0, a1, a2 from t join t2 on t.id = t2.id"
        self.T = T
        Base.metadata.drop_all(self.engine)
        Base.metadata.create_all(self.engine)
        self.ext = self.ext_engine.connect()

    def reset(self):
        if self.variant == "joined":
            self.ext.exec_driver_sql("delete from t2")
        self.ext.exec_driver_sql("delete from t")
        self.ext.commit()

    # the other connection's writes, as lists of (sql, params) applied in one transaction
    def sql_set(self, k, a, v):
        tab = "t" if self.variant == "single" or a == 0 else "t2"
        return [("update %s set a%d = ? where id = ?" % (tab, a), (v, k))]

    def sql_del(self, k):
        if self.variant == "single":
            return [("delete from t where id = ?", (k,))]
        return [("delete from t2 where id = ?", (k,)), ("delete from t where id = ?", (k,))]

    def sql_ins(self, k, v):
        if self.variant == "single":
            return [("insert into t (id, a0, a1, a2) values (?, ?, ?, ?)", (k, v, v, v))]
        return [("insert into t (id, kind, a0) values (?, 's', ?)", (k, v)), ("insert into t2 (id, a1, a2) values (?, ?, ?)", (k, v, v))]

    def ext_exec(self, stmts):
        """returns True when applied, False when SQLite refused (session holds the write lock)"""
        from sqlalchemy.exc import OperationalError

        try:
            for sql, params in stmts:
                self.ext.exec_driver_sql(sql, params)
            self.ext.commit()
            return True
        except OperationalError as e:
            self.ext.rollback()
            if "locked" in str(e):
                return False
            raise


def world(variant="single"):
    global _W
    if _W is None:
        _W = {}
    if variant not in _W:
        _W[variant] = World(variant)
    return _W[variant]


def run_history(case):
    """returns (impl_line, problems); an exception other than the documented ones
    escaping from a session operation on valid state is itself a defect"""
    import traceback

    try:
        return _run_history(case)
    except Exception as e:
        tb = traceback.extract_tb(e.__traceback__)
        where = ["%s:%d" % (os.path.basename(f.filename), f.lineno) for f in tb if "sqlalchemy" in f.filename][-3:]
        return "crash:" + type(e).__name__, [("unexpected-exception", "%s: %s at %s" % (type(e).__name__, str(e)[:200], where))]


def _run_history(case):
    """returns (impl_line, problems)"""
    import sqlalchemy as sa
    from sqlalchemy import event, inspect
    from sqlalchemy.exc import InvalidRequestError
    from sqlalchemy.orm import Session
    from sqlalchemy.orm.exc import ObjectDeletedError, StaleDataError

    w = world(case.get("variant", "single"))
    w.reset()
    T = w.T
    npk, af, eoc, ops = case["npk"], case["af"], case["eoc"], case["ops"]
    sess = Session(w.engine, autoflush=bool(af), expire_on_commit=bool(eoc))
    objs = {}
    detached = {}
    outs = []
    problems = []
    # ---------------- reference shadow
    truth = {}  # k -> [v0, v1, v2] as visible to the session's transaction
    committed = {"snap": None}  # snapshot of truth taken at the first flush of a transaction
    status = {}  # (k, a) -> ("pending", v) | ("inval", set(values) incl. "gone") | ("val", v)

    def tval(k, a):
        return truth[k][a] if k in truth else "gone"

    def invalidate(k, a):
        status[(k, a)] = ("inval", {tval(k, a)})

    def truth_changed(k):
        for a in range(NATTR):
            st = status.get((k, a))
            if st and st[0] == "inval":
                st[1].add(tval(k, a))

    def after_flush(session, ctx):
        # pending values reach the database (as seen by this transaction)
        if committed["snap"] is None:
            committed["snap"] = {k: list(v) for k, v in truth.items()}
        for (k, a), st in list(status.items()):
            if st[0] == "pending" and k in truth:
                truth[k][a] = st[1]
                status[(k, a)] = ("val", st[1])
        for k in list(truth):
            truth_changed(k)

    event.listen(sess, "after_flush", after_flush)

    def on_rollback():
        if committed["snap"] is not None:
            truth.clear()
            truth.update({k: list(v) for k, v in committed["snap"].items()})
            committed["snap"] = None
        for k in objs:
            for a in range(NATTR):
                invalidate(k, a)

    def attrnames(l):
        return None if l is None else ["a%d" % a for a in l]

    def covered(l):
        return range(NATTR) if l is None else l

    try:
        with warnings.catch_warnings():
            warnings.simplefilter("ignore")
            for op in ops:
                kind = op[0]
                if kind == "r":
                    k, a = op[1], op[2]
                    if k not in objs:
                        outs.append("-")
                        continue
                    st = status.get((k, a))
                    if st is not None and st[0] == "lost":
                        # the defect fixed by eeca727 (below) happened on this attribute: it is neither loaded
                        # nor expired any more; a read that does not fail is the same defect showing again
                        try:
                            v = getattr(objs[k], "a%d" % a)
                            outs.append("v%s" % v)
                            problems.append((KF_JOINED_DELETED, "read (%d,a%d) -> %s without any SELECT after the failed unexpire; the row %s" % (k, a, v, "exists" if k in truth else "does not exist")))
                        except (ObjectDeletedError, KeyError):
                            outs.append("gone")
                        continue
                    try:
                        v = getattr(objs[k], "a%d" % a)
                        outs.append("v%s" % v)
                        got = v
                    except KeyError as e:
                        # joined-table inheritance, the row vanished, only subclass-table attributes to
                        # load: before fix eeca727 _load_scalar_attributes returned the empty result of the
                        # optimized SELECT unexamined instead of raising ObjectDeletedError
                        if w.variant == "joined" and a != 0 and k not in truth and "failed to populate" in str(e):
                            problems.append((KF_JOINED_DELETED, "read (%d,a%d) of a deleted row raised %s instead of ObjectDeletedError" % (k, a, str(e)[:120])))
                            outs.append("keyerr")
                            for b in range(1, NATTR):
                                if ("a%d" % b) not in objs[k].__dict__ and ("a%d" % b) not in inspect(objs[k]).expired_attributes:
                                    status[(k, b)] = ("lost",)
                            continue
                        raise
                    except (ObjectDeletedError, StaleDataError) as e:
                        if not sess.is_active:  # raised by the autoflush: the session needs a rollback
                            sess.rollback()
                            on_rollback()
                            outs.append("stale")
                            continue
                        if isinstance(e, StaleDataError):
                            raise
                        outs.append("gone")
                        got = "gone"
                    # ---- oracle
                    if st is None:
                        problems.append(("read-untracked", "(%d,a%d)" % (k, a)))
                    elif st[0] == "pending":
                        if got != st[1]:
                            problems.append(("pending-value-lost", "read (%d,a%d) -> %s but the application set %s and never expired it" % (k, a, got, st[1])))
                    elif st[0] == "val":
                        if got != st[1]:
                            problems.append(("cached-value-changed", "read (%d,a%d) -> %s, previously %s, with no expire/refresh in between" % (k, a, got, st[1])))
                    else:
                        st[1].add(tval(k, a))
                        if got not in st[1]:
                            problems.append(("stale-after-invalidation", "read (%d,a%d) -> %s but since it was expired/refreshed the database held %s" % (k, a, got, sorted(map(str, st[1])))))
                        if got != "gone":
                            status[(k, a)] = ("val", got)
                elif kind == "s":
                    k, a, v = op[1], op[2], op[3]
                    if k not in objs:
                        outs.append("-")
                        continue
                    setattr(objs[k], "a%d" % a, v)
                    status[(k, a)] = ("pending", v)
                    outs.append("d")
                elif kind == "x":
                    k, l = op[1], op[2]
                    if k not in objs:
                        outs.append("-")
                        continue
                    sess.expire(objs[k], attrnames(l))
                    for a in covered(l):
                        invalidate(k, a)
                    outs.append("d")
                elif kind == "X":
                    sess.expire_all()
                    for k in objs:
                        for a in range(NATTR):
                            invalidate(k, a)
                    outs.append("d")
                elif kind == "f":
                    k, l = op[1], op[2]
                    if k not in objs:
                        outs.append("-")
                        continue
                    # refresh discards pending changes of the covered attributes first
                    for a in covered(l):
                        invalidate(k, a)
                    try:
                        sess.refresh(objs[k], attribute_names=attrnames(l))
                        outs.append("d")
                        for a in covered(l):
                            invalidate(k, a)  # loaded just now: only the current truth is acceptable
                    except (StaleDataError, ObjectDeletedError):
                        sess.rollback()
                        on_rollback()
                        outs.append("stale")
                    except InvalidRequestError:
                        outs.append("norow")
                        if k in truth:
                            problems.append(("refresh-failed-row-exists", "refresh(%d) raised but the row exists" % k))
                elif kind == "q":
                    pop, filt, cols, form = op[1], op[2], op[3], op[4]
                    if cols is None:
                        # rows carry every column of the entity
                        stmt = sa.select(T)
                        if filt is not None:
                            stmt = stmt.where(getattr(T, "a%d" % filt[0]) == filt[1])
                    elif form == 2:
                        # joined inheritance: a query of the base class; its rows carry a0 only
                        if w.B is None or cols != [0]:
                            raise ValueError(op)
                        stmt = sa.select(w.B)
                        if filt is not None:
                            if filt[0] == 0:
                                stmt = stmt.where(w.B.a0 == filt[1])
                            else:
                                stmt = stmt.where(w.B.id.in_(sa.select(T.__table__.c.id).where(T.__table__.c["a%d" % filt[0]] == filt[1])))
                    elif w.B is not None:
                        raise ValueError(op)
                    elif form == 0:
                        # rows carry the primary key and the chosen columns only
                        inner = sa.select(T.id, *[getattr(T, "a%d" % a) for a in cols])
                        if filt is not None:
                            inner = inner.where(getattr(T, "a%d" % filt[0]) == filt[1])
                        stmt = sa.select(T).from_statement(inner)
                    else:
                        sql = "select id" + "".join(", a%d" % a for a in cols) + " from t"
                        if filt is not None:
                            sql += " where a%d = %d" % (filt[0], filt[1])
                        stmt = sa.select(T).from_statement(sa.text(sql))
                    if pop:
                        stmt = stmt.execution_options(populate_existing=True)
                    try:
                        res = sess.execute(stmt).scalars().all()
                    except (StaleDataError, ObjectDeletedError):
                        sess.rollback()
                        on_rollback()
                        outs.append("stale")
                        continue
                    expected = sorted(k for k, r in truth.items() if filt is None or r[filt[0]] == filt[1])
                    gotk = sorted(o.id for o in res)
                    if gotk != expected:
                        problems.append(("query-rows", "query %s returned ids %s, truth says %s" % (filt, gotk, expected)))
                    for o in res:
                        k = o.__dict__.get("id")
                        if k is None:
                            problems.append(("query-entity-without-pk", "entity returned by the query has no primary key in its dict"))
                            continue
                        repopulated = False
                        if k not in objs:
                            objs[k] = o
                            repopulated = True
                        elif objs[k] is not o:
                            problems.append(("identity", "two objects for pk %d" % k))
                        elif pop:
                            repopulated = True
                        if repopulated:
                            # new identity, or populate_existing: EVERY attribute is invalidated, whether
                            # the row carried its column (refreshed just now) or not (expired: the next
                            # read has to go to the database); pending changes are gone
                            for a in range(NATTR):
                                invalidate(k, a)
                            # what is in the instance dict is what a read returns: it must be the
                            # database value of this moment (non-invasive: no attribute access)
                            for a in range(NATTR):
                                name = "a%d" % a
                                if name in o.__dict__ and o.__dict__[name] != tval(k, a):
                                    problems.append((
                                        "stale-in-dict-after-%s" % ("populate-existing" if pop else "first-load"),
                                        "query(pop=%s, cols=%s) matched pk %d: a%d is %s in the instance dict (a read returns it) but the database has %s%s"
                                        % (pop, cols, k, a, o.__dict__[name], tval(k, a),
                                           "" if cols is None or a in cols else "; the row did not carry this column"),
                                    ))
                    outs.append("d")
                elif kind in ("F", "c"):
                    try:
                        if kind == "F":
                            sess.flush()
                        else:
                            sess.commit()
                            committed["snap"] = None
                            if eoc:
                                for k in objs:
                                    for a in range(NATTR):
                                        invalidate(k, a)
                        outs.append("d")
                    except (StaleDataError, ObjectDeletedError):
                        sess.rollback()
                        on_rollback()
                        outs.append("stale")
                elif kind == "b":
                    if sess.in_transaction():
                        sess.rollback()
                        on_rollback()
                    else:
                        sess.rollback()
                    outs.append("d")
                elif kind == "es":
                    k, a, v = op[1], op[2], op[3]
                    if k in truth and w.ext_exec(w.sql_set(k, a, v)):
                        committed["snap"] = None  # SQLite let it through: the session holds no uncommitted DML
                        truth[k][a] = v
                        truth_changed(k)
                        outs.append("d")
                    else:
                        outs.append("-")
                elif kind == "ed":
                    k = op[1]
                    if k in truth and w.ext_exec(w.sql_del(k)):
                        committed["snap"] = None
                        del truth[k]
                        truth_changed(k)
                        outs.append("d")
                    else:
                        outs.append("-")
                elif kind == "ei":
                    k, v = op[1], op[2]
                    if k not in truth and w.ext_exec(w.sql_ins(k, v)):
                        committed["snap"] = None
                        truth[k] = [v, v, v]
                        truth_changed(k)
                        outs.append("d")
                    else:
                        outs.append("-")
                elif kind == "dt":
                    # the application keeps a loaded, unmodified instance while the Session lets go of it
                    k = op[1]
                    if k in objs and k not in detached and not inspect(objs[k]).modified:
                        sess.expunge(objs[k])
                        detached[k] = objs.pop(k)
                        outs.append("d")
                    else:
                        outs.append("-")
                elif kind == "at":
                    # ... and hands it back: add(obj), or merge(obj, load=False)
                    k, via_merge = op[1], op[2]
                    key = inspect(T).identity_key_from_primary_key((k,))
                    if k in detached and k not in objs and sess.identity_map.get(key) is None:
                        o = detached.pop(k)
                        if via_merge:
                            o = sess.merge(o, load=False)
                        else:
                            sess.add(o)
                        objs[k] = o
                        outs.append("d")
                    else:
                        outs.append("-")
                else:
                    raise ValueError(op)
            # ---- final state dump (session view of the rows through its own connection)
            parts = []
            view = {r[0]: tuple(r[1:]) for r in sess.connection().exec_driver_sql(w.view_sql)}
            if {k: tuple(v) for k, v in truth.items()} != view:
                problems.append(("truth-bookkeeping", "reference truth %s != session view %s" % (truth, view)))
            for k in range(npk):
                if k in objs:
                    o = objs[k]
                    cs = inspect(o).committed_state
                    d = ",".join(
                        (str(o.__dict__["a%d" % a]) if ("a%d" % a) in o.__dict__ else "N") + ("*" if ("a%d" % a) in cs else "")
                        for a in range(NATTR)
                    )
                    so = ("+" if "id" in o.__dict__ else "-") + "[" + d + "]"
                else:
                    so = "none"
                sr = "(" + ",".join(str(x) for x in view[k]) + ")" if k in view else "none"
                parts.append("%d=%s/%s" % (k, so, sr))
    finally:
        try:
            sess.close()
        except Exception:
            pass
    return ";".join(outs) + " | " + " ".join(parts), problems


# ---------------------------------------------------------------------- encoding
def enc_attrs(l):
    return "*" if l is None else "+".join(str(a) for a in l)


def enc_cols(l):
    """column subset carried by the rows of a query: * = all, - = primary key only"""
    return "*" if l is None else ("+".join(str(a) for a in l) or "-")


def Q(pop, filt=None, cols=None, form=0):
    """query op: populate_existing?, filter (attr, value) or None, attributes whose columns the
    rows carry (None = select(T): all), form of the partial statement (0 = from_statement(select(T.id, …)),
    1 = from_statement(text(…)))"""
    return ("q", bool(pop), filt, None if cols is None else sorted(cols), form if cols is not None else 0)


def rand_cols(rng):
    if rng.random() < 0.45:
        return None, 0
    n = rng.choice([0, 1, 1, 1, 2, 2, 3])
    return sorted(rng.sample(range(NATTR), n)), rng.randrange(2)


def enc_op(op):
    k = op[0]
    if k in ("x", "f"):
        return "%s:%d:%s" % (k, op[1], enc_attrs(op[2]))
    if k == "q":
        return "q:%d:%s:%s" % (1 if op[1] else 0, "*" if op[2] is None else "%d=%d" % tuple(op[2]), enc_cols(op[3]))
    return ":".join(str(x) for x in op)


def request(case):
    return "expire run %d %d %d %d %s" % (case["npk"], NATTR, case["af"], case["eoc"], ",".join(enc_op(o) for o in case["ops"]) or "-")


# ---------------------------------------------------------------------- generators
class Fresh:
    def __init__(self):
        self.n = 10

    def __call__(self):
        self.n += 1
        return self.n


def rand_attrs(rng):
    r = rng.random()
    if r < 0.45:
        return None
    n = rng.choice([1, 1, 2])
    return sorted(rng.sample(range(NATTR), n))


def gen_random(rng, tier):
    fresh = Fresh()
    npk = rng.choice([1, 2, 2, 3])
    ops = []
    vals = {}
    for k in range(npk):
        if rng.random() < 0.9:
            v = fresh()
            ops.append(("ei", k, v))
            vals[k] = v
    if rng.random() < 0.85:
        ops.append(Q(False))
    else:
        ops.append(Q(False, None, *rand_cols(rng)))  # first load through a partial-column statement
    n = rng.randint(5, 14 if tier == "quick" else 24)
    for _ in range(n):
        k = rng.randrange(npk)
        a = rng.randrange(NATTR)
        r = rng.random()
        if r < 0.22:
            ops.append(("r", k, a))
        elif r < 0.36:
            ops.append(("es", k, a, fresh()))
        elif r < 0.48:
            ops.append(("s", k, a, 100 + fresh()))
        elif r < 0.58:
            ops.append(("x", k, rand_attrs(rng)))
        elif r < 0.62:
            ops.append(("X",))
        elif r < 0.70:
            ops.append(("f", k, rand_attrs(rng)))
        elif r < 0.78:
            filt = None if rng.random() < 0.5 else (a, rng.choice(list(vals.values()) or [0]))
            ops.append(Q(rng.random() < 0.6, filt, *rand_cols(rng)))
        elif r < 0.82:
            ops.append(("F",))
        elif r < 0.88:
            ops.append(("c",))
        elif r < 0.92:
            ops.append(("b",))
        elif r < 0.935:
            ops.append(("dt", k))
        elif r < 0.95:
            ops.append(("at", k, int(rng.random() < 0.5)))
        elif r < 0.97:
            ops.append(("ed", k))
        else:
            v = fresh()
            ops.append(("ei", k, v))
            vals[k] = v
    if rng.random() < 0.3:
        # a loaded instance handed back to the Session in a transaction that does no SQL, a commit
        # with nothing to flush, then the other connection writes
        k, a = rng.randrange(npk), rng.randrange(NATTR)
        motif = [("r", k, a), ("dt", k), ("c",), ("at", k, int(rng.random() < 0.5)), ("c",), ("es", k, a, fresh()), ("r", k, a)]
        pos = rng.randrange(len(ops) + 1)
        ops[pos:pos] = motif
    if rng.random() < 0.3:
        # the other connection writes, then a query whose rows carry only some of the columns
        # meets the (usually loaded, possibly pending) instance
        k = rng.randrange(npk)
        cols = sorted(rng.sample(range(NATTR), rng.choice([0, 1, 1, 2])))
        motif = [("es", k, a, fresh()) for a in rng.sample(range(NATTR), rng.choice([1, 2, 3]))]
        if rng.random() < 0.4:
            motif.insert(rng.randrange(len(motif) + 1), ("s", k, rng.randrange(NATTR), 100 + fresh()))
        motif.append(Q(rng.random() < 0.75, None, cols, rng.randrange(2)))
        pos = rng.randrange(len(ops) + 1)
        ops[pos:pos] = motif
    # read everything at the end: the reads are what the property is about
    for k in range(npk):
        for a in range(NATTR):
            if rng.random() < 0.7:
                ops.append(("r", k, a))
    return npk, ops


def to_joined(ops):
    """the same history for the joined-inheritance mapping: a partial-column query becomes a query
    of the base class (rows carry a0 only)"""
    return [Q(o[1], o[2], [0], 2) if o[0] == "q" and o[3] is not None else o for o in ops]


# joined-table inheritance: the row is deleted by the other connection, one subclass-table attribute is
# expired and read twice: ObjectDeletedError both times (Props/C46 unexpire_deleted_row_raises).  Before
# fix eeca727: KeyError, then None (KF_JOINED_DELETED).  Run first in every run, direct oracle only.
JOINED_DELETED_WITNESS = {
    "variant": "joined", "npk": 1, "af": 0, "eoc": 0, "src": "witness-joined-deleted",
    "ops": [("ei", 0, 11), ("q", False, None, None, 0), ("ed", 0), ("x", 0, [1]), ("r", 0, 1), ("r", 0, 1)],
}


def small_scope(length, variant="single"):
    """all sequences over a 1-row alphabet after create+load, followed by reads of every attribute"""
    import itertools

    prefix = [("ei", 0, 1), Q(False)]
    alpha = [
        ("es", 0, 0, 21), ("es", 0, 1, 22), ("s", 0, 0, 31), ("s", 0, 1, 32), ("x", 0, None), ("x", 0, [0]), ("x", 0, [1]),
        ("X",), ("f", 0, None), ("f", 0, [1]), Q(True), Q(False), ("r", 0, 0), ("r", 0, 1), ("F",), ("c",), ("b",), ("ed", 0),
        ("dt", 0), ("at", 0, 0), ("at", 0, 1),
    ]
    if variant == "single":
        alpha += [Q(True, None, [0], 0), Q(True, None, [1], 1), Q(False, None, [0], 1), Q(True, None, [], 0)]
    else:
        alpha += [Q(True, None, [0], 2), Q(False, None, [0], 2)]
    for seq in itertools.product(alpha, repeat=length):
        yield prefix + list(seq) + [("r", 0, 0), ("r", 0, 1), ("r", 0, 2)]


def gen_cases(ctx, deep=False):
    thorough = ctx.tier == "thorough" or deep
    nrand = 20000 if thorough else NRAND_QUICK
    for _ in range(nrand):
        npk, ops = gen_random(ctx.rng, ctx.tier)
        joined = ctx.rng.random() < 0.2
        yield {"npk": npk, "af": ctx.rng.choice([0, 1, 1]), "eoc": ctx.rng.choice([0, 1, 1]), "ops": to_joined(ops) if joined else ops,
               "variant": "joined" if joined else "single", "src": "random"}
    for seq in small_scope(2):
        yield {"npk": 1, "af": ctx.rng.choice([0, 1]), "eoc": ctx.rng.choice([0, 1]), "ops": seq, "src": "small2"}
    for seq in small_scope(2, "joined"):
        if thorough or ctx.rng.random() < SMALL2J_QUICK:
            yield {"npk": 1, "af": ctx.rng.choice([0, 1]), "eoc": ctx.rng.choice([0, 1]), "ops": seq, "variant": "joined", "src": "small2-joined"}
    for seq in small_scope(3):
        if thorough or ctx.rng.random() < SMALL3_QUICK:
            yield {"npk": 1, "af": ctx.rng.choice([0, 1]), "eoc": ctx.rng.choice([0, 1]), "ops": seq, "src": "small3"}


def jsonable(case):
    c = dict(case)
    c["ops"] = [list(o) for o in case["ops"]]
    return c


def unjson(c):
    ops = []
    for o in c["ops"]:
        o = list(o)
        if o[0] in ("x", "f") and o[2] is not None:
            o[2] = list(o[2])
        if o[0] == "q":
            if o[2] is not None:
                o[2] = tuple(o[2])
            o += [None, 0][len(o) - 3:]  # cases recorded before the column-subset dimension existed
            if o[3] is not None:
                o[3] = list(o[3])
        ops.append(tuple(o))
    return dict(c, ops=ops)


def _budget_exhausted(ctx, t0, n):
    """a broken tree can make every history slow (leaks, lock waits): stop generating in time
    and judge what was run"""
    import time

    limit = 70 if ctx.tier == "quick" else 650
    if time.time() - t0 > limit:
        ctx.assumptions.append("time budget reached after %d cases; remaining generated cases not run" % n)
        return True
    return False


def run(ctx, deep=False):
    ctx.rule = (
        "histories of external update/delete/insert (second connection, fresh values) interleaved with read/set/expire(obj[,attrs])/expire_all/"
        "refresh(obj[,attrs])/query[populate_existing][filter][columns carried by the rows: all = select(T), or pk + any subset (also empty) of the "
        "attributes via from_statement(select(T.id, ...)) or from_statement(text(...))]/flush/commit/rollback/expunge/add/merge(load=False) on a real "
        "Session over a SQLite file, 1-3 rows x 3 attributes, autoflush and expire_on_commit on/off; random (seeded, 30% with an "
        "external-write + partial-column-query motif; 20% on a joined-table-inheritance mapping where the partial-column query is select(Base), "
        "external deletes included) + all 2-op (and 5% quick / all thorough 3-op) sequences over a 25-letter one-row alphabet + 50% quick / all "
        "thorough 2-op sequences over a 23-letter alphabet on the joined mapping + the fixed witness of the defect fixed by eeca727 (direct oracle only); "
        "non-trivial = at least one attribute read returned a value"
    )
    ctx.trusted.append("SQLite file database: no read snapshot (pysqlite), writers serialised; the other connection fails fast on a lock and the op is skipped on both sides")
    import time

    t0 = time.time()
    cases, impl_out, reqs = [], [], []
    wline, wproblems = run_history(JOINED_DELETED_WITNESS)
    ctx.case(("witness", wline), nontrivial=True)
    ctx.count("src=" + JOINED_DELETED_WITNESS["src"])
    for key, detail in wproblems:
        ctx.violation(key, jsonable(JOINED_DELETED_WITNESS), detail)
    for case in gen_cases(ctx, deep):
        if _budget_exhausted(ctx, t0, len(cases)):
            break
        line, problems = run_history(case)
        jc = jsonable(case)
        ctx.case((case.get("variant", "single"), case["af"], case["eoc"], jc["ops"]), nontrivial=(";v" in line or line.startswith("v")))
        ctx.count("src=" + case["src"])
        ctx.count("mapping=" + case.get("variant", "single"))
        for tag in ("gone", "norow", "stale"):
            if tag in line:
                ctx.count("outcome-seen=" + tag)
        for o in case["ops"][1:]:
            if o[0] == "q":
                ctx.count("query pop=%d cols=%s" % (o[1], "all" if o[3] is None else ("partial/select", "partial/text", "partial/joined-inheritance-base")[o[4]]))
        for key, detail in problems:
            ctx.violation(key, jc, detail)
        cases.append(jc)
        if len(ctx.violations) >= 25:  # enough evidence; a broken tree can make every history slow
            impl_out.append(line)
            reqs.append(request(case))
            break
        impl_out.append(line)
        reqs.append(request(case))
        if case["src"] == "random" and len(ctx.samples) < 4:
            ctx.sample({"case": jc, "impl": line})
    if ctx.driver_ok():
        ctx.correspond("corr/c46:session-on-sqlite-vs-Model.Expire", cases, impl_out, ctx.driver(reqs))
        bad = ["expire run 1 3 1 1 r:2:0", "expire run 1 3 1 1 x:0:5", "expire run 1 3 2 1 -", "expire run 1 3 1 1 q:1:9=1:*", "expire run 1 3 1 1 zz",
               "expire run 1 3 1 1 q:1:*", "expire run 1 3 1 1 q:1:*:3", "expire run 1 3 1 1 q:1:*:0+x", "expire run 1 3 1 1 q:2:*:*", "expire run 1 3 1 1 x:0:-"]
        ctx.correspond("corr/c46:malformed-rejected", [{"req": b} for b in bad], ["bad-op"] * len(bad), ctx.driver(bad))


def search(ctx, broken):
    for d in ctx.disagreements:
        c = d.get("case")
        if isinstance(c, dict) and "ops" in c:
            _, problems = run_history(unjson(c))
            for key, detail in problems:
                ctx.violation(key, c, detail)
    if ctx.violations:
        return
    sub = type(ctx)(ctx.pid, "thorough", ctx.seed + 1, ctx.level)
    run(sub, deep=True)
    ctx.violations.extend(sub.violations)


def replay(ctx, obj):
    case = unjson(obj["case"])
    line, problems = run_history(case)
    print("replay C46 %s\n  impl: %s\n  oracle: %s" % (request(case), line, problems))
    return bool(problems)
