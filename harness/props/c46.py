"""C46 — expired and refreshed attributes reflect the database.

Model: lean/SaVerif/Model/Expire.lean (one Session's identity map and attribute
states over a table that another connection also writes; transcription of
InstanceState._expire/_expire_attributes/_load_expired, Session.refresh,
loading._instance_processor's populate_existing / partial population, autoflush,
flush of modified attributes, commit with expire_on_commit, rollback).
Theorems: lean/SaVerif/Props/C46.lean.

Real side: a real Session on a SQLite *file* plus a second, raw connection that
updates / deletes / inserts rows and commits.  A history interleaves external
writes with read / set / expire(obj[, attrs]) / expire_all / refresh(obj[, attrs]) /
query [populate_existing] / flush / commit / rollback, and with the application detaching a
loaded instance (expunge) and handing it back later (add, or merge(load=False)) so that a
loaded instance sits in a transaction that never touched the database.

Direct oracle (independent of the Lean model; never compares with it): the harness
keeps the truth (what the session's transaction can see: the other connection's
commits plus the session's own flushed values, from its own bookkeeping and the
after_flush event) and, per attribute, whether the application has a pending value
or invalidated the attribute.  A read must return the pending value if there is
one; after an invalidation the first read must return a value the database held at
some moment since the invalidation (never an older cached one); otherwise the
value read before.  External writes use globally fresh values so that a stale
value cannot be mistaken for a current one.
"""
import os
import shutil
import tempfile
import warnings

PID = "C46"
LEVEL = "proof"
LEAN = ["SaVerif.Props.C46"]
META = {
    "text": "Lean theorems over the session/database transition system for ALL histories: reading an expired attribute returns the row's current value and pending changes of the same object are kept (read_expired_eq_db); after expire / expire_all / refresh / commit with expire_on_commit / rollback / a populate_existing query that matched the row, the next read returns the database value (fresh_after_*, read_of_fresh); a pending value survives every operation that does not expire, refresh, repopulate, flush or roll back that attribute (pending_survives); and, by induction over arbitrary operation sequences without external writes, every loaded unmodified attribute equals the database (coh_run; user-level corollary read_coherent), coherence being re-established by expire_all/commit/rollback after any external interference (coh_after_expireAll, coh_after_rollback, coh_after_commit_eoc). The model is tied to orm/state.py, session.py, loading.py by a differential run on a real Session over a SQLite file with a second writer connection; the property itself is re-checked by an independent reference that tracks the truth and the invalidations.",
    "note": "Trusted: Lean kernel; correspondence harness (sampling + exhaustive short sequences); SQLite (no read snapshot is held by pysqlite, so 'current for the transaction' = latest commit + own flushed changes; snapshot-isolation backends are not modelled). Relationship / collection / deferred attributes and refresh with_for_update are not modelled (column attributes only).",
    "technique": "Lean 4 invariant proofs over a session/database LTS + differential correspondence on SQLite + independent reference oracle",
    "design_ref": "DESIGN.md §3 C30–C48 (C46)",
}

NATTR = 3
_W = None
_TMP = None


def _tmpdir():
    global _TMP
    if _TMP is None:
        base = "/dev/shm" if os.path.isdir("/dev/shm") else None
        _TMP = tempfile.mkdtemp(prefix="verif-c46-", dir=base)
        import atexit

        atexit.register(shutil.rmtree, _TMP, True)
    return _TMP


class World:
    def __init__(self):
        import sqlalchemy as sa
        from sqlalchemy.orm import declarative_base

        fn = os.path.join(_tmpdir(), "c46.db")
        self.engine = sa.create_engine("sqlite:///" + fn)
        # the other connection must fail at once instead of waiting for a lock
        self.ext_engine = sa.create_engine("sqlite:///" + fn, connect_args={"timeout": 0})
        Base = declarative_base()
        from harness.lib_orm2 import odd_mixin

        class T(odd_mixin("id", "a0", "a1", "a2"), Base):
            __tablename__ = "t"
            id = sa.Column(sa.Integer, primary_key=True, autoincrement=False)
            a0 = sa.Column(sa.Integer)
            a1 = sa.Column(sa.Integer)
            a2 = sa.Column(sa.Integer)

        self.T = T
        Base.metadata.drop_all(self.engine)
        Base.metadata.create_all(self.engine)
        self.ext = self.ext_engine.connect()

    def reset(self):
        self.ext.exec_driver_sql("delete from t")
        self.ext.commit()

    def ext_exec(self, sql, params=()):
        """returns True when applied, False when SQLite refused (session holds the write lock)"""
        from sqlalchemy.exc import OperationalError

        try:
            self.ext.exec_driver_sql(sql, params)
            self.ext.commit()
            return True
        except OperationalError as e:
            self.ext.rollback()
            if "locked" in str(e):
                return False
            raise


def world():
    global _W
    if _W is None:
        _W = World()
    return _W


def run_history(case):
    """returns (impl_line, problems); an exception other than the documented ones
    escaping from a session operation on valid state is itself a defect"""
    import traceback

    try:
        return _run_history(case)
    except Exception as e:
        tb = traceback.extract_tb(e.__traceback__)
        where = ["%s:%d" % (os.path.basename(f.filename), f.lineno) for f in tb if "sqlalchemy" in f.filename][-3:]
        return "crash:" + type(e).__name__, [("unexpected-exception", "%s: %s at %s" % (type(e).__name__, str(e)[:200], where))]


def _run_history(case):
    """returns (impl_line, problems)"""
    import sqlalchemy as sa
    from sqlalchemy import event, inspect
    from sqlalchemy.exc import InvalidRequestError
    from sqlalchemy.orm import Session
    from sqlalchemy.orm.exc import ObjectDeletedError, StaleDataError

    w = world()
    w.reset()
    T = w.T
    npk, af, eoc, ops = case["npk"], case["af"], case["eoc"], case["ops"]
    sess = Session(w.engine, autoflush=bool(af), expire_on_commit=bool(eoc))
    objs = {}
    detached = {}
    outs = []
    problems = []
    # ---------------- reference shadow
    truth = {}  # k -> [v0, v1, v2] as visible to the session's transaction
    committed = {"snap": None}  # snapshot of truth taken at the first flush of a transaction
    status = {}  # (k, a) -> ("pending", v) | ("inval", set(values) incl. "gone") | ("val", v)

    def tval(k, a):
        return truth[k][a] if k in truth else "gone"

    def invalidate(k, a):
        status[(k, a)] = ("inval", {tval(k, a)})

    def truth_changed(k):
        for a in range(NATTR):
            st = status.get((k, a))
            if st and st[0] == "inval":
                st[1].add(tval(k, a))

    def after_flush(session, ctx):
        # pending values reach the database (as seen by this transaction)
        if committed["snap"] is None:
            committed["snap"] = {k: list(v) for k, v in truth.items()}
        for (k, a), st in list(status.items()):
            if st[0] == "pending" and k in truth:
                truth[k][a] = st[1]
                status[(k, a)] = ("val", st[1])
        for k in list(truth):
            truth_changed(k)

    event.listen(sess, "after_flush", after_flush)

    def on_rollback():
        if committed["snap"] is not None:
            truth.clear()
            truth.update({k: list(v) for k, v in committed["snap"].items()})
            committed["snap"] = None
        for k in objs:
            for a in range(NATTR):
                invalidate(k, a)

    def attrnames(l):
        return None if l is None else ["a%d" % a for a in l]

    def covered(l):
        return range(NATTR) if l is None else l

    try:
        with warnings.catch_warnings():
            warnings.simplefilter("ignore")
            for op in ops:
                kind = op[0]
                if kind == "r":
                    k, a = op[1], op[2]
                    if k not in objs:
                        outs.append("-")
                        continue
                    st = status.get((k, a))
                    try:
                        v = getattr(objs[k], "a%d" % a)
                        outs.append("v%s" % v)
                        got = v
                    except (ObjectDeletedError, StaleDataError) as e:
                        if not sess.is_active:  # raised by the autoflush: the session needs a rollback
                            sess.rollback()
                            on_rollback()
                            outs.append("stale")
                            continue
                        if isinstance(e, StaleDataError):
                            raise
                        outs.append("gone")
                        got = "gone"
                    # ---- oracle
                    if st is None:
                        problems.append(("read-untracked", "(%d,a%d)" % (k, a)))
                    elif st[0] == "pending":
                        if got != st[1]:
                            problems.append(("pending-value-lost", "read (%d,a%d) -> %s but the application set %s and never expired it" % (k, a, got, st[1])))
                    elif st[0] == "val":
                        if got != st[1]:
                            problems.append(("cached-value-changed", "read (%d,a%d) -> %s, previously %s, with no expire/refresh in between" % (k, a, got, st[1])))
                    else:
                        st[1].add(tval(k, a))
                        if got not in st[1]:
                            problems.append(("stale-after-invalidation", "read (%d,a%d) -> %s but since it was expired/refreshed the database held %s" % (k, a, got, sorted(map(str, st[1])))))
                        if got != "gone":
                            status[(k, a)] = ("val", got)
                elif kind == "s":
                    k, a, v = op[1], op[2], op[3]
                    if k not in objs:
                        outs.append("-")
                        continue
                    setattr(objs[k], "a%d" % a, v)
                    status[(k, a)] = ("pending", v)
                    outs.append("d")
                elif kind == "x":
                    k, l = op[1], op[2]
                    if k not in objs:
                        outs.append("-")
                        continue
                    sess.expire(objs[k], attrnames(l))
                    for a in covered(l):
                        invalidate(k, a)
                    outs.append("d")
                elif kind == "X":
                    sess.expire_all()
                    for k in objs:
                        for a in range(NATTR):
                            invalidate(k, a)
                    outs.append("d")
                elif kind == "f":
                    k, l = op[1], op[2]
                    if k not in objs:
                        outs.append("-")
                        continue
                    # refresh discards pending changes of the covered attributes first
                    for a in covered(l):
                        invalidate(k, a)
                    try:
                        sess.refresh(objs[k], attribute_names=attrnames(l))
                        outs.append("d")
                        for a in covered(l):
                            invalidate(k, a)  # loaded just now: only the current truth is acceptable
                    except (StaleDataError, ObjectDeletedError):
                        sess.rollback()
                        on_rollback()
                        outs.append("stale")
                    except InvalidRequestError:
                        outs.append("norow")
                        if k in truth:
                            problems.append(("refresh-failed-row-exists", "refresh(%d) raised but the row exists" % k))
                elif kind == "q":
                    pop, filt = op[1], op[2]
                    stmt = sa.select(T)
                    if filt is not None:
                        stmt = stmt.where(getattr(T, "a%d" % filt[0]) == filt[1])
                    if pop:
                        stmt = stmt.execution_options(populate_existing=True)
                    try:
                        res = sess.execute(stmt).scalars().all()
                    except (StaleDataError, ObjectDeletedError):
                        sess.rollback()
                        on_rollback()
                        outs.append("stale")
                        continue
                    expected = sorted(k for k, r in truth.items() if filt is None or r[filt[0]] == filt[1])
                    gotk = sorted(o.id for o in res)
                    if gotk != expected:
                        problems.append(("query-rows", "query %s returned ids %s, truth says %s" % (filt, gotk, expected)))
                    for o in res:
                        k = o.id
                        if k not in objs:
                            objs[k] = o
                            for a in range(NATTR):
                                invalidate(k, a)
                        elif objs[k] is not o:
                            problems.append(("identity", "two objects for pk %d" % k))
                        elif pop:
                            for a in range(NATTR):
                                invalidate(k, a)
                    outs.append("d")
                elif kind in ("F", "c"):
                    try:
                        if kind == "F":
                            sess.flush()
                        else:
                            sess.commit()
                            committed["snap"] = None
                            if eoc:
                                for k in objs:
                                    for a in range(NATTR):
                                        invalidate(k, a)
                        outs.append("d")
                    except (StaleDataError, ObjectDeletedError):
                        sess.rollback()
                        on_rollback()
                        outs.append("stale")
                elif kind == "b":
                    if sess.in_transaction():
                        sess.rollback()
                        on_rollback()
                    else:
                        sess.rollback()
                    outs.append("d")
                elif kind == "es":
                    k, a, v = op[1], op[2], op[3]
                    if k in truth and w.ext_exec("update t set a%d = ? where id = ?" % a, (v, k)):
                        committed["snap"] = None  # SQLite let it through: the session holds no uncommitted DML
                        truth[k][a] = v
                        truth_changed(k)
                        outs.append("d")
                    else:
                        outs.append("-")
                elif kind == "ed":
                    k = op[1]
                    if k in truth and w.ext_exec("delete from t where id = ?", (k,)):
                        committed["snap"] = None
                        del truth[k]
                        truth_changed(k)
                        outs.append("d")
                    else:
                        outs.append("-")
                elif kind == "ei":
                    k, v = op[1], op[2]
                    if k not in truth and w.ext_exec("insert into t (id, a0, a1, a2) values (?, ?, ?, ?)", (k, v, v, v)):
                        committed["snap"] = None
                        truth[k] = [v, v, v]
                        truth_changed(k)
                        outs.append("d")
                    else:
                        outs.append("-")
                elif kind == "dt":
                    # the application keeps a loaded, unmodified instance while the Session lets go of it
                    k = op[1]
                    if k in objs and k not in detached and not inspect(objs[k]).modified:
                        sess.expunge(objs[k])
                        detached[k] = objs.pop(k)
                        outs.append("d")
                    else:
                        outs.append("-")
                elif kind == "at":
                    # ... and hands it back: add(obj), or merge(obj, load=False)
                    k, via_merge = op[1], op[2]
                    key = inspect(T).identity_key_from_primary_key((k,))
                    if k in detached and k not in objs and sess.identity_map.get(key) is None:
                        o = detached.pop(k)
                        if via_merge:
                            o = sess.merge(o, load=False)
                        else:
                            sess.add(o)
                        objs[k] = o
                        outs.append("d")
                    else:
                        outs.append("-")
                else:
                    raise ValueError(op)
            # ---- final state dump (session view of the rows through its own connection)
            parts = []
            view = {r[0]: tuple(r[1:]) for r in sess.connection().exec_driver_sql("select id, a0, a1, a2 from t")}
            if {k: tuple(v) for k, v in truth.items()} != view:
                problems.append(("truth-bookkeeping", "reference truth %s != session view %s" % (truth, view)))
            for k in range(npk):
                if k in objs:
                    o = objs[k]
                    cs = inspect(o).committed_state
                    d = ",".join(
                        (str(o.__dict__["a%d" % a]) if ("a%d" % a) in o.__dict__ else "N") + ("*" if ("a%d" % a) in cs else "")
                        for a in range(NATTR)
                    )
                    so = ("+" if "id" in o.__dict__ else "-") + "[" + d + "]"
                else:
                    so = "none"
                sr = "(" + ",".join(str(x) for x in view[k]) + ")" if k in view else "none"
                parts.append("%d=%s/%s" % (k, so, sr))
    finally:
        try:
            sess.close()
        except Exception:
            pass
    return ";".join(outs) + " | " + " ".join(parts), problems


# ---------------------------------------------------------------------- encoding
def enc_attrs(l):
    return "*" if l is None else "+".join(str(a) for a in l)


def enc_op(op):
    k = op[0]
    if k in ("x", "f"):
        return "%s:%d:%s" % (k, op[1], enc_attrs(op[2]))
    if k == "q":
        return "q:%d:%s" % (1 if op[1] else 0, "*" if op[2] is None else "%d=%d" % tuple(op[2]))
    return ":".join(str(x) for x in op)


def request(case):
    return "expire run %d %d %d %d %s" % (case["npk"], NATTR, case["af"], case["eoc"], ",".join(enc_op(o) for o in case["ops"]) or "-")


# ---------------------------------------------------------------------- generators
class Fresh:
    def __init__(self):
        self.n = 10

    def __call__(self):
        self.n += 1
        return self.n


def rand_attrs(rng):
    r = rng.random()
    if r < 0.45:
        return None
    n = rng.choice([1, 1, 2])
    return sorted(rng.sample(range(NATTR), n))


def gen_random(rng, tier):
    fresh = Fresh()
    npk = rng.choice([1, 2, 2, 3])
    ops = []
    vals = {}
    for k in range(npk):
        if rng.random() < 0.9:
            v = fresh()
            ops.append(("ei", k, v))
            vals[k] = v
    ops.append(("q", False, None))
    n = rng.randint(5, 14 if tier == "quick" else 24)
    for _ in range(n):
        k = rng.randrange(npk)
        a = rng.randrange(NATTR)
        r = rng.random()
        if r < 0.22:
            ops.append(("r", k, a))
        elif r < 0.36:
            ops.append(("es", k, a, fresh()))
        elif r < 0.48:
            ops.append(("s", k, a, 100 + fresh()))
        elif r < 0.58:
            ops.append(("x", k, rand_attrs(rng)))
        elif r < 0.62:
            ops.append(("X",))
        elif r < 0.70:
            ops.append(("f", k, rand_attrs(rng)))
        elif r < 0.78:
            filt = None if rng.random() < 0.5 else (a, rng.choice(list(vals.values()) or [0]))
            ops.append(("q", rng.random() < 0.6, filt))
        elif r < 0.82:
            ops.append(("F",))
        elif r < 0.88:
            ops.append(("c",))
        elif r < 0.92:
            ops.append(("b",))
        elif r < 0.935:
            ops.append(("dt", k))
        elif r < 0.95:
            ops.append(("at", k, int(rng.random() < 0.5)))
        elif r < 0.97:
            ops.append(("ed", k))
        else:
            v = fresh()
            ops.append(("ei", k, v))
            vals[k] = v
    if rng.random() < 0.3:
        # a loaded instance handed back to the Session in a transaction that does no SQL, a commit
        # with nothing to flush, then the other connection writes
        k, a = rng.randrange(npk), rng.randrange(NATTR)
        motif = [("r", k, a), ("dt", k), ("c",), ("at", k, int(rng.random() < 0.5)), ("c",), ("es", k, a, fresh()), ("r", k, a)]
        pos = rng.randrange(len(ops) + 1)
        ops[pos:pos] = motif
    # read everything at the end: the reads are what the property is about
    for k in range(npk):
        for a in range(NATTR):
            if rng.random() < 0.7:
                ops.append(("r", k, a))
    return npk, ops


def small_scope(length):
    """all sequences over a 1-row alphabet after create+load, followed by reads of every attribute"""
    import itertools

    prefix = [("ei", 0, 1), ("q", False, None)]
    alpha = [
        ("es", 0, 0, 21), ("es", 0, 1, 22), ("s", 0, 0, 31), ("s", 0, 1, 32), ("x", 0, None), ("x", 0, [0]), ("x", 0, [1]),
        ("X",), ("f", 0, None), ("f", 0, [1]), ("q", True, None), ("q", False, None), ("r", 0, 0), ("r", 0, 1), ("F",), ("c",), ("b",), ("ed", 0),
        ("dt", 0), ("at", 0, 0), ("at", 0, 1),
    ]
    for seq in itertools.product(alpha, repeat=length):
        yield prefix + list(seq) + [("r", 0, 0), ("r", 0, 1), ("r", 0, 2)]


def gen_cases(ctx, deep=False):
    thorough = ctx.tier == "thorough" or deep
    nrand = 20000 if thorough else 2200
    for _ in range(nrand):
        npk, ops = gen_random(ctx.rng, ctx.tier)
        yield {"npk": npk, "af": ctx.rng.choice([0, 1, 1]), "eoc": ctx.rng.choice([0, 1, 1]), "ops": ops, "src": "random"}
    for seq in small_scope(2):
        yield {"npk": 1, "af": ctx.rng.choice([0, 1]), "eoc": ctx.rng.choice([0, 1]), "ops": seq, "src": "small2"}
    for seq in small_scope(3):
        if thorough or ctx.rng.random() < 0.08:
            yield {"npk": 1, "af": ctx.rng.choice([0, 1]), "eoc": ctx.rng.choice([0, 1]), "ops": seq, "src": "small3"}


def jsonable(case):
    c = dict(case)
    c["ops"] = [list(o) for o in case["ops"]]
    return c


def unjson(c):
    ops = []
    for o in c["ops"]:
        o = list(o)
        if o[0] in ("x", "f") and o[2] is not None:
            o[2] = list(o[2])
        if o[0] == "q" and o[2] is not None:
            o[2] = tuple(o[2])
        ops.append(tuple(o))
    return dict(c, ops=ops)


def _budget_exhausted(ctx, t0, n):
    """a broken tree can make every history slow (leaks, lock waits): stop generating in time
    and judge what was run"""
    import time

    limit = 70 if ctx.tier == "quick" else 650
    if time.time() - t0 > limit:
        ctx.assumptions.append("time budget reached after %d cases; remaining generated cases not run" % n)
        return True
    return False


def run(ctx, deep=False):
    ctx.rule = (
        "histories of external update/delete/insert (second connection, fresh values) interleaved with read/set/expire(obj[,attrs])/expire_all/"
        "refresh(obj[,attrs])/query[populate_existing][filter]/flush/commit/rollback on a real Session over a SQLite file, 1-3 rows x 3 attributes, "
        "autoflush and expire_on_commit on/off; random (seeded) + all 2-op (and 8% quick / all thorough 3-op) sequences over an 21-letter one-row alphabet; "
        "non-trivial = at least one attribute read returned a value"
    )
    ctx.trusted.append("SQLite file database: no read snapshot (pysqlite), writers serialised; the other connection fails fast on a lock and the op is skipped on both sides")
    import time

    t0 = time.time()
    cases, impl_out, reqs = [], [], []
    for case in gen_cases(ctx, deep):
        if _budget_exhausted(ctx, t0, len(cases)):
            break
        line, problems = run_history(case)
        jc = jsonable(case)
        ctx.case((case["af"], case["eoc"], jc["ops"]), nontrivial=(";v" in line or line.startswith("v")))
        ctx.count("src=" + case["src"])
        for tag in ("gone", "norow", "stale"):
            if tag in line:
                ctx.count("outcome-seen=" + tag)
        for key, detail in problems:
            ctx.violation(key, jc, detail)
        cases.append(jc)
        if len(ctx.violations) >= 25:  # enough evidence; a broken tree can make every history slow
            impl_out.append(line)
            reqs.append(request(case))
            break
        impl_out.append(line)
        reqs.append(request(case))
        if case["src"] == "random" and len(ctx.samples) < 4:
            ctx.sample({"case": jc, "impl": line})
    if ctx.driver_ok():
        ctx.correspond("corr/c46:session-on-sqlite-vs-Model.Expire", cases, impl_out, ctx.driver(reqs))
        bad = ["expire run 1 3 1 1 r:2:0", "expire run 1 3 1 1 x:0:5", "expire run 1 3 2 1 -", "expire run 1 3 1 1 q:1:9=1", "expire run 1 3 1 1 zz"]
        ctx.correspond("corr/c46:malformed-rejected", [{"req": b} for b in bad], ["bad-op"] * len(bad), ctx.driver(bad))


def search(ctx, broken):
    for d in ctx.disagreements:
        c = d.get("case")
        if isinstance(c, dict) and "ops" in c:
            _, problems = run_history(unjson(c))
            for key, detail in problems:
                ctx.violation(key, c, detail)
    if ctx.violations:
        return
    sub = type(ctx)(ctx.pid, "thorough", ctx.seed + 1, ctx.level)
    run(sub, deep=True)
    ctx.violations.extend(sub.violations)


def replay(ctx, obj):
    case = unjson(obj["case"])
    line, problems = run_history(case)
    print("replay C46 %s\n  impl: %s\n  oracle: %s" % (request(case), line, problems))
    return bool(problems)
