"""C45 — Session.merge copies state onto the session's single instance.

Model: lean/SaVerif/Model/Merge.lean (column-attribute core of Session._merge /
ColumnProperty.merge: identity-map hit, Session.get, new pending instance, load=False
path, attribute history).  Theorems: lean/SaVerif/Props/C45.lean.

Two streams on a real Session (autoflush off) over SQLite:
 A. flat histories (insert row / load / set / merge(load=True|False) of detached or
    transient sources with partially loaded attributes / flush) — compared with the Lean
    model op by op (returned values, net-change flag, number of SQL statements) and
    checked by the oracle;
 B. object graphs Parent(id, a, children=[Child(id, c)]) with partially loaded
    attributes and collections — oracle only.

Direct oracle (never uses the model): the instance returned by merge is THE instance
the Session holds for that identity (identity map or session.new, `is`), merging again
returns the very same object; every attribute loaded on the source is equal on the
result, every attribute not loaded on the source keeps the value the Session / database
had; a second merge of an equal source changes no value, no history and creates no
object; with load=False no statement is emitted and nothing is flagged modified; after
flush the rows equal the merged state (graph stream: children rows point to the parent,
children removed from the collection are detached from it).
"""
import os
import shutil
import tempfile
import warnings

PID = "C45"
LEVEL = "proof"
LEAN = ["SaVerif.Props.C45"]
META = {
    "text": "Lean theorems over the merge model for ALL session states and ALL sources (any partial loading): every attribute loaded on the source is equal on the merged instance and every attribute not loaded keeps its value (merge_copies_loaded); merging an equal source again leaves the whole session state unchanged and emits no SQL (merge_idempotent; hypothesis: the first merge did not create a still-pending instance, for which the second merge is skipped by the harness - documented behaviour with autoflush off); with load=False no SQL is emitted, the database is untouched and the result carries no net change (merge_noload_no_sql_no_change), and transient / dirty-and-absent sources are rejected (merge_noload_rejects). Tied to orm/session.py, properties.py by a differential run (values, net-change flag, SQL statement count per merge); identity of the returned instance, idempotence, graph cascades and flushed rows are re-checked on the real objects by an independent oracle.",
    "note": "Trusted: Lean kernel; correspondence; SQLite. In the model the identity map is a function of the primary key, so 'the single instance' is by construction there: object identity (`is`) is established only by the oracle on the real objects. Relationship cascade of merge is covered by the oracle stream only (not modelled in Lean). autoflush is off; sources always carry a full primary key.",
    "technique": "Lean 4 proofs over a merge model + differential correspondence incl. SQL statement counts + direct oracle on real object graphs",
    "design_ref": "DESIGN.md §3 C45",
}

_W = None
_TMP = None


def _tmpdir():
    global _TMP
    if _TMP is None:
        base = "/dev/shm" if os.path.isdir("/dev/shm") else None
        _TMP = tempfile.mkdtemp(prefix="verif-c45-", dir=base)
        import atexit

        atexit.register(shutil.rmtree, _TMP, True)
    return _TMP


class World:
    def __init__(self):
        import sqlalchemy as sa
        from sqlalchemy import event
        from sqlalchemy.orm import declarative_base, relationship

        self.sa = sa
        self.engine = sa.create_engine("sqlite:///" + os.path.join(_tmpdir(), "c45.db"))
        Base = declarative_base()

        class T(Base):
            __tablename__ = "t"
            id = sa.Column(sa.Integer, primary_key=True, autoincrement=False)
            a = sa.Column(sa.Integer)
            b = sa.Column(sa.Integer)

        class P(Base):
            __tablename__ = "p"
            id = sa.Column(sa.Integer, primary_key=True, autoincrement=False)
            a = sa.Column(sa.Integer)
            children = relationship("C", order_by="C.id", backref="parent")

        class C(Base):
            __tablename__ = "c"
            id = sa.Column(sa.Integer, primary_key=True, autoincrement=False)
            pid = sa.Column(sa.Integer, sa.ForeignKey("p.id"))
            c = sa.Column(sa.Integer)

        self.T, self.P, self.C = T, P, C
        Base.metadata.drop_all(self.engine)
        Base.metadata.create_all(self.engine)
        self.nsql = 0

        @event.listens_for(self.engine, "before_cursor_execute")
        def count(conn, cursor, statement, parameters, context, executemany):
            self.nsql += 1

    def reset(self):
        with self.engine.begin() as c:
            for t in ("c", "p", "t"):
                c.exec_driver_sql("delete from " + t)


def world():
    global _W
    if _W is None:
        _W = World()
    return _W


def guarded(fn):
    def wrapper(case):
        import traceback

        try:
            return fn(case)
        except Exception as e:
            tb = traceback.extract_tb(e.__traceback__)
            where = ["%s:%d" % (os.path.basename(f.filename), f.lineno) for f in tb if "sqlalchemy" in f.filename][-3:]
            return "crash:" + type(e).__name__, [("unexpected-exception", "%s: %s at %s" % (type(e).__name__, str(e)[:200], where))]

    return wrapper


def nz(v):
    """NULL is printed as 0 on both sides (the model has no NULL)"""
    return 0 if v is None else v


def make_source(T, spec, **extra):
    """spec: dict attr -> value for the loaded attributes; persistent / modified flags"""
    from sqlalchemy.orm import make_transient_to_detached

    kw = {k: v for k, v in spec["attrs"].items() if v is not None}
    o = T(id=spec["pk"], **kw)
    if spec["persistent"]:
        make_transient_to_detached(o)
        if spec.get("modified"):
            # re-assign a loaded attribute: same value, but the state is now dirty
            for k, v in kw.items():
                setattr(o, k, v)
                break
            else:
                o.id = spec["pk"]
    return o


@guarded
def run_flat(case):
    from sqlalchemy import inspect
    from sqlalchemy.exc import InvalidRequestError
    from sqlalchemy.orm import Session

    w = world()
    w.reset()
    T = w.T
    n, ops = case["n"], case["ops"]
    sess = Session(w.engine, autoflush=False, expire_on_commit=False)
    keep = []
    noload_pks = set()  # load=False asserts the source IS the database state: not comparable afterwards
    outs, problems = [], []

    def ident(k):
        return sess.identity_map.get(inspect(T).identity_key_from_primary_key((k,)))

    def pending(k):
        return [o for o in sess.new if isinstance(o, T) and o.id == k]

    def dbrows():
        with w.engine.connect() as c:
            return {r[0]: (r[1], r[2]) for r in c.exec_driver_sql("select id, a, b from t")}

    def snapshot():
        snap = {}
        for o in list(sess.identity_map.values()) + list(sess.new):
            st = inspect(o)
            snap[(o.id, st.pending)] = (id(o), o.__dict__.get("a", "N"), o.__dict__.get("b", "N"), sess.is_modified(o),
                                        tuple(sorted(st.committed_state)))
        return snap

    try:
        with warnings.catch_warnings():
            warnings.simplefilter("ignore")
            for op in ops:
                kind = op[0]
                if kind == "ins":
                    k = op[1]
                    if ident(k) is None and not pending(k) and k not in dbrows():
                        with w.engine.begin() as c:
                            c.exec_driver_sql("insert into t (id, a, b) values (?, ?, ?)", (k, op[2], op[3]))
                    outs.append(".")
                elif kind == "load":
                    k = op[1]
                    if not pending(k) and ident(k) is None:
                        o = sess.get(T, k)
                        if o is not None:
                            keep.append(o)
                    outs.append(".")
                elif kind == "set":
                    o = ident(op[1])
                    if o is not None:
                        setattr(o, "b" if op[2] else "a", op[3])
                    outs.append(".")
                elif kind == "flush":
                    sess.flush()
                    sess.commit()
                    outs.append(".")
                elif kind == "m":
                    load, spec = op[1], op[2]
                    k = spec["pk"]
                    if pending(k):
                        outs.append(".")
                        continue
                    before_obj = ident(k)
                    before_vals = None if before_obj is None else {x: before_obj.__dict__.get(x, "N") for x in ("a", "b")}
                    row = dbrows().get(k)
                    src = make_source(T, spec)
                    q0 = w.nsql
                    try:
                        m = sess.merge(src, load=bool(load))
                    except InvalidRequestError:
                        outs.append("E")
                        if load:
                            problems.append(("merge-rejected", "load=True merge raised InvalidRequestError for %s" % (spec,)))
                        continue
                    q = w.nsql - q0
                    keep.append(m)
                    st = inspect(m)
                    isnew = st.pending if load else (before_obj is None)
                    dirty = True if st.pending else sess.is_modified(m)
                    outs.append("M%d:%s:%s:%d:%d" % (1 if isnew else 0, nz(m.__dict__.get("a", "N")), nz(m.__dict__.get("b", "N")), 1 if dirty else 0, q))
                    # ------------------------------------------------ oracle
                    holder = ident(k)
                    if st.pending:
                        if not any(p is m for p in pending(k)):
                            problems.append(("merged-instance-not-in-session", "pk %d" % k))
                    elif holder is not m:
                        problems.append(("merge-returned-other-instance", "pk %d: merge returned an object that is not the identity map's" % k))
                    if before_obj is not None and m is not before_obj:
                        problems.append(("merge-replaced-existing-instance", "pk %d" % k))
                    if m is src:
                        problems.append(("merge-returned-source", "pk %d" % k))
                    for x in ("a", "b"):
                        sv = spec["attrs"].get(x)
                        got = nz(m.__dict__.get(x, "N"))
                        if sv is not None:
                            if got != sv:
                                problems.append(("merge-did-not-copy-loaded-attribute", "%s: source %s, merged %s" % (x, sv, got)))
                        else:
                            if before_vals is not None:
                                exp = nz(before_vals[x])
                            elif row is not None and load:
                                exp = nz(row[0 if x == "a" else 1])
                            else:
                                exp = "N"
                            if got != exp:
                                problems.append(("merge-touched-unloaded-attribute", "%s: expected %s, merged has %s" % (x, exp, got)))
                    if not load:
                        noload_pks.add(k)
                        if q:
                            problems.append(("merge-noload-emitted-sql", "%d statements" % q))
                        if sess.is_modified(m) or m in sess.dirty:
                            problems.append(("merge-noload-flagged-change", "pk %d" % k))
                    # idempotence: an equal source again (not on still-pending results: with
                    # autoflush off a second merge cannot find a pending instance)
                    if not st.pending:
                        snap = snapshot()
                        q1 = w.nsql
                        try:
                            m2 = sess.merge(make_source(T, spec), load=bool(load))
                        except InvalidRequestError:
                            m2 = None
                            problems.append(("second-merge-rejected", "pk %d" % k))
                        if m2 is not None:
                            if m2 is not m:
                                problems.append(("second-merge-other-instance", "pk %d" % k))
                            if snapshot() != snap:
                                problems.append(("merge-not-idempotent", "state before second merge %s, after %s" % (snap, snapshot())))
                            if w.nsql != q1:
                                problems.append(("second-merge-emitted-sql", "%d statements" % (w.nsql - q1)))
                else:
                    raise ValueError(op)
            sess.flush()
            sess.commit()
            final = dbrows()
            # after the final flush every session object equals its row
            for o in list(sess.identity_map.values()):
                if isinstance(o, T) and o.id not in noload_pks and o.id in final and (nz(o.__dict__.get("a")), nz(o.__dict__.get("b"))) != tuple(nz(x) for x in final[o.id]):
                    if "a" in o.__dict__ and "b" in o.__dict__:
                        problems.append(("flushed-row-differs-from-merged-state", "pk %d: object %s row %s" % (o.id, (o.a, o.b), final.get(o.id))))
    finally:
        try:
            sess.close()
        except Exception:
            pass
    line = ";".join(outs) + " | " + " ".join("%d=%s/%s" % (k, nz(final[k][0]), nz(final[k][1])) for k in sorted(final) if k < n)
    return line, problems


@guarded
def run_graph(case):
    """oracle-only stream: merge of Parent/children graphs"""
    from sqlalchemy import inspect
    from sqlalchemy.orm import Session, make_transient_to_detached

    w = world()
    w.reset()
    P, C = w.P, w.C
    problems = []
    with w.engine.begin() as c:
        for pid, a in case["dbp"].items():
            c.exec_driver_sql("insert into p (id, a) values (?, ?)", (pid, a))
        for cid, (pp, cv) in case["dbc"].items():
            c.exec_driver_sql("insert into c (id, pid, c) values (?, ?, ?)", (cid, pp, cv))
    sess = Session(w.engine, autoflush=False, expire_on_commit=False)
    keep = []
    try:
        with warnings.catch_warnings():
            warnings.simplefilter("ignore")
            for pid in case["preload"]:
                o = sess.get(P, pid)
                if o is not None:
                    keep.append(o)
                    keep.extend(o.children)
            for g in case["graphs"]:
                def build():
                    kids = None
                    if g["kids"] is not None:
                        kids = []
                        for ck in g["kids"]:
                            co = C(id=ck["pk"], **({"c": ck["c"]} if ck["c"] is not None else {}))
                            if ck["persistent"]:
                                make_transient_to_detached(co)
                            kids.append(co)
                    kw = {"a": g["a"]} if g["a"] is not None else {}
                    if kids is not None:
                        kw["children"] = kids
                    po = P(id=g["pk"], **kw)
                    if g["persistent"]:
                        make_transient_to_detached(po)
                    return po

                before = sess.identity_map.get(inspect(P).identity_key_from_primary_key((g["pk"],)))
                m = sess.merge(build())
                keep.append(m)
                if before is not None and m is not before:
                    problems.append(("merge-replaced-existing-instance", "parent %d" % g["pk"]))
                if g["a"] is not None and m.a != g["a"]:
                    problems.append(("merge-did-not-copy-loaded-attribute", "parent %d a" % g["pk"]))
                if g["kids"] is not None:
                    got = [(c.id, c.c) for c in m.children]
                    # two sources with the same identity merge into one instance listed twice: compare ids
                    exp_ids = [ck["pk"] for ck in g["kids"]]
                    if [x[0] for x in got] != exp_ids:
                        problems.append(("merge-collection-differs", "parent %d: children %s, source had %s" % (g["pk"], got, exp_ids)))
                    last = {}
                    for ck in g["kids"]:
                        if ck["c"] is not None:
                            last[ck["pk"]] = ck["c"]
                    for c in m.children:
                        if c.id in last and c.c != last[c.id]:
                            problems.append(("merge-did-not-copy-loaded-attribute", "child %d c: %s vs %s" % (c.id, c.c, last[c.id])))
                    byid = {}
                    for c in m.children:
                        if byid.setdefault(c.id, c) is not c:
                            problems.append(("two-instances-one-identity", "child %d" % c.id))
                # idempotence (when nothing of the graph is still pending)
                allobjs = [m] + (list(m.children) if g["kids"] is not None else [])
                if not any(inspect(o).pending for o in allobjs):
                    snap = sorted((type(o).__name__, o.id, id(o), tuple(sorted((k, v) for k, v in o.__dict__.items() if k in ("a", "c", "pid"))),
                                   sess.is_modified(o)) for o in list(sess.identity_map.values()) + list(sess.new))
                    kidsnap = [id(c) for c in m.children] if g["kids"] is not None else None
                    m2 = sess.merge(build())
                    if m2 is not m:
                        problems.append(("second-merge-other-instance", "parent %d" % g["pk"]))
                    snap2 = sorted((type(o).__name__, o.id, id(o), tuple(sorted((k, v) for k, v in o.__dict__.items() if k in ("a", "c", "pid"))),
                                    sess.is_modified(o)) for o in list(sess.identity_map.values()) + list(sess.new))
                    if snap2 != snap or (kidsnap is not None and [id(c) for c in m2.children] != kidsnap):
                        problems.append(("merge-not-idempotent", "parent %d" % g["pk"]))
                sess.flush()
                sess.commit()
                with w.engine.connect() as c:
                    rows = {r[0]: (r[1], r[2]) for r in c.exec_driver_sql("select id, pid, c from c")}
                    prow = {r[0]: r[1] for r in c.exec_driver_sql("select id, a from p")}
                if g["pk"] not in prow or (g["a"] is not None and prow[g["pk"]] != g["a"]):
                    problems.append(("flushed-row-differs-from-merged-state", "parent %d row %s" % (g["pk"], prow.get(g["pk"]))))
                if g["kids"] is not None:
                    want = {ck["pk"] for ck in g["kids"]}
                    for cid in want:
                        if cid not in rows or rows[cid][0] != g["pk"]:
                            problems.append(("flushed-row-differs-from-merged-state", "child %d should belong to parent %d: row %s" % (cid, g["pk"], rows.get(cid))))
                    for cid, (pp, _) in rows.items():
                        if pp == g["pk"] and cid not in want:
                            problems.append(("flushed-row-differs-from-merged-state", "child %d still belongs to parent %d after it was merged out" % (cid, g["pk"])))
    finally:
        try:
            sess.close()
        except Exception:
            pass
    return "graph", problems


# ---------------------------------------------------------------------- encoding
def enc_op(op):
    if op[0] == "m":
        s = op[2]
        f = lambda v: "N" if v is None else str(v)
        return "m:%d:%d:%s:%s:%d:%d" % (op[1], s["pk"], f(s["attrs"].get("a")), f(s["attrs"].get("b")), 1 if s["persistent"] else 0, 1 if s.get("modified") else 0)
    return ":".join(str(int(x)) if isinstance(x, bool) else str(x) for x in op)


def request(case):
    return "merge run %d %s" % (case["n"], ",".join(enc_op(o) for o in case["ops"]) or "-")


# ---------------------------------------------------------------------- generators
def rand_src(rng, n):
    pk = rng.randrange(n)
    pers = rng.random() < 0.6
    return {"pk": pk, "attrs": {"a": rng.choice([None, rng.randint(0, 9)]), "b": rng.choice([None, rng.randint(0, 9)])},
            "persistent": pers, "modified": pers and rng.random() < 0.25}


def gen_flat(rng, tier):
    n = rng.choice([1, 2, 3])
    ops = []
    for k in range(n):
        if rng.random() < 0.6:
            ops.append(("ins", k, rng.randint(0, 9), rng.randint(0, 9)))
    for _ in range(rng.randint(3, 9 if tier == "quick" else 16)):
        r = rng.random()
        k = rng.randrange(n)
        if r < 0.12:
            ops.append(("load", k))
        elif r < 0.24:
            ops.append(("set", k, rng.random() < 0.5, rng.randint(10, 19)))
        elif r < 0.30:
            ops.append(("ins", k, rng.randint(0, 9), rng.randint(0, 9)))
        elif r < 0.40:
            ops.append(("flush",))
        else:
            src = rand_src(rng, n)
            # load=False only for identities whose row was inserted before: an instance merged
            # without a row and modified later cannot be flushed (StaleDataError), not our subject
            has_row = any(o[0] == "ins" and o[1] == src["pk"] for o in ops)
            ops.append(("m", 1 if (rng.random() < 0.65 or not has_row) else 0, src))
    return n, ops


def gen_graph(rng):
    npar, nch = rng.choice([1, 2]), rng.choice([2, 3, 4])
    dbp = {p: rng.randint(0, 9) for p in range(npar) if rng.random() < 0.7}
    dbc = {c: (rng.choice(list(dbp) + [None]) if dbp else None, rng.randint(0, 9)) for c in range(nch) if rng.random() < 0.6}
    graphs = []
    ngraphs = rng.randint(1, 3)
    for gi in range(ngraphs):
        pk = rng.randrange(npar)
        kids = None
        if rng.random() < 0.8:
            ids = [c for c in range(nch) if rng.random() < 0.6]
            # two source objects with one identity (exercises _resolve_conflict_map); only in the
            # last graph: a collection listing one instance twice does not survive later
            # re-parenting through the backref consistently, which is not merge's business
            if ids and gi == ngraphs - 1 and rng.random() < 0.3:
                ids.append(ids[0])
            kids = [{"pk": c, "c": rng.choice([None, rng.randint(0, 9)]), "persistent": (c in dbc) and rng.random() < 0.8} for c in ids]
        graphs.append({"pk": pk, "a": rng.choice([None, rng.randint(0, 9)]), "persistent": pk in dbp and rng.random() < 0.7, "kids": kids})
    return {"dbp": dbp, "dbc": dbc, "preload": [p for p in range(npar) if rng.random() < 0.5], "graphs": graphs, "src": "graph"}


def small_scope():
    import itertools

    srcs = []
    for a in (None, 5):
        for b in (None, 6):
            for pers in (True, False):
                srcs.append({"pk": 0, "attrs": {"a": a, "b": b}, "persistent": pers, "modified": False})
    srcs.append({"pk": 0, "attrs": {"a": 5, "b": None}, "persistent": True, "modified": True})
    for pre in ([], [("ins", 0, 1, 2)], [("ins", 0, 1, 2), ("load", 0)], [("ins", 0, 1, 2), ("load", 0), ("set", 0, False, 11)],
                [("ins", 0, 1, 2), ("load", 0), ("set", 0, True, 12)]):
        for s1, s2 in itertools.product(srcs, repeat=2):
            for l1 in (1, 0):
                for l2 in (1, 0):
                    if not pre and (l1 == 0 or l2 == 0):
                        continue
                    yield pre + [("m", l1, s1), ("m", l2, s2), ("flush",), ("m", 1, s1)]


def gen_cases(ctx, deep=False):
    thorough = ctx.tier == "thorough" or deep
    for _ in range(8000 if thorough else 1500):
        n, ops = gen_flat(ctx.rng, ctx.tier)
        yield {"n": n, "ops": ops, "src": "flat"}
    for seq in small_scope():
        if thorough or ctx.rng.random() < 0.25:
            yield {"n": 1, "ops": seq, "src": "small"}
    for _ in range(4000 if thorough else 700):
        yield gen_graph(ctx.rng)


def jsonable(case):
    import json

    return json.loads(json.dumps(case))


def unjson(c):
    if c.get("src") == "graph":
        return dict(c, dbp={int(k): v for k, v in c["dbp"].items()}, dbc={int(k): tuple(v) for k, v in c["dbc"].items()})
    return dict(c, ops=[tuple(o) for o in c["ops"]])


def check_case(case):
    if case["src"] == "graph":
        return run_graph(case)
    return run_flat(case)


def _budget_exhausted(ctx, t0, n):
    """a broken tree can make every history slow (leaks, lock waits): stop generating in time
    and judge what was run"""
    import time

    limit = 70 if ctx.tier == "quick" else 650
    if time.time() - t0 > limit:
        ctx.assumptions.append("time budget reached after %d cases; remaining generated cases not run" % n)
        return True
    return False


def run(ctx, deep=False):
    ctx.rule = (
        "stream A: histories of insert-row/load/set/flush and merge(load=True|False) of detached or transient sources with every combination of "
        "loaded attributes, 1-3 identities, random (seeded) + exhaustive two-merge combinations over 9 sources x 5 prior states x load flags (25% quick, "
        "all thorough), compared with the Lean model; stream B: Parent/children graphs with partially loaded attributes and collections, duplicate "
        "identities in one collection, preloaded or not, oracle only; non-trivial = at least one merge executed"
    )
    import time

    t0 = time.time()
    cases, impl_out, reqs = [], [], []
    for case in gen_cases(ctx, deep):
        if _budget_exhausted(ctx, t0, len(cases)):
            break
        line, problems = check_case(case)
        jc = jsonable(case)
        ctx.case(jc, nontrivial=(case["src"] == "graph" or "M" in line))
        ctx.count("src=" + case["src"])
        for key, detail in problems:
            ctx.violation(key, jc, detail)
        if case["src"] != "graph":
            cases.append(jc)
            impl_out.append(line)
            reqs.append(request(case))
        if len(ctx.violations) >= 25:
            break
        if case["src"] == "flat" and len(ctx.samples) < 3:
            ctx.sample({"case": jc, "impl": line})
    if ctx.driver_ok():
        ctx.correspond("corr/c45:session.merge-vs-Model.Merge", cases, impl_out, ctx.driver(reqs))
        bad = ["merge run 1 m:1:3:N:N:1:0", "merge run 1 m:2:0:N:N:1:0", "merge run x -", "merge run 1 load:0:1"]
        ctx.correspond("corr/c45:malformed-rejected", [{"req": b} for b in bad], ["bad-op"] * len(bad), ctx.driver(bad))


def search(ctx, broken):
    for d in ctx.disagreements:
        c = d.get("case")
        if isinstance(c, dict) and "ops" in c:
            _, problems = check_case(unjson(c))
            for key, detail in problems:
                ctx.violation(key, c, detail)
    if ctx.violations:
        return
    sub = type(ctx)(ctx.pid, "thorough", ctx.seed + 1, ctx.level)
    run(sub, deep=True)
    ctx.violations.extend(sub.violations)


def replay(ctx, obj):
    case = unjson(obj["case"])
    line, problems = check_case(case)
    print("replay C45 %s\n  impl: %s\n  oracle: %s" % (request(case) if case["src"] != "graph" else case, line, problems))
    return bool(problems)
