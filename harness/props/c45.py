"""C45 — Session.merge copies state onto the session's single instance.

Model: lean/SaVerif/Model/Merge.lean (column-attribute core of Session._merge /
ColumnProperty.merge: identity-map hit, Session.get, new pending instance, load=False
path, attribute history; the public entry point Session.merge with its pre-merge
autoflush, Session.get's autoflush on a miss, pending Session.delete() and flush).
Theorems: lean/SaVerif/Props/C45.lean.  Translator: gen() reads the shape of
Session.merge (`if load: self._autoflush()`, `with self.no_autoflush:`) from the working
tree into lean/SaVerif/Gen/MergeCfg.lean.

Two streams on a real Session over SQLite, each with the Session's autoflush option as a
dimension (autoflush=True is the default Session; about half of the histories each):
 A. flat histories (insert row / load / set / Session.delete of the Session's instance,
    pending until a flush / merge(load=True|False) of detached or transient sources with
    partially loaded attributes / flush) — compared with the Lean model op by op (returned
    values, net-change flag, number of SELECTs, result-marked-deleted flag) and checked by
    the oracle.  In autoflush histories merges of identities that are PENDING in the Session
    (created by an earlier merge of a source without a row) are executed, every merge is run
    twice (the re-merge is an operation of its own: it flushes), rows are inserted and read
    through the Session's own connection (its transaction holds SQLite's write lock);
 B. object graphs Parent(id, a, children=[Child(id, c)], cart=K(id, v)) with partially
    loaded attributes and collections — oracle only.  In autoflush sessions a merge may be
    preceded by unflushed work: pending children (Session.add of a child whose id has no
    row, mostly ids the merged graph lists as transient children) and pending
    Session.delete() of the Session's parent / child / cart instance.

Direct oracle (never uses the model): the instance returned by merge is THE instance
the Session holds for that identity (identity map or session.new, `is`), merging again
returns the very same object; every attribute loaded on the source is equal on the
result, every attribute not loaded on the source keeps the value the Session / database
had; a second merge of an equal source changes no value, no history and creates no
object; with load=False no statement is emitted (autoflush or not) and nothing is flagged
modified; after flush the rows equal the merged state (graph stream: children rows point
to the parent, children removed from the collection are detached from it).
In autoflush sessions, for merge(load=True), additionally: the returned instance (and every
cascaded one) is not in session.deleted (merge-returned-instance-marked-deleted); among ALL
objects the Session tracks (identity map and session.new) there is one per identity after
each merge (two-instances-one-identity), and a pending identity is found, not duplicated
(merge-missed-pending-instance); after the final flush and commit the row of every identity
whose last operation was a load=True merge exists and carries the merged loaded attributes
(merged-state-not-persisted); no flush raises IntegrityError (flush-integrity-error); the
re-merge returns the same object with the same values, emits no SELECT and creates no
object (history flags are not compared there: the re-merge's autoflush clears them).
With autoflush OFF the unchanged code merges onto a deleted-marked instance and makes a
second pending instance for a pending identity: documented no-autoflush behaviour, not
reported (such merges are skipped / not generated there).
"""
import os
import shutil
import tempfile
import warnings

PID = "C45"
LEVEL = "proof"
LEAN = ["SaVerif.Props.C45"]
META = {
    "text": "Lean theorems over the merge model for ALL session states and ALL sources (any partial loading): every attribute loaded on the source is equal on the merged instance and every attribute not loaded keeps its value (merge_copies_loaded); merging an equal source again leaves the whole session state unchanged and emits no SQL (merge_idempotent); with load=False no SQL is emitted, the database is untouched, the result carries no net change and nothing is flushed whatever the Session's autoflush option (merge_noload_no_sql_no_change, merge_noload_no_flush), transient / dirty-and-absent sources are rejected (merge_noload_rejects); the returned instance carries the source's full identity key, identity token included (merge_keeps_identity, merge_noload_keeps_identity). Public entry point Session.merge in an autoflush Session, for all states incl. pending instances and pending Session.delete(): the regenerated guard of the pre-merge flush is exactly `if load:` and _merge runs under no_autoflush (merge_autoflush_guard_is_load, merge_body_under_no_autoflush, decided against the table the translator reads from orm/session.py), hence merge = flush-then-merge (merge_autoflush_eq_flush_then_merge); the returned instance is never marked deleted and carries the source's loaded attributes (merge_autoflush_result_live), a deleted-marked identity is re-created as a new pending instance (merge_autoflush_after_delete_creates), a pending identity is found - nothing pending afterwards, not new, no SELECT (merge_autoflush_finds_pending); after the next flush the row exists and carries the merged attributes (merge_autoflush_persisted with the hypothesis that a surviving instance mirrors its row; unconditional after a pending delete and for a pending identity: _after_delete, _pending; the hypothesis is necessary: merge_persisted_needs_sync_counterexample, a load=False stamp). Tied to orm/session.py, properties.py by a differential run in sessions with autoflush on and off (values, net-change flag, SELECT count, result-marked-deleted per merge; Session.delete, flush, Session.get); identity of the returned instance over everything the session tracks, idempotence, graph cascades with pending children / pending deletes, and flushed rows are re-checked on the real objects by an independent oracle.",
    "note": "Trusted: Lean kernel; correspondence; SQLite. In the model the identity map is a function of the primary key, so 'the single instance' is by construction there: object identity (`is`) is established only by the oracle on the real objects (identity map and session.new). Relationship cascade of merge is covered by the oracle stream only (not modelled in Lean). Sessions are created with autoflush on and off; sources always carry a full primary key. With autoflush off merging an identity that is pending or marked deleted is the documented no-autoflush behaviour (second pending instance / merge onto the doomed instance) and is not reported; the autoflush oracle clauses apply to autoflush=True sessions only. merge_autoflush_persisted is partial in the _partial sense: it carries the SyncedRow hypothesis, with merge_persisted_needs_sync_counterexample as witness that it cannot be dropped (load=False asserts state without looking; the oracle excludes such identities and rows held under several identity tokens in the same way). A pending instance carries no identity token: a token-carrying source merged onto a fresh pending instance is re-merged beside it (not compared). The harness never flushes two modified instances of one row and skips operations on an identity while another token's instance of the same primary key is marked deleted. Graph stream: a child that is Session.delete()d is also taken out of its parent's loaded collection (by identity), as applications do: left in, the fixture's value equality makes list.remove() drop the equal new instance later (collection semantics, not merge). Fixture classes define __len__/__bool__ (falsy instances) and value __eq__/__hash__ (equal-but-distinct instances). merge(load=False) of token-carrying sources is exercised since fix 92da004 (state.identity_token set from the key); the oracle key merge-noload-identity-token-not-set-on-state guards it.",
    "technique": "Lean 4 proofs over a merge model with autoflush / pending deletes + translator of Session.merge's entry shape + differential correspondence incl. SELECT counts + direct oracle on real object graphs with unflushed session state",
    "design_ref": "DESIGN.md §3 C45",
}


def _merge_entry_shape(path=None):
    """(guard_is_load, body_under_no_autoflush) of Session.merge in the repository's CURRENT
    orm/session.py, or (None, None) when the method does not have the expected shape:
    one `if <test>: self._autoflush()` followed by `with self.no_autoflush: return self._merge(...)`"""
    import ast

    from harness import vlib

    path = path or os.path.join(vlib.REPO, "lib", "sqlalchemy", "orm", "session.py")
    tree = ast.parse(open(path).read())
    fn = None
    for node in ast.walk(tree):
        if isinstance(node, ast.ClassDef) and node.name == "Session":
            for sub in node.body:
                if isinstance(sub, ast.FunctionDef) and sub.name == "merge":
                    fn = sub
    if fn is None:
        return None, None

    def is_self_call(n, name):
        return (isinstance(n, ast.Call) and isinstance(n.func, ast.Attribute) and n.func.attr == name
                and isinstance(n.func.value, ast.Name) and n.func.value.id == "self")

    guards = []
    for node in ast.walk(fn):
        if isinstance(node, ast.If) and any(is_self_call(c, "_autoflush") for st in node.body for c in ast.walk(st)):
            guards.append(node)
    # every _autoflush() call of the method must sit under that one guard
    ncalls = sum(1 for c in ast.walk(fn) if is_self_call(c, "_autoflush"))
    if len(guards) != 1 or ncalls != 1:
        return None, None
    g = guards[0]
    guard_is_load = (isinstance(g.test, ast.Name) and g.test.id == "load" and not g.orelse
                     and len(g.body) == 1 and isinstance(g.body[0], ast.Expr) and is_self_call(g.body[0].value, "_autoflush")
                     and g in fn.body)
    under = None
    merges = [c for c in ast.walk(fn) if is_self_call(c, "_merge")]
    if len(merges) == 1:
        under = False
        for node in fn.body:
            if isinstance(node, ast.With) and any(c is merges[0] for c in ast.walk(node)):
                ce = [it.context_expr for it in node.items]
                under = (len(ce) == 1 and isinstance(ce[0], ast.Attribute) and ce[0].attr == "no_autoflush"
                         and isinstance(ce[0].value, ast.Name) and ce[0].value.id == "self"
                         and fn.body.index(node) > fn.body.index(g) if g in fn.body else False)
    return guard_is_load, under


def gen(ctx):
    """Translator: the shape of the public entry point Session.merge (orm/session.py) ->
    lean/SaVerif/Gen/MergeCfg.lean"""
    guard, under = _merge_entry_shape()
    ctx.obligation(
        "translator: orm/session.py Session.merge has one `if ...: self._autoflush()` and one `self._merge(...)` call",
        guard is not None and under is not None,
        "Session.merge has another shape; the model's mergeAf cannot be regenerated",
    )
    if guard is None or under is None:
        return
    ctx.write_gen(
        "MergeCfg",
        "namespace SaVerif.Gen.MergeCfg\n"
        "/-- orm/session.py `Session.merge` (public entry point): the statement guarding the\n"
        "    pre-merge `self._autoflush()` is exactly `if load:` (true), or carries some other /\n"
        "    additional condition (false) -/\n"
        "def mergeAutoflushGuardIsLoad : Bool := %s\n"
        "/-- `Session.merge` calls `self._merge(...)` inside `with self.no_autoflush:` -/\n"
        "def mergeBodyUnderNoAutoflush : Bool := %s\n"
        "end SaVerif.Gen.MergeCfg\n" % ("true" if guard else "false", "true" if under else "false"),
    )


_W = None
_TMP = None


def _tmpdir():
    global _TMP
    if _TMP is None:
        base = "/dev/shm" if os.path.isdir("/dev/shm") else None
        _TMP = tempfile.mkdtemp(prefix="verif-c45-", dir=base)
        import atexit

        atexit.register(shutil.rmtree, _TMP, True)
    return _TMP


class World:
    def __init__(self):
        import sqlalchemy as sa
        from sqlalchemy import event
        from sqlalchemy.orm import declarative_base, relationship

        self.sa = sa
        self.engine = sa.create_engine("sqlite:///" + os.path.join(_tmpdir(), "c45.db"))
        Base = declarative_base()

        class Odd:
            """what applications do to their mapped classes: container protocol and value equality.
            Instances are falsy, and distinct instances with equal values compare (and hash) equal;
            the ORM must go by identity (`is`, `is not None`) throughout."""

            def __len__(self):
                return 0

            def __bool__(self):
                return False

            def __eq__(self, other):
                return type(other) is type(self) and self._value() == other._value()

            def __ne__(self, other):
                return not self.__eq__(other)

            def __hash__(self):
                return 7

        class T(Odd, Base):
            __tablename__ = "t"
            id = sa.Column(sa.Integer, primary_key=True, autoincrement=False)
            a = sa.Column(sa.Integer)
            b = sa.Column(sa.Integer)

            def _value(self):
                return (self.__dict__.get("id"), self.__dict__.get("a"), self.__dict__.get("b"))

        class K(Odd, Base):  # a "cart": scalar side of a many-to-one
            __tablename__ = "k"
            id = sa.Column(sa.Integer, primary_key=True, autoincrement=False)
            v = sa.Column(sa.Integer)

            def _value(self):
                return (self.__dict__.get("id"), self.__dict__.get("v"))

        class P(Base):
            __tablename__ = "p"
            id = sa.Column(sa.Integer, primary_key=True, autoincrement=False)
            a = sa.Column(sa.Integer)
            kid = sa.Column(sa.Integer, sa.ForeignKey("k.id"))
            children = relationship("C", order_by="C.id", backref="parent")
            cart = relationship("K")

        class C(Odd, Base):
            __tablename__ = "c"
            id = sa.Column(sa.Integer, primary_key=True, autoincrement=False)
            pid = sa.Column(sa.Integer, sa.ForeignKey("p.id"))
            c = sa.Column(sa.Integer)

            def _value(self):
                # value equality per row: a source object and the Session's instance for the same
                # row are equal but distinct (two different rows never compare equal: Python's
                # list.remove() is by equality, which is the collection's documented semantics)
                return (self.__dict__.get("id"), self.__dict__.get("c"))

        self.T, self.P, self.C, self.K = T, P, C, K
        Base.metadata.drop_all(self.engine)
        Base.metadata.create_all(self.engine)
        self.nsql = 0  # all statements
        self.nsel = 0  # SELECTs

        @event.listens_for(self.engine, "before_cursor_execute")
        def count(conn, cursor, statement, parameters, context, executemany):
            self.nsql += 1
            if statement.lstrip()[:6].upper() == "SELECT":
                self.nsel += 1

    def reset(self):
        with self.engine.begin() as c:
            for t in ("c", "p", "k", "t"):
                c.exec_driver_sql("delete from " + t)


def world():
    global _W
    if _W is None:
        _W = World()
    return _W


def guarded(fn):
    def wrapper(case):
        import traceback

        try:
            return fn(case)
        except Exception as e:
            tb = traceback.extract_tb(e.__traceback__)
            where = ["%s:%d" % (os.path.basename(f.filename), f.lineno) for f in tb if "sqlalchemy" in f.filename][-3:]
            return "crash:" + type(e).__name__, [("unexpected-exception", "%s: %s at %s" % (type(e).__name__, str(e)[:200], where))]

    return wrapper


TOK = [None, "t1", "t2"]


def nz(v):
    """NULL is printed as 0 on both sides (the model has no NULL)"""
    return 0 if v is None else v


def make_source(T, spec, **extra):
    """spec: dict attr -> value for the loaded attributes; persistent / modified flags"""
    from sqlalchemy.orm import make_transient_to_detached

    from sqlalchemy import inspect

    kw = {k: v for k, v in spec["attrs"].items() if v is not None}
    o = T(id=spec["pk"], **kw)
    if spec["persistent"]:
        # the key of a detached object carries the identity token it was loaded with
        inspect(o).identity_token = TOK[spec.get("tok", 0)]
        make_transient_to_detached(o)
        if spec.get("modified"):
            # re-assign a loaded attribute: same value, but the state is now dirty
            for k, v in kw.items():
                setattr(o, k, v)
                break
            else:
                o.id = spec["pk"]
    return o


@guarded
def run_flat(case):
    """one flat history on a real Session(autoflush=case['af']).
    returns (line, problems, executed ops incl. the explicit re-merges, final flush done)"""
    from sqlalchemy import inspect
    from sqlalchemy.exc import IntegrityError, InvalidRequestError
    from sqlalchemy.orm import Session

    w = world()
    w.reset()
    T = w.T
    n, ops = case["n"], case["ops"]
    af = int(case.get("af", 0))
    sess = Session(w.engine, autoflush=bool(af), expire_on_commit=False)
    keep = []
    noload_pks = set()  # load=False asserts the source IS the database state: not comparable afterwards
    last_merge = {}  # af=1: pk -> source spec of the load=True merge that was the last operation on that pk
    multi_pks = set()  # rows that had several instances (identity tokens) in the Session: they rewrite each other's row
    outs, problems, xops = [], [], []
    final_flush = 1

    def ident(k, t=0):
        return sess.identity_map.get(inspect(T).identity_key_from_primary_key((k,), identity_token=TOK[t]))

    def any_ident(k):
        return any(ident(k, t) is not None for t in range(3))

    def pending(k):
        return [o for o in sess.new if isinstance(o, T) and o.__dict__.get("id") == k]

    def other_doomed(k, t):
        """an instance of the same primary key under another token is marked deleted"""
        return any(u != t and ident(k, u) is not None and ident(k, u) in sess.deleted for u in range(3))

    def dbrows():
        # autoflush on: the Session's transaction may hold SQLite's write lock and unflushed
        # rows: read (and insert) through the Session's own connection
        if af:
            return {r[0]: (r[1], r[2]) for r in sess.connection().exec_driver_sql("select id, a, b from t")}
        with w.engine.connect() as c:
            return {r[0]: (r[1], r[2]) for r in c.exec_driver_sql("select id, a, b from t")}

    def tracked():
        return list(sess.identity_map.values()) + list(sess.new)

    def snapshot():
        snap = {}
        for o in tracked():
            st = inspect(o)
            snap[(o.__dict__.get("id"), st.identity_token, st.pending)] = (
                id(o), o.__dict__.get("a", "N"), o.__dict__.get("b", "N"), sess.is_modified(o), tuple(sorted(st.committed_state)))
        return snap

    def flush_conflict():
        """two modified instances of one row (or a pending one beside a modified one): their
        UPDATE order is unspecified, the history ends before such a flush"""
        per = {}
        for o in sess.identity_map.values():
            if sess.is_modified(o):
                per[o.__dict__.get("id", inspect(o).key[1][0])] = per.get(o.__dict__.get("id", inspect(o).key[1][0]), 0) + 1
        for o in sess.new:
            per[o.__dict__.get("id")] = per.get(o.__dict__.get("id"), 0) + 1
        return any(v > 1 for v in per.values())

    def one_instance_per_identity(where):
        """autoflush on: everything the Session tracks (identity map and pending), per identity
        (primary key, identity token; a pending instance will get token None)"""
        per = {}
        for o in tracked():
            if isinstance(o, T):
                st = inspect(o)
                key = (o.__dict__.get("id") if st.key is None else st.key[1][0], None if st.key is None else st.key[2])
                per.setdefault(key, []).append(o)
        for key, objs in per.items():
            if len({id(o) for o in objs}) > 1:
                problems.append(("two-instances-one-identity", "%s: the session tracks %d distinct objects for T pk %s token %r (%s)"
                                 % (where, len(objs), key[0], key[1], ["pending" if inspect(o).pending else "persistent" for o in objs])))

    def do_merge(load, spec, first):
        """first: the result of the first merge of this source when this is the explicit
        re-merge of an autoflush history, else None.  Returns the result (or None)."""
        k, t = spec["pk"], spec.get("tok", 0)
        pend = pending(k)
        before_obj = ident(k, t)
        doomed = before_obj is not None and before_obj in sess.deleted
        before_vals = None if before_obj is None else {x: before_obj.__dict__.get(x, "N") for x in ("a", "b")}
        pend_vals = None if not pend else {x: pend[0].__dict__.get(x, "N") for x in ("a", "b")}
        others_modified = any(u != t and ident(k, u) is not None and sess.is_modified(ident(k, u)) for u in range(3))
        row = dbrows().get(k)
        before_ids = {id(o) for o in tracked()}
        src = make_source(T, spec)
        q0, s0 = w.nsql, w.nsel
        try:
            m = sess.merge(src, load=bool(load))
        except InvalidRequestError:
            outs.append("E")
            if load:
                problems.append(("merge-rejected", "load=True merge raised InvalidRequestError for %s" % (spec,)))
            return None
        # autoflush on, load=True: the pre-merge flush legitimately emits INSERT/UPDATE/DELETE;
        # what is bounded is the number of SELECTs.  Otherwise: every statement counts.
        q = (w.nsel - s0) if (af and load) else (w.nsql - q0)
        keep.append(m)
        st = inspect(m)
        isnew = st.pending if load else (before_obj is None)
        dirty = True if st.pending else sess.is_modified(m)
        mtok = 0 if st.pending else TOK.index(st.key[2])
        gone = (not st.pending) and m in sess.deleted
        outs.append("M%d:%d:%s:%s:%d:%d:%d" % (1 if isnew else 0, mtok, nz(m.__dict__.get("a", "N")), nz(m.__dict__.get("b", "N")), 1 if dirty else 0, q, 1 if gone else 0))
        # ------------------------------------------------ oracle
        flushes = bool(af and load)  # Session.merge is documented to flush first here
        if st.pending:
            if not any(p is m for p in pending(k)):
                problems.append(("merged-instance-not-in-session", "pk %d" % k))
        else:
            if spec["persistent"] and st.key != inspect(src).key:
                problems.append(("merge-returned-instance-of-another-identity",
                                 "source key %s, merge returned the instance with key %s" % (inspect(src).key[1:], st.key[1:])))
            if sess.identity_map.get(st.key) is not m:
                problems.append(("merge-returned-other-instance", "pk %d: merge returned an object that is not the identity map's" % k))
        if flushes:
            if m in sess.deleted:
                problems.append(("merge-returned-instance-marked-deleted",
                                 "pk %d token %s: autoflush session, the instance merge(load=True) returned is in session.deleted (%s)"
                                 % (k, TOK[t], "the instance that was marked before the merge" if m is before_obj else "another one")))
            if pend and t == 0 and m is not pend[0]:
                problems.append(("merge-missed-pending-instance", "pk %d: the identity was pending in the autoflush session, merge returned another object" % k))
            one_instance_per_identity("after merge of pk %d" % k)
        if before_obj is not None and m is not before_obj and not (flushes and doomed):
            problems.append(("merge-replaced-existing-instance", "pk %d token %s" % (k, TOK[t])))
        if m is src:
            problems.append(("merge-returned-source", "pk %d" % k))
        for x in ("a", "b"):
            sv = spec["attrs"].get(x)
            got = nz(m.__dict__.get(x, "N"))
            if sv is not None:
                if got != sv:
                    problems.append(("merge-did-not-copy-loaded-attribute", "%s: source %s, merged %s" % (x, sv, got)))
            else:
                if flushes and doomed:
                    exp = "N"  # flushed away; re-created from the source alone
                elif flushes and pend:
                    # flushed: the pending instance itself (token None), or a fresh load of its row
                    exp = nz(pend_vals[x]) if t == 0 else nz(None if pend_vals[x] == "N" else pend_vals[x])
                elif before_vals is not None:
                    exp = nz(before_vals[x])
                elif flushes and others_modified:
                    exp = None  # the row read before the merge is rewritten by the autoflush: not predicted here (the model is)
                elif row is not None and load:
                    exp = nz(row[0 if x == "a" else 1])
                else:
                    exp = "N"
                if exp is not None and got != exp:
                    problems.append(("merge-touched-unloaded-attribute", "%s: expected %s, merged has %s" % (x, exp, got)))
        if load:
            if af:
                last_merge[k] = spec
        else:
            last_merge.pop(k, None)
            noload_pks.add(k)
            if not st.pending and st.identity_token != st.key[2]:
                problems.append(("merge-noload-identity-token-not-set-on-state",
                                 "merge(load=False) returned an instance with key token %r but state.identity_token %r: the next flush re-keys it"
                                 % (st.key[2], st.identity_token)))
            if q:
                problems.append(("merge-noload-emitted-sql", "%d statements" % q))
            if sess.is_modified(m) or m in sess.dirty:
                problems.append(("merge-noload-flagged-change", "pk %d" % k))
        if first is not None:
            # explicit re-merge in an autoflush history.  Its autoflush writes the first merge's
            # changes, so history flags legitimately differ: compare object identity and values.
            # A first result that was pending under a token-carrying source key becomes
            # persistent under token None (pending instances carry no token): the re-merge then
            # loads the source's own identity beside it - not compared.
            fm, fvals, fpending = first
            if not (fpending and t != 0):
                if m is not fm:
                    problems.append(("second-merge-other-instance", "pk %d" % k))
                elif (m.__dict__.get("a", "N"), m.__dict__.get("b", "N")) != fvals:
                    problems.append(("merge-not-idempotent", "pk %d: values %s after the first merge, %s after the second"
                                     % (k, fvals, (m.__dict__.get("a", "N"), m.__dict__.get("b", "N")))))
                if q:
                    problems.append(("second-merge-emitted-sql", "%d statements" % q))
                made = {id(o) for o in tracked()} - before_ids
                if made:
                    problems.append(("second-merge-created-object", "pk %d: %d new objects" % (k, len(made))))
        return m, (m.__dict__.get("a", "N"), m.__dict__.get("b", "N")), st.pending

    final = {}
    line = None
    try:
        with warnings.catch_warnings():
            warnings.simplefilter("ignore")
            for op in ops:
                kind = op[0]
                if kind == "ins":
                    k = op[1]
                    if not any_ident(k) and not pending(k) and k not in dbrows():
                        if af:
                            sess.connection().exec_driver_sql("insert into t (id, a, b) values (?, ?, ?)", (k, op[2], op[3]))
                        else:
                            with w.engine.begin() as c:
                                c.exec_driver_sql("insert into t (id, a, b) values (?, ?, ?)", (k, op[2], op[3]))
                    outs.append(".")
                    xops.append(op)
                elif kind == "load":
                    k, t = op[1], op[2]
                    # Session.get autoflushes on an identity-map miss
                    if ident(k, t) is None and not other_doomed(k, t) and (af or not pending(k)):
                        if af and flush_conflict():
                            final_flush = 0
                            break
                        o = sess.get(T, k, identity_token=TOK[t])
                        if o is not None:
                            keep.append(o)
                    outs.append(".")
                    xops.append(op)
                elif kind == "set":
                    o = ident(op[1], op[2])
                    if o is not None:
                        setattr(o, "b" if op[3] else "a", op[4])
                        last_merge.pop(op[1], None)
                    outs.append(".")
                    xops.append(op)
                elif kind == "del":
                    k, t = op[1], op[2]
                    o = ident(k, t)
                    # only when it is the one object the Session tracks for that primary key
                    if o is not None and not pending(k) and all(u == t or ident(k, u) is None for u in range(3)):
                        sess.delete(o)
                        keep.append(o)
                        last_merge.pop(k, None)
                    outs.append(".")
                    xops.append(op)
                elif kind == "flush":
                    if flush_conflict():
                        final_flush = 0
                        break
                    sess.flush()
                    sess.commit()
                    outs.append(".")
                    xops.append(op)
                elif kind == "m":
                    load, spec = op[1], op[2]
                    k, t = spec["pk"], spec.get("tok", 0)
                    # autoflush off: a pending identity cannot be found by merge (documented: a
                    # second pending instance); load=False never flushes
                    if other_doomed(k, t) or (pending(k) and not (af and load)):
                        outs.append(".")
                        xops.append(op)
                        continue
                    if af and load and flush_conflict():
                        final_flush = 0
                        break
                    res = do_merge(load, spec, None)
                    xops.append(op)
                    if res is None:
                        continue
                    m, _, _ = res
                    if af:
                        # idempotence, autoflush on: the re-merge is an operation of its own (it
                        # flushes what the first merge changed), also run by the model
                        if load and flush_conflict():
                            final_flush = 0
                            break
                        do_merge(load, spec, res)
                        xops.append(op)
                    elif not inspect(m).pending:
                        # idempotence, autoflush off: an equal source again (not on still-pending
                        # results: a second merge cannot find a pending instance)
                        snap = snapshot()
                        q1 = w.nsql
                        try:
                            m2 = sess.merge(make_source(T, spec), load=bool(load))
                        except InvalidRequestError:
                            m2 = None
                            problems.append(("second-merge-rejected", "pk %d" % k))
                        if m2 is not None:
                            if m2 is not m:
                                problems.append(("second-merge-other-instance", "pk %d" % k))
                            if snapshot() != snap:
                                problems.append(("merge-not-idempotent", "state before second merge %s, after %s" % (snap, snapshot())))
                            if w.nsql != q1:
                                problems.append(("second-merge-emitted-sql", "%d statements" % (w.nsql - q1)))
                else:
                    raise ValueError(op)
                for k in range(n):
                    if sum(1 for t in range(3) if ident(k, t) is not None) > 1:
                        multi_pks.add(k)
            if final_flush and flush_conflict():
                final_flush = 0
            if final_flush:
                sess.flush()
                sess.commit()
            # (an autoflush history that ended early: what the Session's transaction sees)
            final = dbrows()
            if final_flush:
                # after the final flush every session object equals its row
                for o in list(sess.identity_map.values()):
                    oid = inspect(o).key[1][0]
                    if isinstance(o, T) and oid not in noload_pks and oid in final and "a" in o.__dict__ and "b" in o.__dict__:
                        if (nz(o.__dict__.get("a")), nz(o.__dict__.get("b"))) != tuple(nz(x) for x in final[oid]):
                            # several instances of one row (different tokens): only the one flushed last matches
                            if sum(1 for t in range(3) if ident(oid, t) is not None) == 1:
                                problems.append(("flushed-row-differs-from-merged-state", "pk %d: object %s row %s" % (oid, (o.a, o.b), final.get(oid))))
                # autoflush on: what merge(load=True) merged last into an identity is in the database
                # (the instance has to mirror its row, cf. SyncedRow in Props/C45.lean: not after a
                # load=False stamp, not when a second instance of the row exists under another token)
                for k, spec in sorted(last_merge.items()):
                    if k in noload_pks or k in multi_pks:
                        continue
                    r = final.get(k)
                    want = {x: v for x, v in spec["attrs"].items() if v is not None}
                    if r is None:
                        problems.append(("merged-state-not-persisted", "pk %d: merged last with %s, after flush and commit there is no row" % (k, want)))
                    elif any(r[0 if x == "a" else 1] != v for x, v in want.items()):
                        problems.append(("merged-state-not-persisted", "pk %d: merged last with %s, row is %s" % (k, want, r)))
    except IntegrityError as e:
        if not af:
            raise
        problems.append(("flush-integrity-error", "autoflush session: %s" % str(e.orig)[:120]))
        line = "crash:IntegrityError"
    finally:
        try:
            sess.close()
        except Exception:
            pass
    if line is None:
        line = ";".join(outs) + " | " + " ".join("%d=%s/%s" % (k, nz(final[k][0]), nz(final[k][1])) for k in sorted(final) if k < n)
    return line, problems, xops, final_flush


@guarded
def run_graph(case):
    """oracle-only stream: merge of Parent/children/cart graphs into a Session(autoflush=case['af']).
    In autoflush sessions each graph may come with unflushed work done just before its merge
    (g["pre"]): pending children (`padd`: Session.add of a child whose id has no row) and pending
    deletes (`pdel`: Session.delete of the Session's parent / child / cart instance)."""
    from sqlalchemy import inspect
    from sqlalchemy.exc import IntegrityError
    from sqlalchemy.orm import Session, make_transient_to_detached

    w = world()
    w.reset()
    P, C, K = w.P, w.C, w.K
    cls_of = {"P": P, "C": C, "K": K}
    problems = []
    af = int(case.get("af", 0))
    with w.engine.begin() as c:
        for kid, v in case.get("dbk", {}).items():
            c.exec_driver_sql("insert into k (id, v) values (?, ?)", (kid, v))
        for pid, a in case["dbp"].items():
            c.exec_driver_sql("insert into p (id, a, kid) values (?, ?, ?)", (pid, a, case.get("dbpk", {}).get(pid)))
        for cid, (pp, cv) in case["dbc"].items():
            c.exec_driver_sql("insert into c (id, pid, c) values (?, ?, ?)", (cid, pp, cv))
    sess = Session(w.engine, autoflush=bool(af), expire_on_commit=False)
    keep = []
    kw_cart_holder = {}

    def tracked():
        return list(sess.identity_map.values()) + list(sess.new)

    def oid(o):
        st = inspect(o)
        return o.__dict__.get("id") if st.key is None else st.key[1][0]

    def one_instance_per_identity(where):
        per = {}
        for o in tracked():
            per.setdefault((type(o).__name__, oid(o)), {})[id(o)] = o
        for key, objs in sorted(per.items()):
            if len(objs) > 1:
                problems.append(("two-instances-one-identity", "%s: the session tracks %d distinct %s objects with id %s (%s)"
                                 % (where, len(objs), key[0], key[1], sorted("pending" if inspect(o).pending else "persistent" for o in objs.values()))))

    def valsnap():
        """autoflush sessions: identity and column values of everything tracked (foreign keys
        are written by the flush, history flags are cleared by it: not compared)"""
        return sorted((type(o).__name__, oid(o), id(o), tuple(sorted((k, v) for k, v in o.__dict__.items() if k in ("a", "c", "v")))) for o in tracked())

    try:
        with warnings.catch_warnings():
            warnings.simplefilter("ignore")
            for pid in case["preload"]:
                o = sess.get(P, pid)
                if o is not None:
                    keep.append(o)
                    keep.extend(o.children)
                    if af and o.cart is not None:
                        keep.append(o.cart)
                    if case.get("expire"):
                        sess.expire(o, None if case["expire"] == "all" else [case["expire"]])
            for g in case["graphs"]:
                def build():
                    kids = None
                    if g["kids"] is not None:
                        kids = []
                        for ck in g["kids"]:
                            co = C(id=ck["pk"], **({"c": ck["c"]} if ck["c"] is not None else {}))
                            if ck["persistent"]:
                                make_transient_to_detached(co)
                            kids.append(co)
                    kw = {"a": g["a"]} if g["a"] is not None else {}
                    if kids is not None:
                        kw["children"] = kids
                    cart = g.get("cart")
                    if cart == "null":
                        kw["cart"] = None
                    elif cart is not None:
                        ko = K(id=cart["pk"], **({"v": cart["v"]} if cart["v"] is not None else {}))
                        if cart["persistent"]:
                            make_transient_to_detached(ko)
                        kw["cart"] = ko
                    po = P(id=g["pk"], **kw)
                    if g["persistent"]:
                        make_transient_to_detached(po)
                    if not g.get("load", 1):
                        # as if loaded by another session: linking the graph must not leave history
                        for x in [po] + (kids or []) + ([kw["cart"]] if kw.get("cart") is not None else []):
                            inspect(x)._commit_all(x.__dict__)
                    kw_cart_holder["src"] = kw.get("cart")
                    return po

                # ---- unflushed work in the Session before this merge (autoflush sessions only)
                pend_kids = {}
                for pre in (g.get("pre") or []) if af else []:
                    if pre[0] == "padd":
                        cid = pre[1]
                        known = any(isinstance(o, C) and oid(o) == cid for o in tracked())
                        if not known and sess.connection().exec_driver_sql("select count(*) from c where id = ?", (cid,)).scalar() == 0:
                            co = C(id=cid, c=pre[2])
                            sess.add(co)
                            keep.append(co)
                            pend_kids[cid] = co
                    elif pre[0] == "pdel":
                        o = sess.identity_map.get(inspect(cls_of[pre[1]]).identity_key_from_primary_key((pre[2],)))
                        if o is not None:
                            if pre[1] == "C":
                                # as an application does: a deleted child is taken out of its parent's
                                # loaded collection as well (by identity).  Left in, it lingers there
                                # after the flush, and replacing the collection later removes - through
                                # the backref, with list.remove(), i.e. by the fixture's value equality
                                # - the equal NEW instance merge creates for the same row: collection
                                # semantics, not merge's business
                                for par in tracked():
                                    if isinstance(par, P) and "children" in par.__dict__:
                                        for i, x in enumerate(list(par.__dict__["children"])):
                                            if x is o:
                                                del par.children[i]
                                                break
                            sess.delete(o)
                            keep.append(o)
                    else:
                        raise ValueError(pre)

                before = sess.identity_map.get(inspect(P).identity_key_from_primary_key((g["pk"],)))
                doomed = before is not None and before in sess.deleted
                load = bool(g.get("load", 1))
                flushes = bool(af and load)  # Session.merge is documented to flush first here
                q0 = w.nsql
                m = sess.merge(build(), load=load)
                keep.append(m)
                if not load and w.nsql != q0:
                    problems.append(("merge-noload-emitted-sql", "%d statements" % (w.nsql - q0)))
                if flushes:
                    if m in sess.deleted:
                        problems.append(("merge-returned-instance-marked-deleted",
                                         "parent %d: autoflush session, the instance merge(load=True) returned is in session.deleted" % g["pk"]))
                    for x in ([m.__dict__.get("cart")] if isinstance(g.get("cart"), dict) else []) + (list(m.children) if g["kids"] is not None else []):
                        if x is not None and x in sess.deleted:
                            problems.append(("merge-returned-instance-marked-deleted",
                                             "parent %d: cascaded merge landed on %s %s, which is in session.deleted" % (g["pk"], type(x).__name__, oid(x))))
                    one_instance_per_identity("after merge of parent %d" % g["pk"])
                    if g["kids"] is not None:
                        for c in m.children:
                            if c.id in pend_kids and c is not pend_kids[c.id]:
                                problems.append(("merge-missed-pending-instance",
                                                 "parent %d: child %d was pending in the autoflush session, the cascaded merge made another object" % (g["pk"], c.id)))
                cart = g.get("cart")
                if cart == "null":
                    if m.cart is not None:
                        problems.append(("merge-scalar-relationship-differs", "parent %d: source cart None, merged has one" % g["pk"]))
                elif cart is not None:
                    mc = m.__dict__.get("cart")
                    if mc is None:
                        problems.append(("merge-dropped-related-object", "parent %d: source has cart %d (a falsy instance), merged.cart is None" % (g["pk"], cart["pk"])))
                    else:
                        keep.append(mc)
                        if inspect(mc).identity_key[1][0] != cart["pk"] if inspect(mc).key else mc.id != cart["pk"]:
                            problems.append(("merge-scalar-relationship-differs", "parent %d: cart %s" % (g["pk"], mc.id)))
                        if cart["v"] is not None and mc.v != cart["v"]:
                            problems.append(("merge-did-not-copy-loaded-attribute", "cart %d v" % cart["pk"]))
                        if mc is kw_cart_holder.get("src"):
                            problems.append(("merge-returned-source", "cart %d" % cart["pk"]))
                        held = sess.identity_map.get(inspect(K).identity_key_from_primary_key((cart["pk"],)))
                        if held is not None and held is not mc:
                            problems.append(("two-instances-one-identity", "cart %d" % cart["pk"]))
                if before is not None and m is not before and not (flushes and doomed):
                    problems.append(("merge-replaced-existing-instance", "parent %d" % g["pk"]))
                if g["a"] is not None and m.a != g["a"]:
                    problems.append(("merge-did-not-copy-loaded-attribute", "parent %d a" % g["pk"]))
                if g["kids"] is not None:
                    got = [(c.id, c.c) for c in m.children]
                    # two sources with the same identity merge into one instance listed twice: compare ids
                    exp_ids = [ck["pk"] for ck in g["kids"]]
                    if [x[0] for x in got] != exp_ids:
                        problems.append(("merge-collection-differs", "parent %d: children %s, source had %s" % (g["pk"], got, exp_ids)))
                    last = {}
                    for ck in g["kids"]:
                        if ck["c"] is not None:
                            last[ck["pk"]] = ck["c"]
                    for c in m.children:
                        if c.id in last and c.c != last[c.id]:
                            problems.append(("merge-did-not-copy-loaded-attribute", "child %d c: %s vs %s" % (c.id, c.c, last[c.id])))
                    byid = {}
                    for c in m.children:
                        if byid.setdefault(c.id, c) is not c:
                            problems.append(("two-instances-one-identity", "child %d" % c.id))
                allobjs = [m] + (list(m.children) if g["kids"] is not None else [])
                if m.__dict__.get("cart") is not None:
                    allobjs.append(m.__dict__["cart"])
                if flushes:
                    # idempotence, autoflush on: the re-merge first flushes what the first merge
                    # changed (pending results become persistent and must be FOUND), so history flags
                    # and foreign-key columns legitimately differ: compare objects and values
                    snap = valsnap()
                    kidsnap = [id(c) for c in m.children] if g["kids"] is not None else None
                    m2 = sess.merge(build(), load=load)
                    if m2 is not m:
                        problems.append(("second-merge-other-instance", "parent %d" % g["pk"]))
                    one_instance_per_identity("after second merge of parent %d" % g["pk"])
                    # (the identity map is weak: an object nobody refers to any more may leave it)
                    if not set(valsnap()) <= set(snap) or (kidsnap is not None and [id(c) for c in m2.children] != kidsnap):
                        problems.append(("merge-not-idempotent", "parent %d: tracked objects / values before the second merge %s, after %s" % (g["pk"], snap, valsnap())))
                elif not any(inspect(o).pending for o in allobjs):
                    # idempotence (when nothing of the graph is still pending)
                    snap = sorted((type(o).__name__, o.id, id(o), tuple(sorted((k, v) for k, v in o.__dict__.items() if k in ("a", "c", "pid", "v", "kid"))),
                                   sess.is_modified(o)) for o in list(sess.identity_map.values()) + list(sess.new))
                    kidsnap = [id(c) for c in m.children] if g["kids"] is not None else None
                    m2 = sess.merge(build(), load=load)
                    if m2 is not m:
                        problems.append(("second-merge-other-instance", "parent %d" % g["pk"]))
                    snap2 = sorted((type(o).__name__, o.id, id(o), tuple(sorted((k, v) for k, v in o.__dict__.items() if k in ("a", "c", "pid", "v", "kid"))),
                                    sess.is_modified(o)) for o in list(sess.identity_map.values()) + list(sess.new))
                    if snap2 != snap or (kidsnap is not None and [id(c) for c in m2.children] != kidsnap):
                        problems.append(("merge-not-idempotent", "parent %d" % g["pk"]))
                sess.flush()
                sess.commit()
                if not load:
                    continue  # load=False asserts the source IS the database state
                with w.engine.connect() as c:
                    rows = {r[0]: (r[1], r[2]) for r in c.exec_driver_sql("select id, pid, c from c")}
                    prow = {r[0]: r[1] for r in c.exec_driver_sql("select id, a from p")}
                    pk_kid = {r[0]: r[1] for r in c.exec_driver_sql("select id, kid from p")}
                    krow = {r[0]: r[1] for r in c.exec_driver_sql("select id, v from k")}
                missing = "merged-state-not-persisted" if af else "flushed-row-differs-from-merged-state"
                if cart == "null" and pk_kid.get(g["pk"]) is not None:
                    problems.append(("flushed-row-differs-from-merged-state", "parent %d kid %s, merged cart None" % (g["pk"], pk_kid.get(g["pk"]))))
                if isinstance(cart, dict):
                    if pk_kid.get(g["pk"]) != cart["pk"]:
                        problems.append(("flushed-row-differs-from-merged-state", "parent %d kid %s, source cart %d" % (g["pk"], pk_kid.get(g["pk"]), cart["pk"])))
                    if cart["pk"] not in krow:
                        problems.append((missing, "cart %d: no row after flush and commit" % cart["pk"]))
                    elif cart["v"] is not None and krow[cart["pk"]] != cart["v"]:
                        problems.append(("flushed-row-differs-from-merged-state", "cart %d row %s" % (cart["pk"], krow.get(cart["pk"]))))
                if g["pk"] not in prow:
                    problems.append((missing, "parent %d: no row after flush and commit" % g["pk"]))
                elif g["a"] is not None and prow[g["pk"]] != g["a"]:
                    problems.append(("flushed-row-differs-from-merged-state", "parent %d row %s" % (g["pk"], prow.get(g["pk"]))))
                if g["kids"] is not None:
                    want = {ck["pk"] for ck in g["kids"]}
                    for cid in sorted(want):
                        if cid not in rows:
                            problems.append((missing, "child %d of parent %d: no row after flush and commit" % (cid, g["pk"])))
                        elif rows[cid][0] != g["pk"]:
                            problems.append(("flushed-row-differs-from-merged-state", "child %d should belong to parent %d: row %s" % (cid, g["pk"], rows.get(cid))))
                    for cid, (pp, _) in rows.items():
                        if pp == g["pk"] and cid not in want:
                            problems.append(("flushed-row-differs-from-merged-state", "child %d still belongs to parent %d after it was merged out" % (cid, g["pk"])))
    except IntegrityError as e:
        if not af:
            raise
        problems.append(("flush-integrity-error", "autoflush session: %s" % str(e.orig)[:120]))
    finally:
        try:
            sess.close()
        except Exception:
            pass
    return "graph", problems


# ---------------------------------------------------------------------- encoding
def enc_op(op):
    if op[0] == "m":
        s = op[2]
        f = lambda v: "N" if v is None else str(v)
        return "m:%d:%d:%d:%s:%s:%d:%d" % (op[1], s["pk"], s.get("tok", 0), f(s["attrs"].get("a")), f(s["attrs"].get("b")), 1 if s["persistent"] else 0, 1 if s.get("modified") else 0)
    return ":".join(str(int(x)) if isinstance(x, bool) else str(x) for x in op)


def request(case, xops=None, final_flush=1):
    """xops: the ops as executed (an autoflush history runs every merge twice; a history that
    ran into a flush conflict ends early); default: the generated ops"""
    ops = case["ops"] if xops is None else xops
    return "merge run %d %d %d %s" % (case["n"], int(case.get("af", 0)), final_flush, ",".join(enc_op(o) for o in ops) or "-")


# ---------------------------------------------------------------------- generators
def rand_src(rng, n):
    pk = rng.randrange(n)
    pers = rng.random() < 0.6
    return {"pk": pk, "tok": (rng.choice([0, 0, 1, 2]) if pers else 0), "attrs": {"a": rng.choice([None, rng.randint(1, 9)]), "b": rng.choice([None, rng.randint(1, 9)])},  # never 0: NULL prints as 0
            "persistent": pers, "modified": pers and rng.random() < 0.25}


def gen_flat(rng, tier):
    n = rng.choice([1, 2, 3])
    # the Session's autoflush option; pending deletes (`del`) in both kinds of session
    af = 1 if rng.random() < 0.55 else 0
    pdel = 0.09 if rng.random() < 0.6 else 0.0
    ops = []
    deleted = set()
    for k in range(n):
        if rng.random() < 0.6:
            ops.append(("ins", k, rng.randint(1, 9), rng.randint(1, 9)))
    for _ in range(rng.randint(3, 9 if tier == "quick" else 16)):
        r = rng.random()
        k = rng.randrange(n)
        if r < pdel:
            ops.append(("del", k, rng.choice([0, 0, 0, 1, 2])))
            deleted.add(k)
        elif r < 0.12 + pdel:
            ops.append(("load", k, rng.choice([0, 0, 1, 2])))
        elif r < 0.24:
            ops.append(("set", k, rng.choice([0, 0, 1, 2]), rng.random() < 0.5, rng.randint(10, 19)))
        elif r < 0.30:
            ops.append(("ins", k, rng.randint(1, 9), rng.randint(1, 9)))
        elif r < 0.40:
            ops.append(("flush",))
        else:
            src = rand_src(rng, n)
            # load=False only for identities whose row was inserted before (and never deleted):
            # an instance merged without a row and modified later cannot be flushed
            # (StaleDataError), not our subject
            has_row = any(o[0] == "ins" and o[1] == src["pk"] for o in ops) and src["pk"] not in deleted
            load = 1 if (rng.random() < 0.65 or not has_row) else 0
            ops.append(("m", load, src))
    return n, af, ops


def gen_graph(rng):
    npar, nch, nk = rng.choice([1, 2]), rng.choice([2, 3, 4]), 2
    af = 1 if rng.random() < 0.55 else 0
    dbk = {k: rng.randint(0, 9) for k in range(nk) if rng.random() < 0.7}
    dbp = {p: rng.randint(0, 9) for p in range(npar) if rng.random() < 0.7}
    dbpk = {p: rng.choice(list(dbk) + [None]) if dbk else None for p in dbp}
    dbc = {c: (rng.choice(list(dbp) + [None]) if dbp else None, rng.randint(0, 9)) for c in range(nch) if rng.random() < 0.6}
    graphs = []
    ngraphs = rng.randint(1, 3)
    for gi in range(ngraphs):
        pk = rng.randrange(npar)
        kids = None
        if rng.random() < 0.7:
            ids = [c for c in range(nch) if rng.random() < 0.6]
            # two source objects with one identity (exercises _resolve_conflict_map); only in the
            # last graph: a collection listing one instance twice does not survive later
            # re-parenting through the backref consistently, which is not merge's business
            if ids and gi == ngraphs - 1 and rng.random() < 0.3:
                ids.append(ids[0])
            kids = [{"pk": c, "c": rng.choice([None, rng.randint(0, 3)]), "persistent": (c in dbc) and rng.random() < 0.8} for c in ids]
        r = rng.random()
        if r < 0.3:
            cart = None
        elif r < 0.4:
            cart = "null"
        else:
            ck = rng.randrange(nk)
            cart = {"pk": ck, "v": rng.choice([None, rng.randint(0, 9)]), "persistent": ck in dbk and rng.random() < 0.8}
        g = {"pk": pk, "a": rng.choice([None, rng.randint(0, 9)]), "persistent": pk in dbp and rng.random() < 0.7, "kids": kids, "cart": cart, "load": 1}
        # load=False: the source graph is taken to BE the database state, so it has to be: only as
        # the first graph, built from the rows as they are (attributes partially loaded)
        if gi == 0 and pk in dbp and rng.random() < 0.35:
            mine = sorted(c for c in dbc if dbc[c][0] == pk)
            g["persistent"] = True
            g["a"] = rng.choice([None, dbp[pk]])
            g["kids"] = rng.choice([None, [{"pk": c, "c": rng.choice([None, dbc[c][1]]), "persistent": True} for c in mine]])
            ck = dbpk.get(pk)
            g["cart"] = rng.choice([None, "null" if ck is None else {"pk": ck, "v": rng.choice([None, dbk[ck]]), "persistent": True}])
            g["load"] = 0
        # unflushed work in an autoflush Session right before this merge: pending children whose
        # id has no row (mostly ids the graph also lists, as transient children), pending deletes
        # of the Session's instance of the graph's parent / one of its children / its cart
        if af and g["load"] and rng.random() < 0.6:
            pre = []
            free = [c for c in range(nch + 1) if c not in dbc]
            listed = [ck["pk"] for ck in (g["kids"] or []) if not ck["persistent"] and ck["pk"] not in dbc]
            for _ in range(rng.choice([0, 1, 1, 2])):
                pool = listed if (listed and rng.random() < 0.7) else free
                if pool:
                    pre.append(("padd", rng.choice(pool), rng.randint(4, 9)))
            r = rng.random()
            if r < 0.25:
                pre.append(("pdel", "P", rng.choice([pk, pk, rng.randrange(npar)])))
            elif r < 0.40:
                pre.append(("pdel", "C", rng.randrange(nch)))
            elif r < 0.50:
                pre.append(("pdel", "K", rng.randrange(nk)))
            rng.shuffle(pre)
            g["pre"] = pre
        graphs.append(g)
    return {"af": af, "dbk": dbk, "dbp": dbp, "dbpk": dbpk, "dbc": dbc, "preload": [p for p in range(npar) if rng.random() < 0.5], "graphs": graphs, "src": "graph",
            # the Session's instances are expired (wholly, or one attribute) before the merges, as after
            # commit() / expire(): nothing is pending yet, so expiry changes no value - merge must still
            # copy every source attribute (also a None) onto the expired target
            "expire": rng.choice([None, None, None, "all", "cart", "children", "a"])}


def small_scope():
    """(af, ops)"""
    import itertools

    srcs = []
    for a in (None, 5):
        for b in (None, 6):
            for pers in (True, False):
                srcs.append({"pk": 0, "tok": 0, "attrs": {"a": a, "b": b}, "persistent": pers, "modified": False})
    srcs.append({"pk": 0, "tok": 0, "attrs": {"a": 5, "b": None}, "persistent": True, "modified": True})
    srcs.append({"pk": 0, "tok": 1, "attrs": {"a": 7, "b": None}, "persistent": True, "modified": False})
    for pre in ([], [("ins", 0, 1, 2)], [("ins", 0, 1, 2), ("load", 0, 0)], [("ins", 0, 1, 2), ("load", 0, 0), ("set", 0, 0, False, 11)],
                [("ins", 0, 1, 2), ("load", 0, 1), ("set", 0, 1, True, 12)]):
        for s1, s2 in itertools.product(srcs, repeat=2):
            for l1 in (1, 0):
                for l2 in (1, 0):
                    if not pre and (l1 == 0 or l2 == 0):
                        continue
                    yield 0, pre + [("m", l1, s1), ("m", l2, s2), ("flush",), ("m", 1, s1)]
    # unflushed session state x autoflush option: every source merged (load=True, and load=False
    # where a row backs it) into a session that holds the identity clean / modified / marked
    # deleted / modified and marked deleted / pending, then a second source, flush, first again
    for af in (1, 0):
        for pre in ([("ins", 0, 1, 2), ("load", 0, 0), ("del", 0, 0)],
                    [("ins", 0, 1, 2), ("load", 0, 0), ("set", 0, 0, False, 11), ("del", 0, 0)],
                    [("ins", 0, 1, 2), ("load", 0, 1), ("del", 0, 1)],
                    [("m", 1, srcs[5])],
                    [("ins", 0, 1, 2), ("load", 0, 0), ("set", 0, 0, True, 12)]):
            for s1, s2 in itertools.product(srcs, repeat=2):
                for l1 in (1, 0):
                    if l1 == 0 and pre[0][0] != "ins":
                        continue
                    yield af, pre + [("m", l1, s1), ("m", 1, s2), ("flush",), ("m", 1, s1)]


def gen_cases(ctx, deep=False):
    thorough = ctx.tier == "thorough" or deep
    for _ in range(8000 if thorough else 1100):
        n, af, ops = gen_flat(ctx.rng, ctx.tier)
        yield {"n": n, "af": af, "ops": ops, "src": "flat"}
    for af, seq in small_scope():
        if thorough or ctx.rng.random() < (0.12 if af == 0 else 0.2):
            yield {"n": 1, "af": af, "ops": seq, "src": "small"}
    # always-run: the Session's instance is EXPIRED (wholly / only the relationship / only a column)
    # and the source carries an explicit None / another value for what is expired
    for af in (0, 1):
        for exp in ("all", "cart", "children", "a"):
            for cart in ("null", {"pk": 1, "v": 7, "persistent": True}):
                for kids in (None, [], [{"pk": 1, "c": 2, "persistent": True}]):
                    yield {"af": af, "dbk": {0: 5, 1: 6}, "dbp": {0: 3, 1: 4}, "dbpk": {0: 0, 1: 1}, "dbc": {0: (0, 1), 1: (0, 2), 2: (1, 3)},
                           "preload": [0, 1], "expire": exp, "src": "graph",
                           "graphs": [{"pk": 0, "a": 9, "persistent": True, "kids": kids, "cart": cart, "load": 1}]}
    for _ in range(4000 if thorough else 600):
        yield gen_graph(ctx.rng)


def jsonable(case):
    import json

    return json.loads(json.dumps(case))


def unjson(c):
    if c.get("src") == "graph":
        graphs = [dict(g, pre=[tuple(p) for p in g["pre"]]) if g.get("pre") else g for g in c["graphs"]]
        return dict(c, graphs=graphs, dbp={int(k): v for k, v in c["dbp"].items()}, dbc={int(k): tuple(v) for k, v in c["dbc"].items()},
                    dbk={int(k): v for k, v in c.get("dbk", {}).items()}, dbpk={int(k): v for k, v in c.get("dbpk", {}).items()})
    return dict(c, ops=[tuple(o) for o in c["ops"]])


def check_case(case):
    """returns (line, problems, executed ops, final flush done)"""
    if case["src"] == "graph":
        r = run_graph(case)
        return r[0], r[1], [], 1
    r = run_flat(case)
    if len(r) == 2:  # crashed
        return r[0], r[1], list(case["ops"]), 1
    return r


def _budget_exhausted(ctx, t0, n):
    """a broken tree can make every history slow (leaks, lock waits): stop generating in time
    and judge what was run"""
    import time

    limit = 70 if ctx.tier == "quick" else 650
    if time.time() - t0 > limit:
        ctx.assumptions.append("time budget reached after %d cases; remaining generated cases not run" % n)
        return True
    return False


def run(ctx, deep=False):
    ctx.rule = (
        "both streams: Session(autoflush=True|False), about half each. stream A: histories of insert-row/load/set/Session.delete (pending)/flush and "
        "merge(load=True|False) of detached or transient sources with every combination of loaded attributes, 1-3 identities, 3 identity tokens; in "
        "autoflush histories merges of pending and deleted-marked identities are executed and every merge is re-merged as an operation of its own; random "
        "(seeded) + exhaustive two-merge combinations over 9 sources x 5 prior states x load flags (autoflush off) and over 9 sources x 5 unflushed prior "
        "states (marked deleted, modified+deleted, deleted under a token, pending, modified) x autoflush on/off (12-20% quick, all thorough), compared "
        "with the Lean model; stream B: Parent/children/cart graphs with partially loaded attributes and collections, duplicate identities in one "
        "collection, preloaded or not, in autoflush sessions preceded by pending children (Session.add, ids mostly also listed as transient children) and "
        "pending Session.delete of the parent / a child / the cart, oracle only; non-trivial = at least one merge executed"
    )
    import time

    t0 = time.time()
    cases, impl_out, reqs = [], [], []
    nviol = {}  # per stream: a broken tree fails in many histories; keep room for the other stream
    for case in gen_cases(ctx, deep):
        if _budget_exhausted(ctx, t0, len(cases)):
            break
        stream = "graph" if case["src"] == "graph" else "flat"
        if nviol.get(stream, 0) >= 12:
            continue
        line, problems, xops, ff = check_case(case)
        jc = jsonable(case)
        ctx.case(jc, nontrivial=(case["src"] == "graph" or "M" in line))
        ctx.count("src=" + case["src"])
        ctx.count("autoflush=%d" % case.get("af", 0))
        if case["src"] == "graph":
            for g in case["graphs"]:
                for pre in g.get("pre") or []:
                    ctx.count("graph-pre=" + pre[0])
        else:
            if any(o[0] == "del" for o in case["ops"]):
                ctx.count("flat-with-pending-delete")
        for key, detail in problems:
            ctx.violation(key, jc, detail)
        nviol[stream] = nviol.get(stream, 0) + len(problems)
        if case["src"] != "graph":
            cases.append(jc)
            impl_out.append(line)
            reqs.append(request(case, xops, ff))
        if case["src"] == "flat" and len(ctx.samples) < 3:
            ctx.sample({"case": jc, "impl": line})
    if ctx.driver_ok():
        ctx.correspond("corr/c45:session.merge-vs-Model.Merge", cases, impl_out, ctx.driver(reqs))
        bad = ["merge run 1 0 1 m:1:3:0:N:N:1:0", "merge run 1 1 1 m:2:0:0:N:N:1:0", "merge run x 0 1 -", "merge run 1 0 1 load:0", "merge run 1 1 1 m:1:0:1:N:N:0:0",
               "merge run 1 2 1 -", "merge run 1 1 -", "merge run 1 1 1 del:0", "merge run 1 1 1 del:1:0", "merge run 1 0 1 del:0:3"]
        ctx.correspond("corr/c45:malformed-rejected", [{"req": b} for b in bad], ["bad-op"] * len(bad), ctx.driver(bad))


def search(ctx, broken):
    for d in ctx.disagreements:
        c = d.get("case")
        if isinstance(c, dict) and "ops" in c:
            problems = check_case(unjson(c))[1]
            for key, detail in problems:
                ctx.violation(key, c, detail)
    if ctx.violations:
        return
    sub = type(ctx)(ctx.pid, "thorough", ctx.seed + 1, ctx.level)
    run(sub, deep=True)
    ctx.violations.extend(sub.violations)


def replay(ctx, obj):
    case = unjson(obj["case"])
    line, problems = check_case(case)[:2]
    print("replay C45 %s\n  impl: %s\n  oracle: %s" % (request(case) if case["src"] != "graph" else case, line, problems))
    return bool(problems)
