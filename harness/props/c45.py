"""C45 — Session.merge copies state onto the session's single instance.

Model: lean/SaVerif/Model/Merge.lean (column-attribute core of Session._merge /
ColumnProperty.merge: identity-map hit, Session.get, new pending instance, load=False
path, attribute history).  Theorems: lean/SaVerif/Props/C45.lean.

Two streams on a real Session (autoflush off) over SQLite:
 A. flat histories (insert row / load / set / merge(load=True|False) of detached or
    transient sources with partially loaded attributes / flush) — compared with the Lean
    model op by op (returned values, net-change flag, number of SQL statements) and
    checked by the oracle;
 B. object graphs Parent(id, a, children=[Child(id, c)]) with partially loaded
    attributes and collections — oracle only.

Direct oracle (never uses the model): the instance returned by merge is THE instance
the Session holds for that identity (identity map or session.new, `is`), merging again
returns the very same object; every attribute loaded on the source is equal on the
result, every attribute not loaded on the source keeps the value the Session / database
had; a second merge of an equal source changes no value, no history and creates no
object; with load=False no statement is emitted and nothing is flagged modified; after
flush the rows equal the merged state (graph stream: children rows point to the parent,
children removed from the collection are detached from it).
"""
import os
import shutil
import tempfile
import warnings

PID = "C45"
LEVEL = "proof"
LEAN = ["SaVerif.Props.C45"]
META = {
    "text": "Lean theorems over the merge model for ALL session states and ALL sources (any partial loading): every attribute loaded on the source is equal on the merged instance and every attribute not loaded keeps its value (merge_copies_loaded); merging an equal source again leaves the whole session state unchanged and emits no SQL (merge_idempotent; hypothesis: the first merge did not create a still-pending instance, for which the second merge is skipped by the harness - documented behaviour with autoflush off); with load=False no SQL is emitted, the database is untouched and the result carries no net change (merge_noload_no_sql_no_change), and transient / dirty-and-absent sources are rejected (merge_noload_rejects); the returned instance carries the source's full identity key, identity token included (merge_keeps_identity, merge_noload_keeps_identity). Tied to orm/session.py, properties.py by a differential run (values, net-change flag, SQL statement count per merge); identity of the returned instance, idempotence, graph cascades and flushed rows are re-checked on the real objects by an independent oracle.",
    "note": "Trusted: Lean kernel; correspondence; SQLite. In the model the identity map is a function of the primary key, so 'the single instance' is by construction there: object identity (`is`) is established only by the oracle on the real objects. Relationship cascade of merge is covered by the oracle stream only (not modelled in Lean). autoflush is off; sources always carry a full primary key. Fixture classes define __len__/__bool__ (falsy instances) and value __eq__/__hash__ (equal-but-distinct instances). merge(load=False) of token-carrying sources is exercised since fix 92da004 (state.identity_token set from the key); the oracle key merge-noload-identity-token-not-set-on-state guards it.",
    "technique": "Lean 4 proofs over a merge model + differential correspondence incl. SQL statement counts + direct oracle on real object graphs",
    "design_ref": "DESIGN.md §3 C45",
}

_W = None
_TMP = None


def _tmpdir():
    global _TMP
    if _TMP is None:
        base = "/dev/shm" if os.path.isdir("/dev/shm") else None
        _TMP = tempfile.mkdtemp(prefix="verif-c45-", dir=base)
        import atexit

        atexit.register(shutil.rmtree, _TMP, True)
    return _TMP


class World:
    def __init__(self):
        import sqlalchemy as sa
        from sqlalchemy import event
        from sqlalchemy.orm import declarative_base, relationship

        self.sa = sa
        self.engine = sa.create_engine("sqlite:///" + os.path.join(_tmpdir(), "c45.db"))
        Base = declarative_base()

        class Odd:
            """what applications do to their mapped classes: container protocol and value equality.
            Instances are falsy, and distinct instances with equal values compare (and hash) equal;
            the ORM must go by identity (`is`, `is not None`) throughout."""

            def __len__(self):
                return 0

            def __bool__(self):
                return False

            def __eq__(self, other):
                return type(other) is type(self) and self._value() == other._value()

            def __ne__(self, other):
                return not self.__eq__(other)

            def __hash__(self):
                return 7

        class T(Odd, Base):
            __tablename__ = "t"
            id = sa.Column(sa.Integer, primary_key=True, autoincrement=False)
            a = sa.Column(sa.Integer)
            b = sa.Column(sa.Integer)

            def _value(self):
                return (self.__dict__.get("id"), self.__dict__.get("a"), self.__dict__.get("b"))

        class K(Odd, Base):  # a "cart": scalar side of a many-to-one
            __tablename__ = "k"
            id = sa.Column(sa.Integer, primary_key=True, autoincrement=False)
            v = sa.Column(sa.Integer)

            def _value(self):
                return (self.__dict__.get("id"), self.__dict__.get("v"))

        class P(Base):
            __tablename__ = "p"
            id = sa.Column(sa.Integer, primary_key=True, autoincrement=False)
            a = sa.Column(sa.Integer)
            kid = sa.Column(sa.Integer, sa.ForeignKey("k.id"))
            children = relationship("C", order_by="C.id", backref="parent")
            cart = relationship("K")

        class C(Odd, Base):
            __tablename__ = "c"
            id = sa.Column(sa.Integer, primary_key=True, autoincrement=False)
            pid = sa.Column(sa.Integer, sa.ForeignKey("p.id"))
            c = sa.Column(sa.Integer)

            def _value(self):
                # value equality per row: a source object and the Session's instance for the same
                # row are equal but distinct (two different rows never compare equal: Python's
                # list.remove() is by equality, which is the collection's documented semantics)
                return (self.__dict__.get("id"), self.__dict__.get("c"))

        self.T, self.P, self.C, self.K = T, P, C, K
        Base.metadata.drop_all(self.engine)
        Base.metadata.create_all(self.engine)
        self.nsql = 0

        @event.listens_for(self.engine, "before_cursor_execute")
        def count(conn, cursor, statement, parameters, context, executemany):
            self.nsql += 1

    def reset(self):
        with self.engine.begin() as c:
            for t in ("c", "p", "k", "t"):
                c.exec_driver_sql("delete from " + t)


def world():
    global _W
    if _W is None:
        _W = World()
    return _W


def guarded(fn):
    def wrapper(case):
        import traceback

        try:
            return fn(case)
        except Exception as e:
            tb = traceback.extract_tb(e.__traceback__)
            where = ["%s:%d" % (os.path.basename(f.filename), f.lineno) for f in tb if "sqlalchemy" in f.filename][-3:]
            return "crash:" + type(e).__name__, [("unexpected-exception", "%s: %s at %s" % (type(e).__name__, str(e)[:200], where))]

    return wrapper


TOK = [None, "t1", "t2"]


def nz(v):
    """NULL is printed as 0 on both sides (the model has no NULL)"""
    return 0 if v is None else v


def make_source(T, spec, **extra):
    """spec: dict attr -> value for the loaded attributes; persistent / modified flags"""
    from sqlalchemy.orm import make_transient_to_detached

    from sqlalchemy import inspect

    kw = {k: v for k, v in spec["attrs"].items() if v is not None}
    o = T(id=spec["pk"], **kw)
    if spec["persistent"]:
        # the key of a detached object carries the identity token it was loaded with
        inspect(o).identity_token = TOK[spec.get("tok", 0)]
        make_transient_to_detached(o)
        if spec.get("modified"):
            # re-assign a loaded attribute: same value, but the state is now dirty
            for k, v in kw.items():
                setattr(o, k, v)
                break
            else:
                o.id = spec["pk"]
    return o


@guarded
def run_flat(case):
    from sqlalchemy import inspect
    from sqlalchemy.exc import InvalidRequestError
    from sqlalchemy.orm import Session

    w = world()
    w.reset()
    T = w.T
    n, ops = case["n"], case["ops"]
    sess = Session(w.engine, autoflush=False, expire_on_commit=False)
    keep = []
    noload_pks = set()  # load=False asserts the source IS the database state: not comparable afterwards
    outs, problems = [], []
    final_flush = 1

    def ident(k, t=0):
        return sess.identity_map.get(inspect(T).identity_key_from_primary_key((k,), identity_token=TOK[t]))

    def any_ident(k):
        return any(ident(k, t) is not None for t in range(3))

    def pending(k):
        return [o for o in sess.new if isinstance(o, T) and o.__dict__.get("id") == k]

    def dbrows():
        with w.engine.connect() as c:
            return {r[0]: (r[1], r[2]) for r in c.exec_driver_sql("select id, a, b from t")}

    def snapshot():
        snap = {}
        for o in list(sess.identity_map.values()) + list(sess.new):
            st = inspect(o)
            snap[(o.__dict__.get("id"), st.identity_token, st.pending)] = (
                id(o), o.__dict__.get("a", "N"), o.__dict__.get("b", "N"), sess.is_modified(o), tuple(sorted(st.committed_state)))
        return snap

    def flush_conflict():
        """two modified instances of one row (or a pending one beside a modified one): their
        UPDATE order is unspecified, the history ends before such a flush"""
        per = {}
        for o in sess.identity_map.values():
            if sess.is_modified(o):
                per[o.__dict__.get("id", inspect(o).key[1][0])] = per.get(o.__dict__.get("id", inspect(o).key[1][0]), 0) + 1
        for o in sess.new:
            per[o.__dict__.get("id")] = per.get(o.__dict__.get("id"), 0) + 1
        return any(v > 1 for v in per.values())

    final = {}
    try:
        with warnings.catch_warnings():
            warnings.simplefilter("ignore")
            for op in ops:
                kind = op[0]
                if kind == "ins":
                    k = op[1]
                    if not any_ident(k) and not pending(k) and k not in dbrows():
                        with w.engine.begin() as c:
                            c.exec_driver_sql("insert into t (id, a, b) values (?, ?, ?)", (k, op[2], op[3]))
                    outs.append(".")
                elif kind == "load":
                    k, t = op[1], op[2]
                    if not pending(k) and ident(k, t) is None:
                        o = sess.get(T, k, identity_token=TOK[t])
                        if o is not None:
                            keep.append(o)
                    outs.append(".")
                elif kind == "set":
                    o = ident(op[1], op[2])
                    if o is not None:
                        setattr(o, "b" if op[3] else "a", op[4])
                    outs.append(".")
                elif kind == "flush":
                    if flush_conflict():
                        final_flush = 0
                        break
                    sess.flush()
                    sess.commit()
                    outs.append(".")
                elif kind == "m":
                    load, spec = op[1], op[2]
                    k, t = spec["pk"], spec.get("tok", 0)
                    if pending(k):
                        outs.append(".")
                        continue
                    before_obj = ident(k, t)
                    before_vals = None if before_obj is None else {x: before_obj.__dict__.get(x, "N") for x in ("a", "b")}
                    row = dbrows().get(k)
                    src = make_source(T, spec)
                    q0 = w.nsql
                    try:
                        m = sess.merge(src, load=bool(load))
                    except InvalidRequestError:
                        outs.append("E")
                        if load:
                            problems.append(("merge-rejected", "load=True merge raised InvalidRequestError for %s" % (spec,)))
                        continue
                    q = w.nsql - q0
                    keep.append(m)
                    st = inspect(m)
                    isnew = st.pending if load else (before_obj is None)
                    dirty = True if st.pending else sess.is_modified(m)
                    mtok = 0 if st.pending else TOK.index(st.key[2])
                    outs.append("M%d:%d:%s:%s:%d:%d" % (1 if isnew else 0, mtok, nz(m.__dict__.get("a", "N")), nz(m.__dict__.get("b", "N")), 1 if dirty else 0, q))
                    # ------------------------------------------------ oracle
                    if st.pending:
                        if not any(p is m for p in pending(k)):
                            problems.append(("merged-instance-not-in-session", "pk %d" % k))
                    else:
                        if spec["persistent"] and st.key != inspect(src).key:
                            problems.append(("merge-returned-instance-of-another-identity",
                                             "source key %s, merge returned the instance with key %s" % (inspect(src).key[1:], st.key[1:])))
                        if sess.identity_map.get(st.key) is not m:
                            problems.append(("merge-returned-other-instance", "pk %d: merge returned an object that is not the identity map's" % k))
                    if before_obj is not None and m is not before_obj:
                        problems.append(("merge-replaced-existing-instance", "pk %d token %s" % (k, TOK[t])))
                    if m is src:
                        problems.append(("merge-returned-source", "pk %d" % k))
                    for x in ("a", "b"):
                        sv = spec["attrs"].get(x)
                        got = nz(m.__dict__.get(x, "N"))
                        if sv is not None:
                            if got != sv:
                                problems.append(("merge-did-not-copy-loaded-attribute", "%s: source %s, merged %s" % (x, sv, got)))
                        else:
                            if before_vals is not None:
                                exp = nz(before_vals[x])
                            elif row is not None and load:
                                exp = nz(row[0 if x == "a" else 1])
                            else:
                                exp = "N"
                            if got != exp:
                                problems.append(("merge-touched-unloaded-attribute", "%s: expected %s, merged has %s" % (x, exp, got)))
                    if not load:
                        noload_pks.add(k)
                        if not st.pending and st.identity_token != st.key[2]:
                            problems.append(("merge-noload-identity-token-not-set-on-state",
                                             "merge(load=False) returned an instance with key token %r but state.identity_token %r: the next flush re-keys it"
                                             % (st.key[2], st.identity_token)))
                        if q:
                            problems.append(("merge-noload-emitted-sql", "%d statements" % q))
                        if sess.is_modified(m) or m in sess.dirty:
                            problems.append(("merge-noload-flagged-change", "pk %d" % k))
                    # idempotence: an equal source again (not on still-pending results: with
                    # autoflush off a second merge cannot find a pending instance)
                    if not st.pending:
                        snap = snapshot()
                        q1 = w.nsql
                        try:
                            m2 = sess.merge(make_source(T, spec), load=bool(load))
                        except InvalidRequestError:
                            m2 = None
                            problems.append(("second-merge-rejected", "pk %d" % k))
                        if m2 is not None:
                            if m2 is not m:
                                problems.append(("second-merge-other-instance", "pk %d" % k))
                            if snapshot() != snap:
                                problems.append(("merge-not-idempotent", "state before second merge %s, after %s" % (snap, snapshot())))
                            if w.nsql != q1:
                                problems.append(("second-merge-emitted-sql", "%d statements" % (w.nsql - q1)))
                else:
                    raise ValueError(op)
            if final_flush and flush_conflict():
                final_flush = 0
            if final_flush:
                sess.flush()
                sess.commit()
            final = dbrows()
            if final_flush:
                # after the final flush every session object equals its row
                for o in list(sess.identity_map.values()):
                    oid = inspect(o).key[1][0]
                    if isinstance(o, T) and oid not in noload_pks and oid in final and "a" in o.__dict__ and "b" in o.__dict__:
                        if (nz(o.__dict__.get("a")), nz(o.__dict__.get("b"))) != tuple(nz(x) for x in final[oid]):
                            # several instances of one row (different tokens): only the one flushed last matches
                            if sum(1 for t in range(3) if ident(oid, t) is not None) == 1:
                                problems.append(("flushed-row-differs-from-merged-state", "pk %d: object %s row %s" % (oid, (o.a, o.b), final.get(oid))))
    finally:
        try:
            sess.close()
        except Exception:
            pass
    line = ";".join(outs) + " | " + " ".join("%d=%s/%s" % (k, nz(final[k][0]), nz(final[k][1])) for k in sorted(final) if k < n)
    return line, problems, len(outs), final_flush


@guarded
def run_graph(case):
    """oracle-only stream: merge of Parent/children graphs"""
    from sqlalchemy import inspect
    from sqlalchemy.orm import Session, make_transient_to_detached

    w = world()
    w.reset()
    P, C, K = w.P, w.C, w.K
    problems = []
    with w.engine.begin() as c:
        for kid, v in case.get("dbk", {}).items():
            c.exec_driver_sql("insert into k (id, v) values (?, ?)", (kid, v))
        for pid, a in case["dbp"].items():
            c.exec_driver_sql("insert into p (id, a, kid) values (?, ?, ?)", (pid, a, case.get("dbpk", {}).get(pid)))
        for cid, (pp, cv) in case["dbc"].items():
            c.exec_driver_sql("insert into c (id, pid, c) values (?, ?, ?)", (cid, pp, cv))
    sess = Session(w.engine, autoflush=False, expire_on_commit=False)
    keep = []
    kw_cart_holder = {}
    try:
        with warnings.catch_warnings():
            warnings.simplefilter("ignore")
            for pid in case["preload"]:
                o = sess.get(P, pid)
                if o is not None:
                    keep.append(o)
                    keep.extend(o.children)
            for g in case["graphs"]:
                def build():
                    kids = None
                    if g["kids"] is not None:
                        kids = []
                        for ck in g["kids"]:
                            co = C(id=ck["pk"], **({"c": ck["c"]} if ck["c"] is not None else {}))
                            if ck["persistent"]:
                                make_transient_to_detached(co)
                            kids.append(co)
                    kw = {"a": g["a"]} if g["a"] is not None else {}
                    if kids is not None:
                        kw["children"] = kids
                    cart = g.get("cart")
                    if cart == "null":
                        kw["cart"] = None
                    elif cart is not None:
                        ko = K(id=cart["pk"], **({"v": cart["v"]} if cart["v"] is not None else {}))
                        if cart["persistent"]:
                            make_transient_to_detached(ko)
                        kw["cart"] = ko
                    po = P(id=g["pk"], **kw)
                    if g["persistent"]:
                        make_transient_to_detached(po)
                    if not g.get("load", 1):
                        # as if loaded by another session: linking the graph must not leave history
                        for x in [po] + (kids or []) + ([kw["cart"]] if kw.get("cart") is not None else []):
                            inspect(x)._commit_all(x.__dict__)
                    kw_cart_holder["src"] = kw.get("cart")
                    return po

                before = sess.identity_map.get(inspect(P).identity_key_from_primary_key((g["pk"],)))
                load = bool(g.get("load", 1))
                q0 = w.nsql
                m = sess.merge(build(), load=load)
                keep.append(m)
                if not load and w.nsql != q0:
                    problems.append(("merge-noload-emitted-sql", "%d statements" % (w.nsql - q0)))
                cart = g.get("cart")
                if cart == "null":
                    if m.cart is not None:
                        problems.append(("merge-scalar-relationship-differs", "parent %d: source cart None, merged has one" % g["pk"]))
                elif cart is not None:
                    mc = m.__dict__.get("cart")
                    if mc is None:
                        problems.append(("merge-dropped-related-object", "parent %d: source has cart %d (a falsy instance), merged.cart is None" % (g["pk"], cart["pk"])))
                    else:
                        keep.append(mc)
                        if inspect(mc).identity_key[1][0] != cart["pk"] if inspect(mc).key else mc.id != cart["pk"]:
                            problems.append(("merge-scalar-relationship-differs", "parent %d: cart %s" % (g["pk"], mc.id)))
                        if cart["v"] is not None and mc.v != cart["v"]:
                            problems.append(("merge-did-not-copy-loaded-attribute", "cart %d v" % cart["pk"]))
                        if mc is kw_cart_holder.get("src"):
                            problems.append(("merge-returned-source", "cart %d" % cart["pk"]))
                        held = sess.identity_map.get(inspect(K).identity_key_from_primary_key((cart["pk"],)))
                        if held is not None and held is not mc:
                            problems.append(("two-instances-one-identity", "cart %d" % cart["pk"]))
                if before is not None and m is not before:
                    problems.append(("merge-replaced-existing-instance", "parent %d" % g["pk"]))
                if g["a"] is not None and m.a != g["a"]:
                    problems.append(("merge-did-not-copy-loaded-attribute", "parent %d a" % g["pk"]))
                if g["kids"] is not None:
                    got = [(c.id, c.c) for c in m.children]
                    # two sources with the same identity merge into one instance listed twice: compare ids
                    exp_ids = [ck["pk"] for ck in g["kids"]]
                    if [x[0] for x in got] != exp_ids:
                        problems.append(("merge-collection-differs", "parent %d: children %s, source had %s" % (g["pk"], got, exp_ids)))
                    last = {}
                    for ck in g["kids"]:
                        if ck["c"] is not None:
                            last[ck["pk"]] = ck["c"]
                    for c in m.children:
                        if c.id in last and c.c != last[c.id]:
                            problems.append(("merge-did-not-copy-loaded-attribute", "child %d c: %s vs %s" % (c.id, c.c, last[c.id])))
                    byid = {}
                    for c in m.children:
                        if byid.setdefault(c.id, c) is not c:
                            problems.append(("two-instances-one-identity", "child %d" % c.id))
                # idempotence (when nothing of the graph is still pending)
                allobjs = [m] + (list(m.children) if g["kids"] is not None else [])
                if m.__dict__.get("cart") is not None:
                    allobjs.append(m.__dict__["cart"])
                if not any(inspect(o).pending for o in allobjs):
                    snap = sorted((type(o).__name__, o.id, id(o), tuple(sorted((k, v) for k, v in o.__dict__.items() if k in ("a", "c", "pid", "v", "kid"))),
                                   sess.is_modified(o)) for o in list(sess.identity_map.values()) + list(sess.new))
                    kidsnap = [id(c) for c in m.children] if g["kids"] is not None else None
                    m2 = sess.merge(build(), load=load)
                    if m2 is not m:
                        problems.append(("second-merge-other-instance", "parent %d" % g["pk"]))
                    snap2 = sorted((type(o).__name__, o.id, id(o), tuple(sorted((k, v) for k, v in o.__dict__.items() if k in ("a", "c", "pid", "v", "kid"))),
                                    sess.is_modified(o)) for o in list(sess.identity_map.values()) + list(sess.new))
                    if snap2 != snap or (kidsnap is not None and [id(c) for c in m2.children] != kidsnap):
                        problems.append(("merge-not-idempotent", "parent %d" % g["pk"]))
                sess.flush()
                sess.commit()
                if not load:
                    continue  # load=False asserts the source IS the database state
                with w.engine.connect() as c:
                    rows = {r[0]: (r[1], r[2]) for r in c.exec_driver_sql("select id, pid, c from c")}
                    prow = {r[0]: r[1] for r in c.exec_driver_sql("select id, a from p")}
                    pk_kid = {r[0]: r[1] for r in c.exec_driver_sql("select id, kid from p")}
                    krow = {r[0]: r[1] for r in c.exec_driver_sql("select id, v from k")}
                if cart == "null" and pk_kid.get(g["pk"]) is not None:
                    problems.append(("flushed-row-differs-from-merged-state", "parent %d kid %s, merged cart None" % (g["pk"], pk_kid.get(g["pk"]))))
                if isinstance(cart, dict):
                    if pk_kid.get(g["pk"]) != cart["pk"]:
                        problems.append(("flushed-row-differs-from-merged-state", "parent %d kid %s, source cart %d" % (g["pk"], pk_kid.get(g["pk"]), cart["pk"])))
                    if cart["pk"] not in krow or (cart["v"] is not None and krow[cart["pk"]] != cart["v"]):
                        problems.append(("flushed-row-differs-from-merged-state", "cart %d row %s" % (cart["pk"], krow.get(cart["pk"]))))
                if g["pk"] not in prow or (g["a"] is not None and prow[g["pk"]] != g["a"]):
                    problems.append(("flushed-row-differs-from-merged-state", "parent %d row %s" % (g["pk"], prow.get(g["pk"]))))
                if g["kids"] is not None:
                    want = {ck["pk"] for ck in g["kids"]}
                    for cid in want:
                        if cid not in rows or rows[cid][0] != g["pk"]:
                            problems.append(("flushed-row-differs-from-merged-state", "child %d should belong to parent %d: row %s" % (cid, g["pk"], rows.get(cid))))
                    for cid, (pp, _) in rows.items():
                        if pp == g["pk"] and cid not in want:
                            problems.append(("flushed-row-differs-from-merged-state", "child %d still belongs to parent %d after it was merged out" % (cid, g["pk"])))
    finally:
        try:
            sess.close()
        except Exception:
            pass
    return "graph", problems


# ---------------------------------------------------------------------- encoding
def enc_op(op):
    if op[0] == "m":
        s = op[2]
        f = lambda v: "N" if v is None else str(v)
        return "m:%d:%d:%d:%s:%s:%d:%d" % (op[1], s["pk"], s.get("tok", 0), f(s["attrs"].get("a")), f(s["attrs"].get("b")), 1 if s["persistent"] else 0, 1 if s.get("modified") else 0)
    return ":".join(str(int(x)) if isinstance(x, bool) else str(x) for x in op)


def request(case, nexec=None, final_flush=1):
    ops = case["ops"] if nexec is None else case["ops"][:nexec]
    return "merge run %d %d %s" % (case["n"], final_flush, ",".join(enc_op(o) for o in ops) or "-")


# ---------------------------------------------------------------------- generators
def rand_src(rng, n):
    pk = rng.randrange(n)
    pers = rng.random() < 0.6
    return {"pk": pk, "tok": (rng.choice([0, 0, 1, 2]) if pers else 0), "attrs": {"a": rng.choice([None, rng.randint(1, 9)]), "b": rng.choice([None, rng.randint(1, 9)])},  # never 0: NULL prints as 0
            "persistent": pers, "modified": pers and rng.random() < 0.25}


def gen_flat(rng, tier):
    n = rng.choice([1, 2, 3])
    ops = []
    for k in range(n):
        if rng.random() < 0.6:
            ops.append(("ins", k, rng.randint(1, 9), rng.randint(1, 9)))
    for _ in range(rng.randint(3, 9 if tier == "quick" else 16)):
        r = rng.random()
        k = rng.randrange(n)
        if r < 0.12:
            ops.append(("load", k, rng.choice([0, 0, 1, 2])))
        elif r < 0.24:
            ops.append(("set", k, rng.choice([0, 0, 1, 2]), rng.random() < 0.5, rng.randint(10, 19)))
        elif r < 0.30:
            ops.append(("ins", k, rng.randint(1, 9), rng.randint(1, 9)))
        elif r < 0.40:
            ops.append(("flush",))
        else:
            src = rand_src(rng, n)
            # load=False only for identities whose row was inserted before: an instance merged
            # without a row and modified later cannot be flushed (StaleDataError), not our subject
            has_row = any(o[0] == "ins" and o[1] == src["pk"] for o in ops)
            load = 1 if (rng.random() < 0.65 or not has_row) else 0
            ops.append(("m", load, src))
    return n, ops


def gen_graph(rng):
    npar, nch, nk = rng.choice([1, 2]), rng.choice([2, 3, 4]), 2
    dbk = {k: rng.randint(0, 9) for k in range(nk) if rng.random() < 0.7}
    dbp = {p: rng.randint(0, 9) for p in range(npar) if rng.random() < 0.7}
    dbpk = {p: rng.choice(list(dbk) + [None]) if dbk else None for p in dbp}
    dbc = {c: (rng.choice(list(dbp) + [None]) if dbp else None, rng.randint(0, 9)) for c in range(nch) if rng.random() < 0.6}
    graphs = []
    ngraphs = rng.randint(1, 3)
    for gi in range(ngraphs):
        pk = rng.randrange(npar)
        kids = None
        if rng.random() < 0.7:
            ids = [c for c in range(nch) if rng.random() < 0.6]
            # two source objects with one identity (exercises _resolve_conflict_map); only in the
            # last graph: a collection listing one instance twice does not survive later
            # re-parenting through the backref consistently, which is not merge's business
            if ids and gi == ngraphs - 1 and rng.random() < 0.3:
                ids.append(ids[0])
            kids = [{"pk": c, "c": rng.choice([None, rng.randint(0, 3)]), "persistent": (c in dbc) and rng.random() < 0.8} for c in ids]
        r = rng.random()
        if r < 0.3:
            cart = None
        elif r < 0.4:
            cart = "null"
        else:
            ck = rng.randrange(nk)
            cart = {"pk": ck, "v": rng.choice([None, rng.randint(0, 9)]), "persistent": ck in dbk and rng.random() < 0.8}
        g = {"pk": pk, "a": rng.choice([None, rng.randint(0, 9)]), "persistent": pk in dbp and rng.random() < 0.7, "kids": kids, "cart": cart, "load": 1}
        # load=False: the source graph is taken to BE the database state, so it has to be: only as
        # the first graph, built from the rows as they are (attributes partially loaded)
        if gi == 0 and pk in dbp and rng.random() < 0.35:
            mine = sorted(c for c in dbc if dbc[c][0] == pk)
            g["persistent"] = True
            g["a"] = rng.choice([None, dbp[pk]])
            g["kids"] = rng.choice([None, [{"pk": c, "c": rng.choice([None, dbc[c][1]]), "persistent": True} for c in mine]])
            ck = dbpk.get(pk)
            g["cart"] = rng.choice([None, "null" if ck is None else {"pk": ck, "v": rng.choice([None, dbk[ck]]), "persistent": True}])
            g["load"] = 0
        graphs.append(g)
    return {"dbk": dbk, "dbp": dbp, "dbpk": dbpk, "dbc": dbc, "preload": [p for p in range(npar) if rng.random() < 0.5], "graphs": graphs, "src": "graph"}


def small_scope():
    import itertools

    srcs = []
    for a in (None, 5):
        for b in (None, 6):
            for pers in (True, False):
                srcs.append({"pk": 0, "tok": 0, "attrs": {"a": a, "b": b}, "persistent": pers, "modified": False})
    srcs.append({"pk": 0, "tok": 0, "attrs": {"a": 5, "b": None}, "persistent": True, "modified": True})
    srcs.append({"pk": 0, "tok": 1, "attrs": {"a": 7, "b": None}, "persistent": True, "modified": False})
    for pre in ([], [("ins", 0, 1, 2)], [("ins", 0, 1, 2), ("load", 0, 0)], [("ins", 0, 1, 2), ("load", 0, 0), ("set", 0, 0, False, 11)],
                [("ins", 0, 1, 2), ("load", 0, 1), ("set", 0, 1, True, 12)]):
        for s1, s2 in itertools.product(srcs, repeat=2):
            for l1 in (1, 0):
                for l2 in (1, 0):
                    if not pre and (l1 == 0 or l2 == 0):
                        continue
                    yield pre + [("m", l1, s1), ("m", l2, s2), ("flush",), ("m", 1, s1)]


def gen_cases(ctx, deep=False):
    thorough = ctx.tier == "thorough" or deep
    for _ in range(8000 if thorough else 1500):
        n, ops = gen_flat(ctx.rng, ctx.tier)
        yield {"n": n, "ops": ops, "src": "flat"}
    for seq in small_scope():
        if thorough or ctx.rng.random() < 0.25:
            yield {"n": 1, "ops": seq, "src": "small"}
    for _ in range(4000 if thorough else 700):
        yield gen_graph(ctx.rng)


def jsonable(case):
    import json

    return json.loads(json.dumps(case))


def unjson(c):
    if c.get("src") == "graph":
        return dict(c, dbp={int(k): v for k, v in c["dbp"].items()}, dbc={int(k): tuple(v) for k, v in c["dbc"].items()},
                    dbk={int(k): v for k, v in c.get("dbk", {}).items()}, dbpk={int(k): v for k, v in c.get("dbpk", {}).items()})
    return dict(c, ops=[tuple(o) for o in c["ops"]])


def check_case(case):
    """returns (line, problems, executed ops, final flush done)"""
    if case["src"] == "graph":
        r = run_graph(case)
        return r[0], r[1], 0, 1
    r = run_flat(case)
    if len(r) == 2:  # crashed
        return r[0], r[1], len(case["ops"]), 1
    return r


def _budget_exhausted(ctx, t0, n):
    """a broken tree can make every history slow (leaks, lock waits): stop generating in time
    and judge what was run"""
    import time

    limit = 70 if ctx.tier == "quick" else 650
    if time.time() - t0 > limit:
        ctx.assumptions.append("time budget reached after %d cases; remaining generated cases not run" % n)
        return True
    return False


def run(ctx, deep=False):
    ctx.rule = (
        "stream A: histories of insert-row/load/set/flush and merge(load=True|False) of detached or transient sources with every combination of "
        "loaded attributes, 1-3 identities, random (seeded) + exhaustive two-merge combinations over 9 sources x 5 prior states x load flags (25% quick, "
        "all thorough), compared with the Lean model; stream B: Parent/children graphs with partially loaded attributes and collections, duplicate "
        "identities in one collection, preloaded or not, oracle only; non-trivial = at least one merge executed"
    )
    import time

    t0 = time.time()
    cases, impl_out, reqs = [], [], []
    for case in gen_cases(ctx, deep):
        if _budget_exhausted(ctx, t0, len(cases)):
            break
        line, problems, nexec, ff = check_case(case)
        jc = jsonable(case)
        ctx.case(jc, nontrivial=(case["src"] == "graph" or "M" in line))
        ctx.count("src=" + case["src"])
        for key, detail in problems:
            ctx.violation(key, jc, detail)
        if case["src"] != "graph":
            cases.append(jc)
            impl_out.append(line)
            reqs.append(request(case, nexec, ff))
        if len(ctx.violations) >= 25:
            break
        if case["src"] == "flat" and len(ctx.samples) < 3:
            ctx.sample({"case": jc, "impl": line})
    if ctx.driver_ok():
        ctx.correspond("corr/c45:session.merge-vs-Model.Merge", cases, impl_out, ctx.driver(reqs))
        bad = ["merge run 1 1 m:1:3:0:N:N:1:0", "merge run 1 1 m:2:0:0:N:N:1:0", "merge run x 1 -", "merge run 1 1 load:0", "merge run 1 1 m:1:0:1:N:N:0:0"]
        ctx.correspond("corr/c45:malformed-rejected", [{"req": b} for b in bad], ["bad-op"] * len(bad), ctx.driver(bad))


def search(ctx, broken):
    for d in ctx.disagreements:
        c = d.get("case")
        if isinstance(c, dict) and "ops" in c:
            problems = check_case(unjson(c))[1]
            for key, detail in problems:
                ctx.violation(key, c, detail)
    if ctx.violations:
        return
    sub = type(ctx)(ctx.pid, "thorough", ctx.seed + 1, ctx.level)
    run(sub, deep=True)
    ctx.violations.extend(sub.violations)


def replay(ctx, obj):
    case = unjson(obj["case"])
    line, problems = check_case(case)[:2]
    print("replay C45 %s\n  impl: %s\n  oracle: %s" % (request(case) if case["src"] != "graph" else case, line, problems))
    return bool(problems)
