"""Translator: the dependency tuples of orm/dependency.py -> Lean tables.

For _OneToManyDP / _ManyToOneDP / _ManyToManyDP the bodies of
``per_property_dependencies`` and ``per_state_dependencies`` are decision trees over
``self.post_update``, ``isdelete``, ``childisdelete`` whose leaves are
``uow.dependencies.update([...])`` / ``.add(...)`` calls with tuples of local names.  The
tree is read from the AST of the *current working tree* and emitted both as Lean
definitions (lean/SaVerif/Gen/DepTuples.lean) and as a Python function (for the
correspondence with the dependencies a real flush registers).
"""
import ast
import os

SYMS = [
    "parent_saves", "child_saves", "parent_deletes", "child_deletes", "after_save", "before_delete",
    "child_post_updates", "child_pre_updates", "parent_post_updates", "parent_pre_updates",
    "save_parent", "delete_parent", "child_action",
]
CONDS = {"self.post_update": "pu", "isdelete": "isdelete", "childisdelete": "childisdelete"}
CLASSES = {"_OneToManyDP": "o2m", "_ManyToOneDP": "m2o", "_ManyToManyDP": "m2m"}


class Bad(Exception):
    pass


def _cond(node):
    """(variable, positive?)"""
    if isinstance(node, ast.UnaryOp) and isinstance(node.op, ast.Not):
        v, pos = _cond(node.operand)
        return v, not pos
    src = ast.unparse(node)
    if src in CONDS:
        return CONDS[src], True
    raise Bad("condition %s" % src)


def _tuples(call):
    arg = call.args[0]
    elts = arg.elts if isinstance(arg, (ast.List, ast.Tuple)) and call.func.attr == "update" else [arg]
    out = []
    for t in elts:
        if not (isinstance(t, ast.Tuple) and len(t.elts) == 2 and all(isinstance(e, ast.Name) for e in t.elts)):
            raise Bad("tuple %s" % ast.unparse(t))
        a, b = t.elts[0].id, t.elts[1].id
        if a not in SYMS or b not in SYMS:
            raise Bad("unknown name in %s" % ast.unparse(t))
        out.append((a, b))
    return out


def _block(stmts):
    """-> tree: list of items; item = ("t", [(a,b),...]) | ("if", var, pos, then_tree, else_tree)"""
    out = []
    for st in stmts:
        if isinstance(st, ast.Expr) and isinstance(st.value, ast.Constant):
            continue  # docstring / comment string
        if isinstance(st, ast.Assign):
            # local names for the PostUpdateAll records
            if len(st.targets) == 1 and isinstance(st.targets[0], ast.Name) and st.targets[0].id in SYMS:
                continue
            raise Bad("assignment %s" % ast.unparse(st))
        if isinstance(st, ast.Expr) and isinstance(st.value, ast.Call):
            f = st.value.func
            if isinstance(f, ast.Attribute) and f.attr in ("update", "add") and ast.unparse(f.value) == "uow.dependencies":
                out.append(("t", _tuples(st.value)))
                continue
            raise Bad("call %s" % ast.unparse(st))
        if isinstance(st, ast.If):
            v, pos = _cond(st.test)
            out.append(("if", v, pos, _block(st.body), _block(st.orelse)))
            continue
        raise Bad("statement %s" % ast.unparse(st)[:80])
    return out


def read_tables(repo):
    """{(short class, 'prop'|'state'): tree}, problems"""
    fn = os.path.join(repo, "lib", "sqlalchemy", "orm", "dependency.py")
    tree = ast.parse(open(fn).read())
    tabs, bad = {}, []
    for cls in tree.body:
        if isinstance(cls, ast.ClassDef) and cls.name in CLASSES:
            for fn_ in cls.body:
                if isinstance(fn_, ast.FunctionDef) and fn_.name in ("per_property_dependencies", "per_state_dependencies"):
                    key = (CLASSES[cls.name], "prop" if fn_.name.startswith("per_property") else "state")
                    try:
                        tabs[key] = _block(fn_.body)
                    except Bad as e:
                        bad.append("%s.%s: %s" % (cls.name, fn_.name, e))
                        tabs[key] = []
    for c in CLASSES.values():
        for k in ("prop", "state"):
            if (c, k) not in tabs:
                bad.append("%s %s: not found" % (c, k))
                tabs[(c, k)] = []
    return tabs, bad


def eval_tree(tree, env):
    out = []
    for it in tree:
        if it[0] == "t":
            out += it[1]
        else:
            _, v, pos, a, b = it
            out += eval_tree(a if bool(env[v]) == pos else b, env)
    return out


def _lean_tree(tree):
    parts = []
    for it in tree:
        if it[0] == "t":
            parts.append("[" + ", ".join("(.%s, .%s)" % t for t in it[1]) + "]")
        else:
            _, v, pos, a, b = it
            c = v if pos else "!" + v
            parts.append("(if %s then %s else %s)" % (c, _lean_tree(a), _lean_tree(b)))
    return " ++ ".join(parts) if parts else "[]"


def lean_source(tabs):
    lines = [
        "/-! Dependency tuples registered by orm/dependency.py (`uow.dependencies.update([...])`),",
        "one table per relationship direction, for the per-mapper (`prop`) and the per-state",
        "(`state`) form; `pu` = relationship(post_update=True). -/",
        "namespace SaVerif.Gen.DepTuples",
        "set_option linter.unusedVariables false",
        "",
        "inductive Sym where",
        "  | " + " | ".join(SYMS),
        "  deriving DecidableEq, Repr",
        "",
    ]
    for c in CLASSES.values():
        lines.append("def %s_prop (pu : Bool) : List (Sym × Sym) :=\n  %s" % (c, _lean_tree(tabs[(c, "prop")])))
        lines.append("")
        lines.append("def %s_state (pu isdelete childisdelete : Bool) : List (Sym × Sym) :=\n  %s" % (c, _lean_tree(tabs[(c, "state")])))
        lines.append("")
    lines += ["end SaVerif.Gen.DepTuples", ""]
    return "\n".join(lines)
