"""Regenerate /verif/MANIFEST.json from the property modules present in harness/props.

Each module supplies PID, LEVEL and a META dict:
  META = {"text": ..., "note": ..., "technique": ..., "design_ref": ...}
Properties without a module are listed under not_applicable with the reason in
NOT_CLAIMED below (kept current by hand).
"""
import importlib
import json
import os
import sys

sys.path.insert(0, os.path.dirname(os.path.dirname(os.path.abspath(__file__))))
VERIF = os.path.dirname(os.path.dirname(os.path.abspath(__file__)))

NOT_CLAIMED = json.load(open(os.path.join(VERIF, "harness", "not_claimed.json")))


def main():
    props = [json.loads(l) for l in open(os.path.join(VERIF, "properties.jsonl"))]
    checks, na = [], []
    for p in props:
        pid = p["id"]
        fn = os.path.join(VERIF, "harness", "props", pid.lower() + ".py")
        if os.path.exists(fn) and pid not in NOT_CLAIMED.get("force", {}):
            src = open(fn).read()
            ns = {}
            # read constants without importing sqlalchemy
            import ast
            tree = ast.parse(src)
            for node in tree.body:
                if isinstance(node, ast.Assign) and len(node.targets) == 1 and isinstance(node.targets[0], ast.Name):
                    if node.targets[0].id in ("PID", "LEVEL", "META", "LEAN"):
                        ns[node.targets[0].id] = ast.literal_eval(node.value)
            meta = ns.get("META", {})
            checks.append(
                {
                    "property_id": pid,
                    "quick_cmd": "./check %s --tier quick" % pid,
                    "thorough_cmd": "./check %s --tier thorough" % pid,
                    "evidence_file": "evidence/%s.json" % pid,
                    "replay_cmd_template": "./check %s --replay {path}" % pid,
                    "engine": "lean4-proof+correspondence",
                    "level_claimed": {
                        "category": ns.get("LEVEL", "proof"),
                        "text": meta.get("text", ""),
                        "design_ref": meta.get("design_ref", "DESIGN.md §3 " + pid),
                    },
                    "level_note": meta.get("note", ""),
                    "technique": meta.get("technique", "Lean 4 theorems about an executable model + differential correspondence check against the implementation"),
                }
            )
        else:
            na.append({"property_id": pid, "reason": NOT_CLAIMED["reasons"].get(pid, NOT_CLAIMED["default"])})
    man = {
        "version": 1,
        "setup_cmd": "/venv/bin/python tools/regen.py >/dev/null 2>&1; cd lean && (lake build || lake build driver || true)",
        "hooks": {
            "guard": "SQLALCHEMY_VERIF",
            "enable": "no hooks are installed in /repo; checks import /repo/lib in-process with a sys.meta_path finder (harness/vlib.py source_mode) that loads the pure-Python source of the seven *_cy.py modules",
            "baseline_off_cmd": "cd /repo && /venv/bin/python -m pytest -ra -q -p no:cacheprovider --timeout=900 --continue-on-collection-errors",
            "source_commits": NOT_CLAIMED.get("hook_commits", []),
            "add_only": True,
        },
        "engines": [
            {
                "name": "lean4-proof+correspondence",
                "path": "lean/ (models, theorems, driver) + harness/ (translators, correspondence, oracles)",
                "serves_properties": [c["property_id"] for c in checks],
                "kind_free_text": "machine-checked proof in Lean 4 about executable models; models tied to /repo by regenerated tables and by differential correspondence runs through a line-protocol driver",
            }
        ],
        "checks": checks,
        "notes": "See DESIGN.md. known_findings.json lists genuine defects recorded or fixed.",
        "not_applicable": na,
    }
    # known_findings.json is assembled (at build time, never at check time) from
    # the per-property fragments in known_findings.d/
    frag_dir = os.path.join(VERIF, "known_findings.d")
    findings = []
    for fn in sorted(os.listdir(frag_dir)):
        if fn.endswith(".json"):
            findings += json.load(open(os.path.join(frag_dir, fn)))["findings"]
    with open(os.path.join(VERIF, "known_findings.json"), "w") as f:
        json.dump({"findings": findings}, f, indent=1)
        f.write("\n")
    with open(os.path.join(VERIF, "MANIFEST.json"), "w") as f:
        json.dump(man, f, indent=1)
        f.write("\n")
    print("checks:", len(checks), "not claimed:", len(na))


if __name__ == "__main__":
    main()
