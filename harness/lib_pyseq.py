"""Executors / reference oracles for C38: instrumented list, set and keyed-dict relationship
collections of a real mapped class (append/remove attribute events recorded by listeners)
against the builtin types, plus the wire format of the Lean M-PYSEQ driver.

sqlalchemy is imported lazily inside `env()` (source mode is installed by run.py).
Items are child objects identified by a small index; plain twins hold the same objects.
"""
import collections

from harness.lib_coll import watchdog, dots

_NAMED = ("KeyError", "IndexError", "ValueError", "TypeError", "RuntimeError", "InvalidRequestError")


def exc_name(e):
    n = type(e).__name__
    return n if n in _NAMED else "Other:" + n

NITEMS = 8
_ENV = None


def env():
    """mapped classes with list / set / attribute-keyed-dict relationships and listeners"""
    global _ENV
    if _ENV is not None:
        return _ENV
    from sqlalchemy import Column, ForeignKey, Integer, String, event
    from sqlalchemy.orm import attribute_keyed_dict, declarative_base, relationship

    Base = declarative_base()

    class Child(Base):
        __tablename__ = "c38_child"
        id = Column(Integer, primary_key=True)
        lid = Column(ForeignKey("c38_plist.id"))
        sid = Column(ForeignKey("c38_pset.id"))
        did = Column(ForeignKey("c38_pdict.id"))
        name = Column(String)

        def __repr__(self):
            return "c%s" % self.name

        # deterministic hash (identity equality is kept): set iteration order, hence set.pop()
        # and event order, then depend only on the operation history, not on object addresses
        def __hash__(self):
            return self.__dict__.get("_c38_hash", 0)

        __eq__ = object.__eq__

    class PList(Base):
        __tablename__ = "c38_plist"
        id = Column(Integer, primary_key=True)
        coll = relationship(Child, collection_class=list, backref="lparent")

    class PSet(Base):
        __tablename__ = "c38_pset"
        id = Column(Integer, primary_key=True)
        coll = relationship(Child, collection_class=set, backref="sparent")

    class PDict(Base):
        __tablename__ = "c38_pdict"
        id = Column(Integer, primary_key=True)
        coll = relationship(Child, collection_class=attribute_keyed_dict("name"), backref="dparent")

    log = []
    for cls in (PList, PSet, PDict):
        event.listen(cls.coll, "append", lambda t, v, i: log.append(("A", v)))
        event.listen(cls.coll, "remove", lambda t, v, i: log.append(("R", v)))
    _ENV = dict(Child=Child, PList=PList, PSet=PSet, PDict=PDict, log=log)
    return _ENV


def new_items():
    E = env()
    items = [E["Child"](name=str(i)) for i in range(NITEMS)]
    for i, it in enumerate(items):
        it.__dict__["_c38_hash"] = (i * 5 + 3) % 16  # collides modulo the small set table sizes
    return items, {id(o): i for i, o in enumerate(items)}


def idx_of(idx, o):
    if o is None:
        return "None"
    return idx.get(id(o), "?")


def ev_tok(idx, log):
    return ".".join("%s%s" % (k, idx_of(idx, v)) for k, v in log)


def opt(x):
    return "N" if x is None else str(x)


# ====================================================================== list
def val_token(v):
    k = v[0]
    if k == "list" or k == "tuple":
        return "L" + dots(v[1])
    if k == "gen":
        return "G" + dots(v[1])
    if k == "self":
        return "S"
    return "X"


def build_val(v, items, me):
    k = v[0]
    if k == "list":
        return [items[i] for i in v[1]]
    if k == "tuple":
        return tuple(items[i] for i in v[1])
    if k == "gen":
        return (items[i] for i in v[1])
    if k == "self":
        return me
    return 5


def list_op_token(op):
    n = op[0]
    if n in ("append", "remove"):
        return "%s:%d" % (n, op[1])
    if n in ("insert", "set"):
        return "%s:%d:%d" % (n, op[1], op[2])
    if n in ("del", "pop", "imul"):
        return "%s:%d" % (n, op[1])
    if n in ("clear", "reverse"):
        return n
    if n in ("extend", "iadd"):
        return "extend:" + val_token(op[1])
    if n == "setslice":
        return "setslice:%s:%s:%s:%s" % (opt(op[1]), opt(op[2]), opt(op[3]), val_token(op[4]))
    if n == "delslice":
        return "delslice:%s:%s:%s" % (opt(op[1]), opt(op[2]), opt(op[3]))
    raise ValueError(n)


def apply_list_op(target, op, items, plain):
    """run op on `target` (instrumented or plain list); returns ret token"""
    n = op[0]
    if n == "append":
        r = target.append(items[op[1]])
    elif n == "remove":
        r = target.remove(items[op[1]])
    elif n == "insert":
        r = target.insert(op[1], items[op[2]])
    elif n == "set":
        target[op[1]] = items[op[2]]
        r = None
    elif n == "del":
        del target[op[1]]
        r = None
    elif n == "pop":
        if op[1] == -1 and len(op) > 2 and op[2] == "noarg":
            return target.pop()
        return target.pop(op[1])
    elif n == "clear":
        r = target.clear()
    elif n == "reverse":
        r = target.reverse()
    elif n == "extend":
        r = target.extend(build_val(op[1], items, target))
    elif n == "iadd":
        t = target
        t += build_val(op[1], items, target)
        if t is not target:
            raise AssertionError("+= returned another object")
        r = None
    elif n == "imul":
        t = target
        t *= op[1]
        if t is not target:
            raise AssertionError("*= returned another object")
        r = None
    elif n == "setslice":
        target[slice(op[1], op[2], op[3])] = build_val(op[4], items, target)
        r = None
    elif n == "delslice":
        del target[slice(op[1], op[2], op[3])]
        r = None
    else:
        raise ValueError(n)
    if r is not None:
        raise AssertionError("returned %r instead of None" % (r,))
    return None


def has_dups(objs):
    ids = [id(o) for o in objs]
    return len(set(ids)) != len(ids)


def multi_event(log):
    """some item was the subject of more than one event in this operation (moved between
    positions / keys): the scalar side then reflects the LAST event, not membership"""
    ids = [id(v) for _, v in log]
    return len(set(ids)) != len(ids)


def owner_state_ok(parent, coll, items, members, backref):
    """the attribute still hands out this very collection, and every item's many-to-one side
    points at the parent exactly when the item is a member.  Returns None or a description."""
    if parent.coll is not coll:
        return "parent attribute returns a different collection object"
    mids = {id(o) for o in members}
    for i, it in enumerate(items):
        has = getattr(it, backref) is parent
        if has != (id(it) in mids):
            return "item %d: %s is %s but membership is %s" % (i, backref, "parent" if has else "not parent", id(it) in mids)
    return None


def accounting_ok(old, new, log):
    """old + appended - removed == new as multisets of object identities, never negative"""
    c = collections.Counter(id(o) for o in old)
    for k, v in log:
        if k == "A":
            c[id(v)] += 1
        else:
            c[id(v)] -= 1
            if c[id(v)] < 0:
                return False
    c2 = collections.Counter(id(o) for o in new)
    return +c == +c2


def classify_list(op, old, what, info):
    n = op[0]
    if n == "remove" and what == "events" and info.get("both_raised") == "ValueError":
        return "instrumented-list-remove-absent-fires-remove-event"
    if n == "setslice" and op[4][0] == "self":
        if op[3] in (None, 1):
            return "instrumented-list-setslice-self"
        return "instrumented-list-extended-slice-value-is-self"
    if n == "setslice" and op[4][0] == "nonIter" and info.get("impl_exc") == "TypeError" and info.get("plain_exc") == "TypeError":
        return "instrumented-list-setslice-noniterable-partial-mutation"
    if n == "setslice" and op[4][0] == "gen" and info.get("impl_exc") == "TypeError" and op[3] not in (None, 1):
        return "instrumented-list-extended-slice-iterator-typeerror"
    if n == "imul" and what == "events":
        return "instrumented-list-imul-fires-no-events"
    return "instrumented-list-%s-%s" % (n, what)


def run_list_sequence(init, ops):
    """returns (impl trace tokens, request tokens, [(key, detail, k)...] failures)"""
    E = env()
    items, idx = new_items()
    p = E["PList"]()
    coll = p.coll
    coll.extend(items[i] for i in init)
    log = E["log"]
    del log[:]
    trace, req, fails = [], [], []
    tainted = has_dups(coll)  # duplicates make the scalar side of the backref ambiguous
    for k, op in enumerate(ops):
        req.append(list_op_token(op))
        old = list(coll)
        plain = list(old)
        del log[:]
        ret = exc = None
        try:
            with watchdog():
                ret = apply_list_op(coll, op, items, plain)
        except Exception as e:  # noqa: BLE001
            exc = exc_name(e)
        evs = list(log)
        pret = pexc = None
        try:
            pret = apply_list_op(plain, op, items, plain)
        except Exception as e:  # noqa: BLE001
            pexc = exc_name(e)
        new = list(coll)
        rtok = ("E:" + exc) if exc else ("-" if ret is None else "v%s" % idx_of(idx, ret))
        trace.append("%s@%s@%s" % (rtok, dots([idx_of(idx, o) for o in new]), ev_tok(idx, evs)))
        info = {"impl_exc": exc, "plain_exc": pexc, "both_raised": exc if exc == pexc else None}
        what = None
        if exc == "Other:Hang":
            what = "does-not-terminate"
        elif exc != pexc:
            what = "exception"
        elif [id(o) for o in new] != [id(o) for o in plain]:
            what = "contents"
        elif ret is not pret:
            what = "return"
        elif not accounting_ok(old, new, evs):
            what = "events"
        tainted = tainted or has_dups(new) or what is not None or multi_event(evs)
        if what is None and not tainted:
            why = owner_state_ok(p, coll, items, new, "lparent")
            if why:
                what = "owner-state"
                pexc = (pexc or "") + " | " + why
        if what:
            detail = "old=%s op=%s -> instrumented %s %s events %s ; list %s %s" % (
                [idx_of(idx, o) for o in old], list_op_token(op), rtok, [idx_of(idx, o) for o in new], ev_tok(idx, evs),
                ("E:" + pexc) if pexc else "ok", [idx_of(idx, o) for o in plain])
            fails.append((classify_list(op, old, what, info), detail, k))
            if what == "does-not-terminate":
                break
    return trace, req, fails


def run_plain_list(init, ops):
    """CPython list on the same ops (for the plain-model correspondence)"""
    items = list(range(NITEMS))
    l = [items[i] for i in init]
    out = []
    for op in ops:
        try:
            r = apply_list_op(l, op, items, l)
            tok = "-" if r is None else "v%d" % r
        except Exception as e:  # noqa: BLE001
            tok = "E:" + exc_name(e)
        out.append("%s@%s" % (tok, dots(l)))
    return out


IDX_VALUES = [None, -7, -6, -5, -3, -2, -1, 0, 1, 2, 3, 4, 5, 6, 7]
STEP_VALUES = [None, None, 1, 1, -1, -1, 2, -2, 3, -3, 0]


def gen_val(rng, allow_special=True):
    w = rng.random()
    if allow_special and w < 0.06:
        return ["self"]
    if allow_special and w < 0.10:
        return ["nonIter"]
    n = rng.choice([0, 1, 1, 2, 2, 3, 4])
    el = [rng.randrange(NITEMS) for _ in range(n)]
    return [rng.choice(["list", "list", "list", "tuple", "gen"]), el]


def gen_list_op(rng, n):
    w = rng.random()
    x = rng.randrange(NITEMS)
    i = rng.choice([0, 1, 2, -1, -2, n, n - 1, -n, -n - 1, 7, -9]) if n else rng.choice([0, -1, 1])
    if w < 0.10:
        return ["append", x]
    if w < 0.18:
        return ["remove", x]
    if w < 0.26:
        return ["insert", i, x]
    if w < 0.34:
        return ["set", i, x]
    if w < 0.41:
        return ["del", i]
    if w < 0.48:
        j = rng.choice([-1, -1, i])
        return ["pop", j] + (["noarg"] if j == -1 and rng.random() < 0.5 else [])
    if w < 0.50:
        return ["clear"]
    if w < 0.52:
        return ["reverse"]
    if w < 0.57:
        return [rng.choice(["extend", "iadd"]), gen_val(rng)]
    if w < 0.59:
        return ["imul", rng.choice([0, 1, 2, -1])]
    a, b, c = rng.choice(IDX_VALUES), rng.choice(IDX_VALUES), rng.choice(STEP_VALUES)
    if w < 0.61:
        return ["setslice", None, None, rng.choice([-1, -1, 2, -2]), ["self"]]
    if w < 0.87:
        v = gen_val(rng)
        if c not in (None, 1) and v[0] in ("list", "tuple") and rng.random() < 0.75:
            # make the size fit most of the time so that extended assignment really happens
            m = len(range(*slice(a, b, c).indices(n))) if c != 0 else 0
            v = [v[0], [rng.randrange(NITEMS) for _ in range(m)]]
        return ["setslice", a, b, c, v]
    return ["delslice", a, b, c]


def gen_list_sequence(rng, maxlen=8):
    n0 = rng.choice([0, 1, 2, 3, 4, 5, 5, 6])
    init = [rng.randrange(NITEMS) for _ in range(n0)]
    if rng.random() < 0.6:
        init = list(dict.fromkeys(init))
    ops = []
    n = len(init)
    for _ in range(rng.randint(1, maxlen)):
        ops.append(gen_list_op(rng, n))
    return init, ops


def exhaustive_slices(maxlen=4, idxs=(None, -6, -5, -2, -1, 0, 1, 2, 4, 5, 6), steps=(None, -2, -1, 1, 2, 0), maxval=3):
    """every slice assignment / deletion on lists [0..n) with fresh values n.."""
    for n in range(maxlen + 1):
        init = list(range(n))
        for a in idxs:
            for b in idxs:
                for c in steps:
                    yield init, [["delslice", a, b, c]]
                    for m in range(maxval + 1):
                        yield init, [["setslice", a, b, c, ["list", [(n + j) % NITEMS for j in range(m)]]]]


# ====================================================================== set
def set_val_token(v):
    k = v[0]
    if k in ("set", "frozenset", "iset", "list"):
        return "L" + dots(v[1])
    if k == "gen":
        return "G" + dots(v[1])
    if k == "self":
        return "S"
    return "X"


def build_set_val(v, items, me, iset_factory):
    k = v[0]
    objs = [items[i] for i in v[1]] if len(v) > 1 else []
    if k == "set":
        return set(objs)
    if k == "frozenset":
        return frozenset(objs)
    if k == "iset":
        return iset_factory(objs)
    if k == "list":
        return list(objs)
    if k == "gen":
        return (o for o in objs)
    if k == "self":
        return me
    return 5


SET_METHODS = {"update": "update", "diffu": "difference_update", "interu": "intersection_update", "symdiffu": "symmetric_difference_update"}
SET_OPS = {"ior": "|=", "isub": "-=", "iand": "&=", "ixor": "^="}


def set_op_token(op, popped=None):
    n = op[0]
    if n in ("add", "discard", "remove"):
        return "%s:%d" % (n, op[1])
    if n == "pop":
        return "pop:%s" % ("E" if popped is None else popped)
    if n == "clear":
        return "clear"
    if n in SET_METHODS:
        return "%s:%s" % (n, set_val_token(op[1]))
    if n in SET_OPS:
        strict = op[1][0] in ("set", "frozenset", "iset", "self")
        return "%s:%d:%s" % (n, 1 if strict else 0, set_val_token(op[1]))
    raise ValueError(n)


def apply_set_op(target, op, items, iset_factory, force_pop=None):
    n = op[0]
    if n in ("add", "discard", "remove"):
        r = getattr(target, n)(items[op[1]])
    elif n == "pop":
        if force_pop is not None:
            # plain twin: remove the member the instrumented set popped
            target.remove(force_pop)
            return force_pop
        return target.pop()
    elif n == "clear":
        r = target.clear()
    elif n in SET_METHODS:
        r = getattr(target, SET_METHODS[n])(build_set_val(op[1], items, target, iset_factory))
    elif n in SET_OPS:
        v = build_set_val(op[1], items, target, iset_factory)
        t = target
        if n == "ior":
            t |= v
        elif n == "isub":
            t -= v
        elif n == "iand":
            t &= v
        else:
            t ^= v
        if t is not target:
            raise AssertionError("in-place operator returned another object")
        r = None
    elif n == "update2":
        r = target.update([items[op[1]]], [items[op[2]]])
    elif n == "update0":
        r = target.update()
    else:
        raise ValueError(n)
    if r is not None:
        raise AssertionError("returned %r instead of None" % (r,))
    return None


def classify_set(op, what, info):
    n = op[0]
    if n in ("update2", "update0") and info.get("impl_exc") == "TypeError":
        return "instrumented-set-update-not-variadic"
    if n in ("diffu", "isub") and op[1][0] == "self" and info.get("impl_exc") == "RuntimeError":
        return "instrumented-set-isub-self"
    return "instrumented-set-%s-%s" % (n, what)


def run_set_sequence(init, ops):
    E = env()
    items, idx = new_items()
    p = E["PSet"]()
    coll = p.coll
    coll.update(items[i] for i in init)
    iset_cls = type(coll)

    def iset_factory(objs):
        # another instrumented set of the same class (not attached to a parent)
        s = iset_cls()
        set.update(s, objs)
        return s

    log = E["log"]
    del log[:]
    trace, req, fails = [], [], []
    for k, op in enumerate(ops):
        old = set(coll)
        plain = set(old)
        del log[:]
        ret = exc = None
        try:
            with watchdog():
                ret = apply_set_op(coll, op, items, iset_factory)
        except Exception as e:  # noqa: BLE001
            exc = exc_name(e)
        evs = list(log)
        pret = pexc = None
        try:
            pret = apply_set_op(plain, op, items, iset_factory, force_pop=ret if op[0] == "pop" and exc is None else None)
        except Exception as e:  # noqa: BLE001
            pexc = exc_name(e)
        new = set(coll)
        modelled = op[0] not in ("update2", "update0")
        if modelled:
            req.append(set_op_token(op, popped=(idx_of(idx, ret) if (op[0] == "pop" and exc is None) else None)))
            rtok = ("E:" + exc) if exc else ("-" if ret is None else "v%s" % idx_of(idx, ret))
            rs = sorted(idx_of(idx, v) for kk, v in evs if kk == "R")
            as_ = sorted(idx_of(idx, v) for kk, v in evs if kk == "A")
            trace.append("%s@%s@%s" % (rtok, dots(sorted(idx_of(idx, o) for o in new)), ".".join(["R%s" % x for x in rs] + ["A%s" % x for x in as_])))
        info = {"impl_exc": exc, "plain_exc": pexc}
        what = None
        if exc == "Other:Hang":
            what = "does-not-terminate"
        elif exc != pexc:
            what = "exception"
        elif {id(o) for o in new} != {id(o) for o in plain}:
            what = "contents"
        elif ret is not pret:
            what = "return"
        elif not accounting_ok(old, new, evs) or len(evs) != len(old ^ new):
            what = "events"
        if what is None:
            why = owner_state_ok(p, coll, items, new, "sparent")
            if why:
                what = "owner-state"
                pexc = (pexc or "") + " | " + why
        if what:
            detail = "old=%s op=%s -> instrumented %s %s events %s ; set %s %s" % (
                sorted(idx_of(idx, o) for o in old), op, ("E:" + exc) if exc else "ok", sorted(idx_of(idx, o) for o in new),
                ev_tok(idx, evs), ("E:" + pexc) if pexc else "ok", sorted(idx_of(idx, o) for o in plain))
            fails.append((classify_set(op, what, info), detail, k))
        if not modelled or what == "does-not-terminate":
            break
    return trace, req, fails


def gen_set_val(rng):
    w = rng.random()
    if w < 0.08:
        return ["self"]
    if w < 0.12:
        return ["nonIter"]
    n = rng.choice([0, 1, 2, 2, 3, 4])
    el = [rng.randrange(NITEMS) for _ in range(n)]
    k = rng.choice(["set", "set", "frozenset", "iset", "list", "list", "gen"])
    return [k, el]


def gen_set_sequence(rng, maxlen=8):
    init = list(dict.fromkeys(rng.randrange(NITEMS) for _ in range(rng.choice([0, 1, 2, 3, 4, 5]))))
    ops = []
    for _ in range(rng.randint(1, maxlen)):
        w = rng.random()
        x = rng.randrange(NITEMS)
        if w < 0.12:
            ops.append(["add", x])
        elif w < 0.22:
            ops.append(["discard", x])
        elif w < 0.32:
            ops.append(["remove", x])
        elif w < 0.40:
            ops.append(["pop"])
        elif w < 0.43:
            ops.append(["clear"])
        elif w < 0.45:
            ops.append(rng.choice([["update2", x, rng.randrange(NITEMS)], ["update0"]]))
        elif w < 0.75:
            ops.append([rng.choice(list(SET_METHODS)), gen_set_val(rng)])
        else:
            ops.append([rng.choice(list(SET_OPS)), gen_set_val(rng)])
    return init, ops


def run_plain_set(init, req_tokens):
    """CPython set driven by the request tokens (L/G/S/X values, observed pops)"""
    s = set(init)
    out = []
    for tok in req_tokens:
        parts = tok.split(":")
        n = parts[0]

        def val(t):
            if t == "S":
                return s
            if t == "X":
                return 5
            body = t[1:]
            el = [int(x) for x in body.split(".")] if body else []
            return (x for x in el) if t[0] == "G" else list(el)

        try:
            if n == "add":
                s.add(int(parts[1]))
            elif n == "discard":
                s.discard(int(parts[1]))
            elif n == "remove":
                s.remove(int(parts[1]))
            elif n == "pop":
                if parts[1] == "E":
                    raise KeyError()
                s.remove(int(parts[1]))
            elif n == "clear":
                s.clear()
            elif n in SET_METHODS:
                getattr(s, SET_METHODS[n])(val(parts[1]))
            else:
                if parts[1] == "0":
                    raise TypeError()
                v = val(parts[2])
                v = v if v is s else set(v)
                if n == "ior":
                    s |= v
                elif n == "isub":
                    s -= v
                elif n == "iand":
                    s &= v
                else:
                    s ^= v
            out.append("ok@" + dots(sorted(s)))
        except Exception:  # noqa: BLE001
            out.append("raise@" + dots(sorted(s)))
    return out


# ====================================================================== dict (KeyFuncDict)
NKEYS = NITEMS + 3  # keys 0..7 are the items' own keys, 8..10 are foreign keys


def dict_tok(d, idx):
    return ",".join("%s=%s" % (k, idx_of(idx, v)) for k, v in d.items())


def pairs_tok(pairs):
    return ",".join("%d=%d" % (k, v) for k, v in pairs) if pairs else "-"


def dict_op_token(op):
    n = op[0]
    if n in ("set", "setdefault"):
        return "%s:%d:%d" % (n, op[1], op[2])
    if n == "del":
        return "del:%d" % op[1]
    if n == "pop":
        if op[2] == 2:
            return "pop:%d:i:%d" % (op[1], op[3])
        return "pop:%d:%d" % (op[1], op[2])
    if n in ("clear", "popitem"):
        return n
    if n in ("update", "ior"):
        return "%s:%s" % (n, pairs_tok(op[2]))
    if n in ("kset", "kremove"):
        return "%s:%d" % (n, op[1])
    raise ValueError(n)


def apply_dict_op(target, op, items, is_plain):
    n = op[0]
    K = str  # keys are the decimal strings of the key numbers (item i has name str(i))
    if n == "set":
        target[K(op[1])] = items[op[2]]
        return None
    if n == "del":
        del target[K(op[1])]
        return None
    if n == "clear":
        return target.clear()
    if n == "pop":
        if op[2] == 2:
            return target.pop(K(op[1]), items[op[3]])  # an item (possibly the stored one) as default
        return target.pop(K(op[1]), None) if op[2] else target.pop(K(op[1]))
    if n == "popitem":
        return target.popitem()
    if n == "setdefault":
        if len(op) > 3 and op[3] == "nodefault" and K(op[1]) in target:
            return target.setdefault(K(op[1]))  # default omitted: only legal here when the key exists
        return target.setdefault(K(op[1]), items[op[2]])
    if n in ("update", "ior") and op[1] == "self":
        if n == "update":
            return target.update(target)
        t = target
        t |= target
        if t is not target:
            raise AssertionError("|= returned another object")
        return None
    if n == "update":
        form, pairs = op[1], [(K(k), items[v]) for k, v in op[2]]
        if form == "mapping":
            return target.update(dict(pairs))
        if form == "pairs":
            return target.update(pairs)
        if form == "kwargs":
            return target.update(**dict(pairs))
        if form in ("mapping+kwargs", "pairs+kwargs"):
            # positional argument AND keyword arguments in one call (disjoint keys): positional first
            h = (len(pairs) + 1) // 2
            pos = dict(pairs[:h]) if form == "mapping+kwargs" else list(pairs[:h])
            return target.update(pos, **dict(pairs[h:]))
        raise ValueError(form)
    if n == "ior":
        t = target
        if op[1] == "pairs":
            t |= [(K(k), items[v]) for k, v in op[2]]  # dict.__ior__ also accepts an iterable of pairs
        else:
            t |= dict((K(k), items[v]) for k, v in op[2])
        if t is not target:
            raise AssertionError("|= returned another object")
        return None
    if n == "kset":
        if is_plain:
            target[K(op[1])] = items[op[1]]
            return None
        return target.set(items[op[1]])
    if n == "kremove":
        if is_plain:
            v = items[op[1]]
            if target[K(op[1])] is not v:
                raise LookupError("holds another value")
            del target[K(op[1])]
            return None
        return target.remove(items[op[1]])
    raise ValueError(n)


def resolve_dict_op(op, coll, idx, rng_pick):
    """`other object` arguments are drawn at execution time from {the value stored under that key,
    some member of the collection, a fresh object}: ["pop", k, "same"|"member"|"fresh"] becomes
    ["pop", k, 2, item]; ["setdefault", k, "same"|"member"] becomes ["setdefault", k, item]"""
    n = op[0]
    if n in ("update", "ior") and op[1] == "self":
        # the collection passed to itself: the model sees its current items
        return [n, "self", [[int(k), idx[id(v)]] for k, v in coll.items() if id(v) in idx]]
    if n in ("pop", "setdefault") and isinstance(op[2], str):
        mode = op[2]
        key = str(op[1])
        members = [idx[id(v)] for v in coll.values() if id(v) in idx]
        x = None
        if mode == "same" and key in coll and id(coll[key]) in idx:
            x = idx[id(coll[key])]
        elif mode in ("same", "member") and members:
            x = members[rng_pick % len(members)]
        if x is None:
            free = [i for i in range(NITEMS) if i not in members]
            x = free[rng_pick % len(free)] if free else rng_pick % NITEMS
        return ["pop", op[1], 2, x] if n == "pop" else ["setdefault", op[1], x]
    return op


def classify_dict(op, what, info):
    n = op[0]
    if n == "ior" and what == "events":
        return "instrumented-dict-ior-no-events"
    if n == "pop" and op[2] == 2 and what in ("events", "owner-state"):
        return "instrumented-dict-pop-default-is-stored-value-no-remove-event"
    return "instrumented-dict-%s-%s" % (n, what)


def run_dict_sequence(init, ops):
    """init = [(key, item)...]"""
    return run_dict_sequence_full(init, ops)[:3]


def run_dict_sequence_full(init, ops):
    """as run_dict_sequence, plus the operation list with execution-time arguments resolved"""
    E = env()
    items, idx = new_items()
    p = E["PDict"]()
    coll = p.coll
    for k, v in init:
        coll[str(k)] = items[v]
    log = E["log"]
    del log[:]
    trace, req, fails = [], [], []
    tainted = has_dups(coll.values())
    ops = list(ops)
    for kk in range(len(ops)):
        op = ops[kk] = resolve_dict_op(ops[kk], coll, idx, kk * 7 + len(coll))
        req.append(dict_op_token(op))
        old = dict(coll)
        plain = dict(old)
        del log[:]
        ret = exc = None
        try:
            with watchdog():
                ret = apply_dict_op(coll, op, items, False)
        except Exception as e:  # noqa: BLE001
            exc = exc_name(e)
        evs = list(log)
        pret = pexc = None
        try:
            pret = apply_dict_op(plain, op, items, True)
        except Exception as e:  # noqa: BLE001
            pexc = exc_name(e)
        new = dict(coll)
        if op[0] == "popitem" and exc is None:
            rtok = "v%s" % idx_of(idx, ret[1])
        else:
            rtok = ("E:" + exc) if exc else ("-" if ret is None else "v%s" % idx_of(idx, ret))
        trace.append("%s@%s@%s" % (rtok, dict_tok(new, idx), ev_tok(idx, evs)))
        info = {"impl_exc": exc, "plain_exc": pexc}
        what = None
        same_exc = (exc == pexc) or (op[0] == "kremove" and exc is not None and pexc is not None)
        if exc == "Other:Hang":
            what = "does-not-terminate"
        elif not same_exc:
            what = "exception"
        elif [(k, id(v)) for k, v in new.items()] != [(k, id(v)) for k, v in plain.items()]:
            what = "contents"
        elif (ret is not pret) and not (op[0] == "popitem" and ret == pret):
            what = "return"
        elif not accounting_ok(list(old.values()), list(new.values()), evs):
            what = "events"
        tainted = tainted or has_dups(new.values()) or what is not None or multi_event(evs)
        if what is None and not tainted:
            why = owner_state_ok(p, coll, items, list(new.values()), "dparent")
            if why:
                what = "owner-state"
                pexc = (pexc or "") + " | " + why
        if what:
            detail = "old=%s op=%s -> instrumented %s %s events %s ; dict %s %s" % (
                dict_tok(old, idx), dict_op_token(op), rtok, dict_tok(new, idx), ev_tok(idx, evs),
                ("E:" + pexc) if pexc else "ok", dict_tok(plain, idx))
            fails.append((classify_dict(op, what, info), detail, kk))
            if what == "does-not-terminate":
                break
    return trace, req, fails, ops


def run_plain_dict(init, ops):
    items = list(range(NITEMS))
    d = {str(k): v for k, v in init}
    out = []
    for op in ops:
        try:
            apply_dict_op(d, op, items, True)
            out.append("ok@" + ",".join("%s=%s" % kv for kv in d.items()))
        except Exception:  # noqa: BLE001
            out.append("raise@" + ",".join("%s=%s" % kv for kv in d.items()))
    return out


def gen_dict_sequence(rng, maxlen=8):
    n0 = rng.choice([0, 1, 2, 3, 4])
    keys = rng.sample(range(NKEYS), n0)
    init = [(k, (k if k < NITEMS and rng.random() < 0.7 else rng.randrange(NITEMS))) for k in keys]
    ops = []
    for _ in range(rng.randint(1, maxlen)):
        w = rng.random()
        k = rng.randrange(NKEYS)
        v = rng.randrange(NITEMS)
        if w < 0.2:
            ops.append(["set", k, v])
        elif w < 0.3:
            ops.append(["del", k])
        elif w < 0.33:
            ops.append(["clear"])
        elif w < 0.43:
            ops.append(["pop", k, rng.choice([0, 1, 1, "same", "same", "member", "fresh"])])
        elif w < 0.50:
            ops.append(["popitem"])
        elif w < 0.60:
            if rng.random() < 0.35:
                ops.append(["setdefault", k, rng.choice(["same", "member"])])
            else:
                ops.append(["setdefault", k, v] + (["nodefault"] if rng.random() < 0.3 else []))
        elif w < 0.62:
            ops.append([rng.choice(["update", "ior"]), "self", []])
        elif w < 0.78:
            ks = rng.sample(range(NKEYS), rng.choice([0, 1, 2, 3]))
            ops.append(["update", rng.choice(["mapping", "pairs", "kwargs", "mapping+kwargs", "pairs+kwargs"]), [[kk, rng.randrange(NITEMS)] for kk in ks]])
        elif w < 0.84:
            ks = rng.sample(range(NKEYS), rng.choice([0, 1, 2]))
            ops.append(["ior", rng.choice(["mapping", "mapping", "pairs"]), [[kk, rng.randrange(NITEMS)] for kk in ks]])
        elif w < 0.92:
            ops.append(["kset", v])
        else:
            ops.append(["kremove", v])
    return init, ops


# ====================================================================== whole-collection assignment
def run_bulk_replace(kind, old_idx, new_idx):
    """`parent.coll = <new plain collection>` (orm.collections.bulk_replace): afterwards the
    attribute holds an instrumented collection with exactly the new members (list: in the given
    order), one append event per member that was not there, one remove event per member that
    is gone, none for members that stay, and the backref side follows membership.
    old_idx / new_idx are duplicate-free item index lists.  Returns (key, detail) or None."""
    E = env()
    items, idx = new_items()
    cls, backref = {"list": ("PList", "lparent"), "set": ("PSet", "sparent"), "dict": ("PDict", "dparent")}[kind]
    p = E[cls]()
    log = E["log"]
    if kind == "list":
        p.coll.extend(items[i] for i in old_idx)
        newval = [items[i] for i in new_idx]
    elif kind == "set":
        p.coll.update(items[i] for i in old_idx)
        newval = {items[i] for i in new_idx}
    else:
        for i in old_idx:
            p.coll.set(items[i])
        newval = {str(i): items[i] for i in new_idx}
    old_coll = p.coll
    del log[:]
    try:
        with watchdog():
            p.coll = newval
    except Exception as e:  # noqa: BLE001
        return ("instrumented-%s-assign-exception" % kind, "old %s new %s raised %r" % (old_idx, new_idx, e))
    evs = list(log)
    got = p.coll
    members = list(got.values()) if kind == "dict" else list(got)
    mem_idx = [idx_of(idx, o) for o in members]
    desc = "old %s new %s -> members %s events %s" % (old_idx, new_idx, mem_idx, ev_tok(idx, evs))
    if got is newval or got is old_coll or not hasattr(got, "_sa_adapter"):
        return ("instrumented-%s-assign-not-instrumented" % kind, desc)
    if (kind == "list" and mem_idx != list(new_idx)) or sorted(mem_idx) != sorted(new_idx):
        return ("instrumented-%s-assign-contents" % kind, desc)
    if kind == "dict" and {k: idx_of(idx, v) for k, v in got.items()} != {str(i): i for i in new_idx}:
        return ("instrumented-%s-assign-contents" % kind, desc)
    apps_ = sorted(idx_of(idx, v) for k, v in evs if k == "A")
    rems_ = sorted(idx_of(idx, v) for k, v in evs if k == "R")
    exp_rems = sorted(set(old_idx) - set(new_idx))
    if apps_ != sorted(set(new_idx) - set(old_idx)) or rems_ != exp_rems:
        if kind == "list" and apps_ == sorted(set(new_idx) - set(old_idx)) and rems_ == sorted(exp_rems * 2):
            # same root cause as instrumented-list-remove-absent-fires-remove-event (G1), reached through
            # the backref: CollectionAttributeImpl.pop -> InstrumentedList.remove on the new collection
            return ("instrumented-list-assign-remove-event-twice-with-backref", desc)
        return ("instrumented-%s-assign-events" % kind, desc)
    why = owner_state_ok(p, got, items, members, backref)
    if why:
        return ("instrumented-%s-assign-owner-state" % kind, desc + " | " + why)
    return None
