"""Direct oracle for C35 (object lifecycle states and events) on records produced by
lib_uow.Env.apply.  States the documented behaviour, independent of the Lean model:

 A  every instance is in exactly one of the five states (inspect() flags)
 B  the lifecycle events recorded for an instance during an operation form a chain
    from its state before the operation to its state after it (each event
    ``x_to_y`` leaves x and enters y; no event without a transition, no transition
    without its event); make_transient / make_transient_to_detached are the only
    silent moves
 C  each operation moves instances only along its documented transitions, and
    commit / rollback / close leave nothing behind that they document to clear
 D  session collections agree with the states (state.py / session.py docstrings):
    persistent <=> in identity_map under its key, deleted => not in identity_map,
    session.new = pending instances, session.deleted ⊆ persistent, every
    identity-map entry is an instance attached to this session carrying that key
 E  Session.rollback() never raises

`check_case` returns the first failing (op index, check, signature, detail) or None.
`classify` maps a failure to a finding key; the keys of genuine defects of the
unchanged tree are listed in known_findings.d/C35.json.
"""
from harness.lib_uow import LETTER, FLAGS, state_letter

EDGE = {
    "transient_to_pending": ("T", "P"),
    "pending_to_transient": ("P", "T"),
    "persistent_to_transient": ("S", "T"),
    "pending_to_persistent": ("P", "S"),
    "detached_to_persistent": ("X", "S"),
    "loaded_as_persistent": (None, "S"),
    "persistent_to_deleted": ("S", "D"),
    "deleted_to_persistent": ("D", "S"),
    "deleted_to_detached": ("D", "X"),
    "persistent_to_detached": ("S", "X"),
}
SHORT = {k: (v[0] or "L") + "2" + v[1] for k, v in EDGE.items()}
NAME = {"T": "transient", "P": "pending", "S": "persistent", "D": "deleted", "X": "detached"}

FLUSH = {("P", "S"), ("S", "D")}
ROLL = {("P", "T"), ("S", "T"), ("D", "S")}
LOAD = {(None, "S")}
ALLOWED = {
    "new": set(),
    "add": {("T", "P"), ("X", "S")},
    "delete": {("X", "S")},
    "expunge": {("P", "T"), ("S", "X"), ("D", "X")},
    "expire": set(),
    "mt": {("P", "T"), ("S", "X"), ("D", "X")},  # expunge first, then the silent move to transient
    "mtd": {("T", "X")},
    "setpk": FLUSH | ROLL,  # unexpire of the old value may autoflush
    "merge": FLUSH | ROLL | LOAD | {("T", "P")},
    "get": FLUSH | ROLL | LOAD | {("S", "D")},
    "flush": FLUSH | ROLL,
    "query": FLUSH | ROLL | LOAD,
    "refresh": FLUSH | ROLL,
    "commit": FLUSH | ROLL | {("D", "X")},
    "rollback": ROLL,
    "nbegin": FLUSH | ROLL,
    "ncommit": FLUSH | ROLL,
    "nrollback": ROLL,
    "close": {("P", "T"), ("S", "X"), ("D", "X")},
    "expunge_all": {("P", "T"), ("S", "X"), ("D", "X")},
}


# operations grouped by what they are documented to do (keys of check C are per class)
OPCLASS = {
    "new": "none", "expire": "none", "mtd": "none",
    "add": "attach", "delete": "attach",
    "expunge": "detach", "close": "detach", "expunge_all": "detach", "mt": "detach",
    "flush": "flush", "nbegin": "flush", "ncommit": "flush", "setpk": "flush", "refresh": "flush",
    "get": "load", "merge": "load", "query": "load",
    "commit": "commit", "rollback": "rollback", "nrollback": "rollback",
}


def walk(prev, evs):
    """follow the chain; returns (ok, state reached, index of first bad event)"""
    cur = prev
    for n, e in enumerate(evs):
        src, dst = EDGE[e]
        if src is None:
            if cur is not None:
                return False, cur, n
        elif cur != src:
            return False, cur, n
        cur = dst
    return True, cur, None


def check_case(eoc, ops, recs):
    """first failure: dict(i=op index, check=..., sig=..., detail=...) or None"""
    prev = []  # state letters before the op
    prev_objs = []
    for j, (op, r) in enumerate(zip(ops, recs)):
        if r is None:
            return None
        kind = op[0]
        failed = r["res"].startswith("err:")
        objs = r["objs"]
        # A
        for i, o in enumerate(objs):
            if sum(o["flags"]) != 1:
                return dict(i=j, check="A", sig="flags=%s" % (o["flags"],), obj=i, detail="instance %d has flags %s" % (i, dict(zip(FLAGS, o["flags"]))))
        cur = [state_letter(o) for o in objs]
        # B + C per object
        for i, o in enumerate(objs):
            is_new = i >= len(prev)
            evs = [n for n, k in r["events"] if k == i]
            if is_new:
                # created by this operation: Item(...) / merge() copy are transient first,
                # a loaded instance has no previous state
                p = None if "loaded_as_persistent" in evs else "T"
            else:
                p = prev[i]
            okc, reached, badn = walk(p, evs)
            base = dict(i=j, obj=i, prev=p, cur=cur[i], evs=evs, failed=failed, kind=kind,
                        marked_before=(not is_new and j > 0 and i in recs[j - 1]["deleted"]),
                        was_deleted_before=(prev_objs[i]["was_deleted"] if not is_new else False))
            if not okc:
                e = evs[badn]
                return dict(base, check="B", sig="%s-fired-while-instance-was-not-%s" % (e, e.split("_to_")[0].split("_as_")[0]),
                            detail="instance %d was %s; during %s event %s fired while it was %s (events %s, now %s)"
                            % (i, p, ":".join(map(str, op)), e, reached, evs, cur[i]))
            silent_ok = False
            if reached != cur[i]:
                if kind == "mt" and cur[i] == "T" and op[1] == i:
                    silent_ok = True
                elif kind == "mtd" and reached == "T" and cur[i] == "X" and op[1] == i:
                    silent_ok = True
                if not silent_ok:
                    return dict(base, check="B", sig="instance-ends-%s-but-logged-events-end-in-%s" % (NAME[cur[i]], NAME.get(reached, "none")),
                                detail="instance %d was %s, events %s lead to %s, but it is %s after %s"
                                % (i, p, evs, reached, cur[i], ":".join(map(str, op))))
            for e in evs:
                if EDGE[e] not in ALLOWED[kind]:
                    return dict(base, check="C", sig="%s-outside-its-documented-operations" % e,
                                detail="instance %d: %s is not a documented transition of %s" % (i, e, kind))
        # C: what the operation documents to clear
        if not failed:
            left = None
            if kind == "commit":
                left = [i for i, o in enumerate(objs) if cur[i] == "D"]
                what = "deleted after commit"
            elif kind in ("close", "expunge_all"):
                left = [i for i, o in enumerate(objs) if cur[i] in "PSD"]
                what = "still attached after %s" % kind
            elif kind == "rollback":
                left = [i for i, o in enumerate(objs) if cur[i] in "PD"]
                what = "pending/deleted after rollback"
            if left:
                return dict(i=j, check="C2", sig="%s-leaves-%s" % (kind, "".join(sorted({cur[i] for i in left}))), obj=left[0],
                            eoc=eoc, detail="instances %s %s" % (left, what))
        # E
        if failed and kind == "rollback":
            return dict(i=j, check="E", sig="rollback-raised-" + r["res"][4:], detail="Session.rollback() raised " + r["res"][4:])
        # D
        imap = dict(r["imap"])
        by_obj = {}
        for k, i in r["imap"]:
            by_obj.setdefault(i, []).append(k)
        for k, i in r["imap"]:
            if i < 0 or i >= len(objs):
                return dict(i=j, check="D", sig="imap-unknown-instance", detail="identity map key %s -> unknown instance" % k)
            o = objs[i]
            if cur[i] != "S" or o["key"] != k:
                return dict(i=j, check="D", sig="imap-entry-%s%s" % (cur[i], "" if o["key"] == k else "-key-mismatch"), obj=i,
                            detail="identity_map[%s] is instance %d which is %s with key %s" % (k, i, cur[i], o["key"]))
        for i, o in enumerate(objs):
            if cur[i] == "S" and imap.get(o["key"]) != i:
                return dict(i=j, check="D", sig="persistent-not-in-imap", obj=i,
                            detail="instance %d is persistent with key %s but identity_map[%s] is %s" % (i, o["key"], o["key"], imap.get(o["key"])))
        pend = sorted(i for i in range(len(objs)) if cur[i] == "P")
        if pend != r["new"]:
            return dict(i=j, check="D", sig="new-vs-pending", detail="session.new %s, pending instances %s" % (r["new"], pend))
        for i in r["deleted"]:
            if cur[i] != "S":
                return dict(i=j, check="D", sig="session.deleted-has-" + cur[i], obj=i, detail="instance %d in session.deleted is %s" % (i, cur[i]))
        prev, prev_objs = cur, objs
    return None


# =============================================================================== C34
def _ret(res):
    """returned instance index of get/merge ('ok:3' / 'ok:N'), list for query"""
    body = res.split(":", 1)[1]
    if body.startswith("["):
        inner = body[1:-1]
        return [int(x) for x in inner.split(".")] if inner else []
    return None if body == "N" else int(body)


def check_case_c34(eoc, ops, recs):
    """Direct oracle for C34 (identity map): first failure or None.

    I1 no two persistent instances of the session share an identity key
    I2 identity_map[k] is a persistent instance with key k; every persistent instance is
       identity_map[its key]
    I3 Session.get(k): an instance that was present (persistent, in the map) and not
       expired is returned as is without emitting SQL; whatever is returned is the identity
       map's persistent instance for k; None only when no row with that key is visible
    I4 a query returns, for every row, exactly the identity map's instance for that row
       (one per row, in order)
    I5 merge returns the identity map's instance for the key (or a new pending one)
    I6 refresh leaves the instance persistent and not expired
    """
    prev = None
    for j, (op, r) in enumerate(zip(ops, recs)):
        if r is None:
            return None
        kind = op[0]
        failed = r["res"].startswith("err:")
        objs = r["objs"]
        cur = [state_letter(o) for o in objs]
        imap = dict(r["imap"])
        seen = {}
        for i, o in enumerate(objs):
            if cur[i] == "S":
                if o["key"] in seen:
                    return dict(i=j, check="I1", sig="two-persistent-instances-one-key", obj=i,
                                detail="instances %d and %d are both persistent with identity key %s" % (seen[o["key"]], i, o["key"]))
                seen[o["key"]] = i
        for k, i in r["imap"]:
            if i < 0 or i >= len(objs):
                return dict(i=j, check="I2", sig="imap-unknown-instance", detail="identity map key %s -> unknown instance" % k)
            if cur[i] != "S" or objs[i]["key"] != k:
                return dict(i=j, check="I2", sig="imap-entry-%s%s" % (cur[i], "" if objs[i]["key"] == k else "-key-mismatch"), obj=i,
                            detail="identity_map[%s] is instance %d which is %s with key %s" % (k, i, cur[i], objs[i]["key"]))
        for i, o in enumerate(objs):
            if cur[i] == "S" and imap.get(o["key"]) != i:
                return dict(i=j, check="I2", sig="persistent-not-in-imap", obj=i,
                            detail="instance %d is persistent with key %s but identity_map[%s] is %s" % (i, o["key"], o["key"], imap.get(o["key"])))
        if not failed and kind == "get":
            k = op[1]
            ret = _ret(r["res"])
            if prev is not None:
                pcur = [state_letter(o) for o in prev["objs"]]
                pres = [i for (kk, i) in prev["imap"] if kk == k and 0 <= i < len(pcur) and pcur[i] == "S" and not prev["objs"][i]["expired"]]
                if pres:
                    if ret != pres[0]:
                        return dict(i=j, check="I3", sig="get-present-returned-other", detail="get(%s): instance %d was present and unexpired, got %s" % (k, pres[0], ret))
                    if r["q"] > 0:
                        return dict(i=j, check="I3", sig="get-present-emitted-sql", detail="get(%s): instance %d was present and unexpired but %d statement(s) were emitted" % (k, pres[0], r["q"]))
            if ret is not None:
                if cur[ret] != "S" or objs[ret]["key"] != k or imap.get(k) != ret:
                    return dict(i=j, check="I3", sig="get-returned-%s" % cur[ret], obj=ret,
                                detail="get(%s) returned instance %d: state %s key %s, identity_map[%s]=%s" % (k, ret, cur[ret], objs[ret]["key"], k, imap.get(k)))
            elif k in r["db"]:
                return dict(i=j, check="I3", sig="get-none-but-row-visible", detail="get(%s) returned None but the row is visible in the transaction" % k)
        if not failed and kind == "query":
            ret = _ret(r["res"])
            keys = [objs[i]["key"] for i in ret]
            if keys != r["db"]:
                return dict(i=j, check="I4", sig="query-rows-vs-instances", detail="query returned instances with keys %s, rows visible %s" % (keys, r["db"]))
            for i in ret:
                if cur[i] != "S" or imap.get(objs[i]["key"]) != i:
                    return dict(i=j, check="I4", sig="query-returned-%s" % cur[i], obj=i,
                                detail="query returned instance %d (%s, key %s) but identity_map has %s" % (i, cur[i], objs[i]["key"], imap.get(objs[i]["key"])))
        if not failed and kind == "merge":
            ret = _ret(r["res"])
            if objs[ret]["key"] is not None:
                if imap.get(objs[ret]["key"]) != ret or cur[ret] != "S":
                    return dict(i=j, check="I5", sig="merge-returned-%s" % cur[ret], obj=ret,
                                detail="merge returned instance %d (%s, key %s), identity_map has %s" % (ret, cur[ret], objs[ret]["key"], imap.get(objs[ret]["key"])))
            elif cur[ret] != "P":
                return dict(i=j, check="I5", sig="merge-returned-keyless-%s" % cur[ret], obj=ret, detail="merge returned a keyless instance in state %s" % cur[ret])
        if not failed and kind == "refresh":
            i = op[1]
            if cur[i] != "S" or objs[i]["expired"]:
                return dict(i=j, check="I6", sig="refresh-left-%s%s" % (cur[i], "-expired" if objs[i]["expired"] else ""), obj=i,
                            detail="after refresh instance %d is %s expired=%s" % (i, cur[i], objs[i]["expired"]))
        prev = r
    return None


# =============================================================================== C32
FLUSH_ERRORS = ("err:IntegrityError", "err:StaleDataError")


def check_case_c32(eoc, ops, recs):
    """Direct oracle for C32 on single-class histories: a flush that failed with a database
    error (IntegrityError / StaleDataError) while no SAVEPOINT was open

    R1 leaves nothing pending: session.new and session.deleted are empty, no instance is
       pending or deleted
    R2 leaves the connection showing exactly the rows of the last commit (nothing of the
       failed transaction is visible, let alone committed)
    R3 leaves the session inactive until rollback(); rollback() then succeeds, ends the
       transaction and reactivates the session
    R4 every instance that was persistent at the last commit and has not been expunged since
       is persistent again (same identity key) once rollback() has run
    R5 (every rollback, also of a SAVEPOINT) an instance of the last commit that is persistent,
       unexpired and unmodified shows the values of its row
    """
    committed = []
    committed_persistent = {}
    committed_rows_of = set()  # instances persistent at the last commit and attached ever since
    pending_failure = False
    failure_at = -2
    prev = None
    for j, (op, r) in enumerate(zip(ops, recs)):
        if r is None:
            return None
        kind = op[0]
        objs = r["objs"]
        cur = [state_letter(o) for o in objs]
        committed_rows_of = {i for i in committed_rows_of if cur[i] in "SD"}
        if kind in ("expunge", "expunge_all", "close", "mt", "mtd", "merge"):
            committed_rows_of = set()
        # R5: whatever a rollback (of the transaction, of a SAVEPOINT, or the one inside a failed
        # flush) leaves persistent and unexpired shows the values of its row: here the loaded
        # primary-key attribute equals the identity key (values written by rolled-back UPDATEs
        # must have been expired)
        if kind in ("rollback", "nrollback") or r["res"] in FLUSH_ERRORS:
            for i, o in enumerate(objs):
                if (i in committed_rows_of and cur[i] == "S" and not o["expired"]
                        and not o["modified"] and o.get("loaded_pk") is not None and o["loaded_pk"] != o["key"]):
                    in_map = (o["key"], i) in [tuple(x) for x in r["imap"]]
                    return dict(i=j, check="R5", obj=i,
                                sig="unexpired-instance-keeps-rolled-back-value" if in_map else "instance-evicted-from-identity-map-by-key-restoration-keeps-rolled-back-value",
                                detail="after %s instance %d is persistent, not expired, not modified, identity key %s, but its loaded primary-key attribute is %s" % (
                                    ":".join(str(x) for x in op), i, o["key"], o["loaded_pk"]))
        nested_before = prev["txn"][1] if prev else 0
        if r["res"] in FLUSH_ERRORS and nested_before == 0 and (prev is None or prev["txn"][2]):
            if r["new"] or r["deleted"] or "P" in cur:
                return dict(i=j, check="R1", sig="pending-state-left-after-failed-flush",
                            detail="after the failed flush: session.new=%s session.deleted=%s states=%s" % (r["new"], r["deleted"], "".join(cur)))
            if r["db"] != committed:
                return dict(i=j, check="R2", sig="rows-of-failed-transaction-visible",
                            detail="after the failed flush the connection shows rows %s, last commit had %s" % (r["db"], committed))
            if r["txn"][2]:
                return dict(i=j, check="R3", sig="session-active-after-failed-flush", detail="session.is_active is True right after a failed flush")
            pending_failure = True
            failure_at = j
        elif pending_failure and j != failure_at + 1:
            # something else happened between the failed flush and rollback(): the application
            # changed the session itself, the restoration claims below no longer apply as stated
            pending_failure = False
        elif pending_failure and kind == "rollback":
            if r["res"] != "ok" or r["txn"][0] != 0 or not r["txn"][2]:
                return dict(i=j, check="R3", sig="rollback-after-failed-flush-" + r["res"].replace("err:", ""),
                            detail="rollback() after a failed flush: %s, transaction depth %d, is_active %s" % (r["res"], r["txn"][0], r["txn"][2]))
            if r["db"] != committed:
                return dict(i=j, check="R2", sig="rows-differ-after-rollback", detail="after rollback the connection shows %s, last commit had %s" % (r["db"], committed))
            for i, k in committed_persistent.items():
                if cur[i] != "S" or objs[i]["key"] != k:
                    return dict(i=j, check="R4", sig="committed-instance-%s-after-rollback" % cur[i], obj=i,
                                detail="instance %d was persistent with key %s at the last commit; after the failed flush + rollback it is %s with key %s" % (i, k, cur[i], objs[i]["key"]))
            pending_failure = False
        if r["res"] == "ok" and kind == "commit":
            committed_rows_of = {i for i, o in enumerate(objs) if cur[i] == "S"}
            committed = list(r["db"])
            committed_persistent = {i: o["key"] for i, o in enumerate(objs) if cur[i] == "S"}
            pending_failure = False
        elif kind in ("expunge", "expunge_all", "close", "mt", "mtd", "delete", "merge", "get", "query", "refresh", "setpk", "add") and not pending_failure:
            # operations that legitimately change which instances the session holds / their keys
            committed_persistent = {i: k for i, k in committed_persistent.items() if cur[i] == "S" and objs[i]["key"] == k}
            if kind == "close":
                committed = list(r["db"])
        elif r["res"] == "ok" and kind == "rollback" and not pending_failure:
            committed_persistent = {i: k for i, k in committed_persistent.items() if cur[i] == "S" and objs[i]["key"] == k}
        prev = r
    return None


# =============================================================================== C34, identity tokens
def check_case_tokens(eoc, ops, recs):
    """Direct oracle for identity tokens (not modelled in Lean): identity key = (class, pk, token).

    K1 identity_map[(pk, token)] is a persistent instance whose own key is (pk, token)
    K2 get(pk, identity_token=t): an instance present under (pk, t) and not expired is returned
       without SQL; whatever is returned carries exactly (pk, t) and is the identity map's
       instance for that key; an instance under another token is never returned
    K3 a query executed with identity_token=t returns, for every row, the identity map's
       instance for (pk, t)
    K4 the identity token of an instance never changes (detached instances incl. pickle round
       trips, re-attached with add, changed and flushed)
    """
    prev = None
    for j, (op, r) in enumerate(zip(ops, recs)):
        if r is None:
            return None
        kind = op[0]
        failed = r["res"].startswith("err:")
        objs = r["objs"]
        cur = [state_letter(o) for o in objs]
        imap = {(k, t): i for k, t, i in r["imap_t"]}
        # K4: the identity token of an instance never changes (a flush may switch the primary key
        # part of the identity key, never the token: Session.get / queries under that token would
        # no longer find the instance and load a second one for the same row)
        if prev is not None:
            for i, o in enumerate(objs):
                if i < len(prev["objs"]):
                    po = prev["objs"][i]
                    if po["key"] is not None and o["key"] is not None and po["token"] != o["token"]:
                        return dict(i=j, check="K4", sig="identity-token-of-instance-changed", obj=i,
                                    detail="instance %d had identity (%s, %r), after %s it has (%s, %r)" % (
                                        i, po["key"], po["token"], ":".join(str(x) for x in op), o["key"], o["token"]))
        for (k, t), i in imap.items():
            if not (0 <= i < len(objs)) or cur[i] not in "SD" or objs[i]["key"] != k or objs[i]["token"] != t:
                return dict(i=j, check="K1", sig="imap-entry-key-token-mismatch",
                            detail="identity_map[(%s, %r)] is instance %s with key (%s, %r) state %s" % (
                                k, t, i, objs[i]["key"] if 0 <= i < len(objs) else "?", objs[i]["token"] if 0 <= i < len(objs) else "?", cur[i] if 0 <= i < len(objs) else "?"))
        if not failed and kind in ("get", "gett"):
            k = op[1]
            t = op[2] if kind == "gett" else None
            ret = _ret(r["res"])
            if prev is not None:
                pcur = [state_letter(o) for o in prev["objs"]]
                pres = [i for kk, tt, i in prev["imap_t"] if kk == k and tt == t and 0 <= i < len(pcur) and pcur[i] == "S" and not prev["objs"][i]["expired"]]
                if pres:
                    if ret != pres[0]:
                        return dict(i=j, check="K2", sig="get-present-returned-other", detail="get(%s, token=%r): instance %d was present and unexpired, got %s" % (k, t, pres[0], ret))
                    if r["q"] > 0:
                        return dict(i=j, check="K2", sig="get-present-emitted-sql", detail="get(%s, token=%r): instance %d was present and unexpired but SQL was emitted" % (k, t, pres[0]))
            if ret is not None:
                if objs[ret]["key"] != k or objs[ret]["token"] != t:
                    return dict(i=j, check="K2", sig="get-returned-other-identity", obj=ret,
                                detail="get(%s, token=%r) returned instance %d whose identity is (%s, %r)" % (k, t, ret, objs[ret]["key"], objs[ret]["token"]))
                if imap.get((k, t)) != ret and cur[ret] == "S":
                    return dict(i=j, check="K2", sig="get-returned-not-the-map-instance", obj=ret,
                                detail="get(%s, token=%r) returned instance %d but identity_map has %s" % (k, t, ret, imap.get((k, t))))
        if not failed and kind == "merge" and prev is not None and 0 <= op[1] < len(prev["objs"]):
            # merge of a source that carries an identity (pk, token): the instance returned, when it has
            # an identity, has exactly that one and is the identity map's instance for it
            src = prev["objs"][op[1]]
            ret = _ret(r["res"])
            if src["key"] is not None and isinstance(ret, int) and 0 <= ret < len(objs) and objs[ret]["key"] is not None and cur[ret] == "S":
                if objs[ret]["key"] != src["key"] or objs[ret]["token"] != src["token"]:
                    return dict(i=j, check="K5", sig="merge-returned-other-identity", obj=ret,
                                detail="merge of instance %d with identity (%s, %r) returned instance %d whose identity is (%s, %r)" % (
                                    op[1], src["key"], src["token"], ret, objs[ret]["key"], objs[ret]["token"]))
                if imap.get((src["key"], src["token"])) != ret:
                    return dict(i=j, check="K5", sig="merge-returned-not-the-map-instance", obj=ret,
                                detail="merge of instance %d (%s, %r) returned instance %d but identity_map has %s" % (
                                    op[1], src["key"], src["token"], ret, imap.get((src["key"], src["token"]))))
        if not failed and kind in ("query", "queryt"):
            t = op[1] if kind == "queryt" else None
            ret = _ret(r["res"])
            for i in ret:
                if objs[i]["token"] != t or imap.get((objs[i]["key"], t)) != i:
                    return dict(i=j, check="K3", sig="query-returned-other-identity", obj=i,
                                detail="query(token=%r) returned instance %d with identity (%s, %r); identity_map[(%s, %r)] = %s" % (
                                    t, i, objs[i]["key"], objs[i]["token"], objs[i]["key"], t, imap.get((objs[i]["key"], t))))
            keys = [objs[i]["key"] for i in ret]
            if keys != r["db"]:
                return dict(i=j, check="K3", sig="query-rows-vs-instances", detail="query(token=%r) returned keys %s, rows visible %s" % (t, keys, r["db"]))
        prev = r
    return None
