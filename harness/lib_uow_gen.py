"""Case generation + parallel execution on the real code for the session properties.

A *case* is (eoc, ops); ops are generated while executing the real code (the pool of
instances grows with merge/get results), from one `random.Random` per chunk seeded
from (property, VERIF_SEED, chunk index), so a run is reproducible.  Chunks are
executed in forked worker processes (source mode is inherited from the parent).
"""
import itertools
import multiprocessing as mp
import random

from harness import lib_uow as L

PKS = (1, 2, 3)

# (op name, weight); parameters filled in by `pick`
WEIGHTS = {
    "uniform": [("add", 18), ("delete", 8), ("flush", 12), ("commit", 8), ("rollback", 7), ("expunge", 5),
                ("merge", 4), ("get", 5), ("mt", 4), ("mtd", 3), ("setpk", 5), ("nbegin", 4), ("ncommit", 3),
                ("nrollback", 3), ("close", 3), ("expunge_all", 2), ("expire", 3), ("new", 3)],
    # ordinary application traffic: few exotic calls
    "plain": [("add", 22), ("delete", 12), ("flush", 14), ("commit", 12), ("rollback", 10), ("expunge", 4),
              ("merge", 6), ("get", 8), ("nbegin", 4), ("ncommit", 3), ("nrollback", 3), ("close", 2),
              ("expire", 3), ("new", 5), ("setpk", 2)],
    # savepoint heavy
    "nested": [("add", 16), ("delete", 10), ("flush", 10), ("commit", 5), ("rollback", 6), ("nbegin", 12),
               ("ncommit", 8), ("nrollback", 10), ("setpk", 6), ("get", 4), ("merge", 3), ("expunge", 4),
               ("new", 4), ("expire", 2)],
    # detach / re-attach / make_transient traffic
    "detach": [("add", 18), ("delete", 8), ("flush", 10), ("commit", 8), ("rollback", 6), ("expunge", 10),
               ("expunge_all", 4), ("close", 5), ("mt", 8), ("mtd", 6), ("merge", 8), ("get", 5), ("new", 3),
               ("setpk", 3)],
    # conflicting primary keys, phantom rows, pk changes: many failing flushes (C32)
    "conflict": [("add", 22), ("delete", 8), ("flush", 14), ("commit", 10), ("rollback", 9), ("setpk", 10), ("mtd", 5),
                 ("new", 8), ("merge", 3), ("get", 3), ("expunge", 3), ("nbegin", 2), ("nrollback", 2), ("mt", 2), ("expire", 2)],
    # loading traffic for C34: queries, get, refresh, merge, pk changes, expunge/re-add
    "identity": [("add", 14), ("delete", 5), ("flush", 8), ("commit", 8), ("rollback", 5), ("expunge", 7),
                 ("merge", 8), ("get", 12), ("query", 10), ("refresh", 5), ("setpk", 8), ("expire", 5), ("mt", 2),
                 ("mtd", 3), ("nbegin", 3), ("nrollback", 3), ("ncommit", 2), ("close", 2), ("new", 4), ("expunge_all", 1)],
}


TOKENS = ("t1", "t2")
WEIGHTS["tokens"] = [("add", 12), ("new", 6), ("commit", 10), ("flush", 6), ("rollback", 4), ("expunge", 5), ("expire", 5),
                     ("get", 12), ("gett", 18), ("query", 6), ("queryt", 10), ("refresh", 3), ("delete", 3), ("close", 2),
                     ("expunge_all", 1), ("touch", 9), ("pickle", 8), ("merge", 9)]


# several flushes inside one SAVEPOINT touching the same instance (update, then delete, then a
# failing flush or a savepoint rollback)
WEIGHTS["savepoint"] = [("add", 14), ("setpk", 16), ("flush", 22), ("delete", 14), ("nbegin", 12), ("nrollback", 10),
                        ("ncommit", 3), ("commit", 5), ("rollback", 3), ("new", 3), ("get", 2), ("expire", 2)]


def pick(rng, profile, npool):
    names, ws = zip(*WEIGHTS[profile])
    k = rng.choices(names, ws)[0]
    if k == "query":
        return (k, int(rng.random() < 0.3), int(rng.random() < 0.3))
    if k == "gett":
        return (k, rng.choice(PKS), rng.choice(TOKENS))
    if k == "queryt":
        return (k, rng.choice(TOKENS), int(rng.random() < 0.3))
    if k in ("add", "delete", "expunge", "expire", "mtd", "merge", "refresh", "touch", "pickle"):
        return (k, rng.randrange(npool))
    if k in ("mt", "setpk"):
        return (k, rng.randrange(npool), rng.choice(PKS))
    if k in ("get", "new"):
        return (k, rng.choice(PKS))
    return (k,)


def gen_random_case(rng, profile, nops, eoc):
    env = L.Env(eoc=eoc, with_data=profile == "tokens")
    ops, recs = [], []
    try:
        for _ in range(rng.randint(1, 3)):
            op = ("new", rng.choice(PKS))
            ops.append(op)
            recs.append(env.apply(op))
        for _ in range(nops):
            if profile == "tokens" and rng.random() < 0.12:
                # an instance leaves the Session, possibly travels through pickle, comes back
                # with add(), is changed and flushed
                i = rng.randrange(len(env.pool))
                macro = [("expunge", i)] + ([("pickle", i)] if rng.random() < 0.7 else []) + [("add", i)]
                macro += ([("touch", i)] if rng.random() < 0.8 else []) + [("flush",)]
                for op in macro:
                    ops.append(op)
                    recs.append(env.apply(op))
                continue
            op = pick(rng, profile, len(env.pool))
            ops.append(op)
            recs.append(env.apply(op))
    finally:
        env.dispose()
    return eoc, ops, recs


def gen_savepoint_ops(rng):
    """a history with SAVEPOINTs in which several flushes touch the same instances: inside each
    SAVEPOINT 2-5 groups of 1-2 changes (primary-key update, delete, add, expire) each followed
    by a flush, ended by a SAVEPOINT rollback, a release, a transaction rollback or left to a
    failing flush (a conflicting primary key)"""
    pks = rng.sample(PKS, rng.randint(1, len(PKS)))
    ops = [("new", k) for k in pks]
    n = len(ops)
    for i in range(n):
        if rng.random() < 0.85:
            ops.append(("add", i))
    ops.append(rng.choice([("commit",), ("commit",), ("flush",)]))
    for _ in range(rng.randint(1, 2)):
        ops.append(("nbegin",))
        for _g in range(rng.randint(2, 5)):
            for _c in range(rng.randint(1, 2)):
                w = rng.random()
                i = rng.randrange(n)
                if w < 0.40:
                    ops.append(("setpk", i, rng.choice(PKS)))
                elif w < 0.72:
                    ops.append(("delete", i))
                elif w < 0.90:
                    ops.append(("add", i))
                else:
                    ops.append(("expire", i))
            ops.append(("flush",))
        w = rng.random()
        if w < 0.5:
            ops.append(("nrollback",))
        elif w < 0.65:
            ops.append(("ncommit",))
        elif w < 0.8:
            ops.append(("rollback",))
        # else: the SAVEPOINT stays open
    for _ in range(rng.randint(0, 3)):
        ops.append(rng.choice([("commit",), ("rollback",), ("flush",), ("get", rng.choice(PKS)), ("nrollback",)]))
    return ops


def run_fixed(eoc, ops):
    return eoc, [tuple(o) for o in ops], L.run_ops(ops, eoc)


def compact(case):
    """(eoc, ops, recs) -> (eoc, ops, canonical record strings, first oracle failure):
    what crosses the process boundary"""
    from harness import lib_uow_oracle as O

    eoc, ops, recs = case
    strs = [L.fmt_record(r) if r is not None else "bad-oid" for r in recs]
    return eoc, ops, strs, {"c35": O.check_case(eoc, ops, recs), "c34": O.check_case_c34(eoc, ops, recs),
                            "c32": O.check_case_c32(eoc, ops, recs)}


# exhaustive small scope: two instances a (pk 1) and b (pk 1 or 2)
SMALL_ALPHABET = [
    ("add", 0), ("add", 1), ("delete", 0), ("delete", 1), ("expunge", 0), ("flush",), ("commit",), ("rollback",),
    ("nbegin",), ("nrollback",), ("ncommit",), ("close",), ("get", 1), ("merge", 0), ("mt", 0, 1), ("mtd", 0),
    ("setpk", 0, 2), ("expire", 0),
]
# for C34: loading operations added
IDENTITY_ALPHABET = SMALL_ALPHABET + [("query", 0, 0), ("query", 1, 0), ("refresh", 0), ("get", 2), ("merge", 1), ("setpk", 1, 1)]


def small_scope(maxlen, pkb, alphabet=None):
    pre = [("new", 1), ("new", pkb)]
    for n in range(1, maxlen + 1):
        for seq in itertools.product(alphabet or SMALL_ALPHABET, repeat=n):
            yield pre + list(seq)


def _worker(job):
    kind = job[0]
    out = []
    if kind == "random":
        _, seedstr, n, profile, lo, hi, eoc_p = job
        rng = random.Random(seedstr)
        for _ in range(n):
            out.append(compact(gen_random_case(rng, profile, rng.randint(lo, hi), rng.random() < eoc_p)))
    elif kind == "fixed":
        for eoc, ops in job[1]:
            out.append(compact(run_fixed(eoc, ops)))
    elif kind == "savepoint":
        _, seedstr, n, eoc_p = job
        rng = random.Random(seedstr)
        for _ in range(n):
            out.append(compact(run_fixed(rng.random() < eoc_p, gen_savepoint_ops(rng))))
    elif kind == "tokens":  # identity tokens: direct oracle only, nothing goes to the model
        from harness import lib_uow_oracle as O

        _, seedstr, n, lo, hi, eoc_p = job
        rng = random.Random(seedstr)
        for _ in range(n):
            eoc, ops, recs = gen_random_case(rng, "tokens", rng.randint(lo, hi), rng.random() < eoc_p)
            two = any(r is not None and len({k for k, t, i in r["imap_t"]}) < len(r["imap_t"]) for r in recs)
            out.append((eoc, ops, two, O.check_case_tokens(eoc, ops, recs)))
    return out


def run_jobs(jobs, procs=8):
    """execute jobs (in order) on the real code; returns the flat list of cases"""
    if procs <= 1 or len(jobs) <= 1:
        res = [_worker(j) for j in jobs]
    else:
        ctx = mp.get_context("fork")
        with ctx.Pool(min(procs, len(jobs))) as pool:
            res = pool.map(_worker, jobs, chunksize=1)
    return [c for chunk in res for c in chunk]
