"""Shared real-code interpreter for the session / unit-of-work properties (C35, C34, C32).

One mapped class ``Item(id INTEGER PRIMARY KEY, autoincrement off)``, one Session on
an in-memory SQLite database (single DBAPI connection, ``autocommit=False`` so that
SAVEPOINT works), every lifecycle event recorded.  Objects are referred to by their
index in ``Env.pool``; the harness keeps a strong reference to every instance it
has ever seen, so weak references never die.

The operation language is the one of lean/SaVerif/Model/Sess.lean (`Op`), the
per-operation record is printed in exactly the format of lean/SaVerif/Drv/Sess.lean.
"""
import warnings

EVENTS = [
    "transient_to_pending",
    "pending_to_transient",
    "persistent_to_transient",
    "pending_to_persistent",
    "detached_to_persistent",
    "loaded_as_persistent",
    "persistent_to_deleted",
    "deleted_to_persistent",
    "deleted_to_detached",
    "persistent_to_detached",
]
FLAGS = ("transient", "pending", "persistent", "deleted", "detached")
LETTER = {"transient": "T", "pending": "P", "persistent": "S", "deleted": "D", "detached": "X"}

_cache = {}


TOKEN_OPS = ("gett", "queryt", "touch", "pickle")


def mapping(with_data=False):
    """(Base, Item) — created once per process. with_data: the class of the identity-token
    histories, which has a second, plain column (the modelled histories use the one-column
    class the Lean model transcribes)"""
    tag = "ItemD" if with_data else "Item"
    if tag not in _cache:
        import sqlalchemy as sa
        from sqlalchemy import orm

        Base = orm.declarative_base()

        if with_data:

            class Item(Base):
                __tablename__ = "item"
                id = sa.Column(sa.Integer, primary_key=True, autoincrement=False)
                data = sa.Column(sa.String, nullable=True)

                def __repr__(self):
                    return "ItemD@%x" % id(self)

            # importable by name: instances travel through pickle ("pickle" operation)
            Item.__module__, Item.__qualname__ = __name__, "ItemD"
            globals()["ItemD"] = Item
        else:

            class Item(Base):
                __tablename__ = "item"
                id = sa.Column(sa.Integer, primary_key=True, autoincrement=False)

                def __repr__(self):
                    return "Item@%x" % id(self)

        _cache["Base" + tag], _cache[tag] = Base, Item
    return _cache["Base" + tag], _cache[tag]


class Env:
    def __init__(self, eoc=True, with_data=False):
        import sqlalchemy as sa
        from sqlalchemy import event
        from sqlalchemy.orm import Session
        from sqlalchemy.pool import StaticPool

        self.sa = sa
        Base, Item = mapping(with_data)
        self.Item = Item
        self.eng = sa.create_engine("sqlite://", poolclass=StaticPool, connect_args={"autocommit": False})
        Base.metadata.create_all(self.eng)
        c = self.eng.connect()
        self.dbapi = c.connection.dbapi_connection
        c.close()
        self.s = Session(self.eng, expire_on_commit=eoc)
        self.pool = []
        self.ids = {}
        self.evlog = []  # (name, obj)
        self.nsql = 0
        self.stmts = []
        for name in EVENTS:
            event.listen(self.s, name, self._mk(name))

        @event.listens_for(self.eng, "before_cursor_execute")
        def bce(conn, cursor, statement, parameters, context, executemany):
            head = statement.lstrip().split(None, 1)[0].upper() if statement.strip() else ""
            if head in ("SELECT", "INSERT", "UPDATE", "DELETE"):
                self.nsql += 1
                self.stmts.append(head)

    def _mk(self, name):
        def h(sess, obj):
            self.evlog.append((name, obj))

        return h

    def dispose(self):
        try:
            self.s.close()
        except Exception:
            pass
        self.eng.dispose()

    # ------------------------------------------------------------------ pool
    def idx(self, obj):
        i = self.ids.get(id(obj))
        if i is None:
            i = len(self.pool)
            self.pool.append(obj)
            self.ids[id(obj)] = i
        return i

    # ------------------------------------------------------------------ one operation
    def apply(self, op):
        """op = tuple like ("add", 0); returns the record dict"""
        from sqlalchemy.orm import make_transient, make_transient_to_detached

        s, P = self.s, self.pool
        self.evlog = []
        q0 = self.nsql
        kind = op[0]
        res = "ok"
        if kind in ("add", "delete", "expunge", "expire", "mt", "mtd", "setpk", "merge", "refresh", "touch", "pickle") and not (0 <= op[1] < len(P)):
            return None  # bad-oid: not executed
        with warnings.catch_warnings():
            warnings.simplefilter("ignore")
            try:
                if kind == "new":
                    self.idx(self.Item(id=op[1]))
                elif kind == "add":
                    s.add(P[op[1]])
                elif kind == "delete":
                    s.delete(P[op[1]])
                elif kind == "expunge":
                    s.expunge(P[op[1]])
                elif kind == "expire":
                    s.expire(P[op[1]])
                elif kind == "mt":
                    make_transient(P[op[1]])
                    P[op[1]].id = op[2]
                elif kind == "mtd":
                    make_transient_to_detached(P[op[1]])
                elif kind == "setpk":
                    P[op[1]].id = op[2]
                elif kind == "merge":
                    src = P[op[1]]
                    ist = self.sa.inspect(src)
                    k = ist.key[1][0] if ist.key is not None else src.__dict__.get("id")
                    m = s.merge(src)
                    mi = self.sa.inspect(m)
                    if mi.key is None and "id" not in m.__dict__:
                        m.id = k  # harness fix-up (see Model/Sess.lean `merge`)
                    res = "ok:%d" % self.idx(m)
                elif kind == "get":
                    r = s.get(self.Item, op[1])
                    res = "ok:N" if r is None else "ok:%d" % self.idx(r)
                elif kind == "flush":
                    s.flush()
                elif kind == "commit":
                    s.commit()
                elif kind == "rollback":
                    s.rollback()
                elif kind == "nbegin":
                    s.begin_nested()
                elif kind == "ncommit":
                    t = s.get_nested_transaction()
                    if t is None:
                        res = "err:NoNested"
                    else:
                        t.commit()
                elif kind == "nrollback":
                    t = s.get_nested_transaction()
                    if t is None:
                        res = "err:NoNested"
                    else:
                        t.rollback()
                elif kind == "close":
                    s.close()
                elif kind == "expunge_all":
                    s.expunge_all()
                elif kind == "query":
                    opts = {}
                    if op[1]:
                        opts["populate_existing"] = True
                    if op[2]:
                        opts["yield_per"] = 2
                    stmt = self.sa.select(self.Item).order_by(self.Item.id)
                    rows = s.execute(stmt, execution_options=opts).scalars().all()
                    self.last_query = rows
                    res = "ok:[" + ".".join(str(self.idx(o)) for o in rows) + "]"
                elif kind == "refresh":
                    s.refresh(P[op[1]])
                elif kind == "touch":  # a plain (non primary key) change: the next flush includes the instance
                    P[op[1]].data = (P[op[1]].__dict__.get("data") or "") + "x"
                elif kind == "pickle":
                    # a detached / transient instance goes through a pickle round trip (cache,
                    # worker hand-off); the copy takes its place
                    import pickle

                    o = P[op[1]]
                    if self.sa.inspect(o).session_id is not None:
                        res = "err:StillAttached"
                    else:
                        c = pickle.loads(pickle.dumps(o))
                        del self.ids[id(o)]
                        self._dropped = getattr(self, "_dropped", []) + [o]  # keep the id() unique
                        P[op[1]] = c
                        self.ids[id(c)] = op[1]
                elif kind == "gett":  # Session.get with an identity token (not modelled in Lean)
                    r = s.get(self.Item, op[1], identity_token=op[2])
                    res = "ok:N" if r is None else "ok:%d" % self.idx(r)
                elif kind == "queryt":
                    opts = {"identity_token": op[1]}
                    if op[2]:
                        opts["populate_existing"] = True
                    stmt = self.sa.select(self.Item).order_by(self.Item.id)
                    rows = s.execute(stmt, execution_options=opts).scalars().all()
                    res = "ok:[" + ".".join(str(self.idx(o)) for o in rows) + "]"
                else:
                    raise ValueError(kind)
            except Exception as e:  # noqa: BLE001 - every exception class is an observable
                res = "err:" + type(e).__name__
        return self.observe(res, q0)

    def observe(self, res, q0):
        sa, s = self.sa, self.s
        # any instance the session knows that we have not seen yet
        for st in list(s.identity_map._dict.values()):
            o = st.obj()
            if o is not None:
                self.idx(o)
        for o in list(s._new.values()):
            self.idx(o)
        for _, o in self.evlog:
            self.idx(o)
        objs = []
        for o in self.pool:
            i = sa.inspect(o)
            objs.append(
                {
                    "flags": tuple(bool(getattr(i, f)) for f in FLAGS),
                    "was_deleted": bool(i.was_deleted),
                    "expired": bool(i.expired),
                    "modified": bool(i.modified),
                    # the primary-key attribute as it is loaded right now (no load is triggered)
                    "loaded_pk": i.dict.get("id") if "id" in i.dict else None,
                    "key": None if i.key is None else i.key[1][0],
                    "token": None if i.key is None else i.key[2],
                    "sid": i.session_id is not None,
                }
            )
        imap = []
        imap_t = []
        for k, st in s.identity_map._dict.items():
            o = st.obj()
            imap.append((k[1][0], self.ids.get(id(o), -1)))
            imap_t.append((k[1][0], k[2], self.ids.get(id(o), -1)))
        depth, nested, t = 0, 0, s._transaction
        while t is not None:
            depth += 1
            nested += 1 if t.nested else 0
            t = t._parent
        rows = sorted(r[0] for r in self.dbapi.execute("select id from item").fetchall())
        return {
            "res": res,
            "objs": objs,
            "new": sorted(self.ids[id(o)] for o in s._new.values()),
            "deleted": sorted(self.ids[id(o)] for o in s._deleted.values()),
            "imap": sorted(imap),
            "imap_t": sorted(imap_t, key=repr),
            "events": [(n, self.ids[id(o)]) for n, o in self.evlog],
            "txn": (depth, nested, bool(s.is_active)),
            "db": rows,
            "q": self.nsql - q0,
        }


def b(x):
    return "1" if x else "0"


def fmt_list(l):
    return ",".join(str(x) for x in l) if l else "-"


def fmt_record(r):
    """canonical string, identical to Drv/Sess.lean showState"""
    objs = []
    for o in r["objs"]:
        objs.append(
            "".join(b(f) for f in o["flags"])
            + b(o["was_deleted"])
            + b(o["expired"])
            + b(o["modified"])
            + ("N" if o["key"] is None else str(o["key"]))
        )
    im = sorted("%d>%d" % e for e in r["imap"])
    ev = sorted("%s:%d" % e for e in r["events"])
    tx = "t%dn%da%s" % (r["txn"][0], r["txn"][1], b(r["txn"][2]))
    return "|".join(
        [
            r["res"],
            ",".join(objs) if objs else "-",
            fmt_list(r["new"]),
            fmt_list(r["deleted"]),
            ",".join(im) if im else "-",
            ",".join(ev) if ev else "-",
            tx,
            fmt_list(r["db"]),
            "q1" if r["q"] > 0 else "q0",
        ]
    )


def fmt_op(op):
    return ":".join(str(x) for x in op)


def parse_op(tok):
    p = tok.split(":")
    return tuple([p[0]] + [int(x) for x in p[1:]])


def state_letter(o):
    on = [f for f, v in zip(FLAGS, o["flags"]) if v]
    return LETTER[on[0]] if len(on) == 1 else "?"


def run_ops(ops, eoc=True):
    """execute a fixed op list; returns list of records (None for bad-oid → stops)"""
    env = Env(eoc, with_data=any(op[0] in TOKEN_OPS for op in ops))
    out = []
    try:
        for op in ops:
            r = env.apply(tuple(op))
            if r is None:
                out.append(None)
                break
            out.append(r)
    finally:
        env.dispose()
    return out


def project(rec, prop):
    """keep of a canonical record string only what property `prop` speaks about.

    c35: outcome, the five state flags + was_deleted + identity key of every instance,
         session.new / session.deleted / identity map, lifecycle events
    c34: outcome (incl. returned instance), identity key + attachment flags, identity map,
         expired flag, whether SQL was emitted
    c32: outcome, state flags + expired flag + identity key of every instance, session.new /
         session.deleted / identity map, transaction stack, rows visible
    full: everything
    """
    if rec in ("abstain", "bad-oid") or prop == "full":
        return rec
    nondet = rec.endswith("|nondet")
    f = rec.split("|")
    res, objs, new, dele, im, ev, tx, db, q = f[:9]
    toks = [] if objs == "-" else objs.split(",")
    if prop == "c35":
        o2 = ",".join(t[:6] + t[8:] for t in toks) or "-"
        out = [res, o2, new, dele, im, ev]
    elif prop == "c34":
        o2 = ",".join(t[:5] + t[6] + t[8:] for t in toks) or "-"
        out = [res, o2, im, q]
    elif prop == "c32":
        o2 = ",".join(t[:5] + t[6] + t[8:] for t in toks) or "-"  # state flags, expired, identity key
        out = [res, o2, new, dele, im, tx, db]
    else:
        raise ValueError(prop)
    return "|".join(out) + ("|nondet" if nondet else "")
